"""C12 (Tier B, bounded): script integers, data pushes and script text encode canonically and losslessly.

Oracle: the property statement + Bitcoin Core: CScriptNum::serialize / the fRequireMinimal test of CScriptNum's
constructor (script.h), GetScriptOp (script.cpp) and CheckMinimalPush (interpreter.cpp), all transcribed below
independently of pycoin.  Minimality of a number encoding is additionally defined by uniqueness: s is minimal iff
s == enc(dec(s)).  pycoin (IntStreamer, the BTC network's ScriptTools / ScriptStreamer) is only the system under test.
"""
import random

from pyvc.bounded import bounded, Tally

MAX_PER_KEY = 3

OP_0, OP_PUSHDATA1, OP_PUSHDATA2, OP_PUSHDATA4, OP_1NEGATE, OP_RESERVED, OP_1, OP_16 = 0, 76, 77, 78, 79, 80, 81, 96
MINIMALDATA = 24          # pycoin.satoshi.errno.MINIMALDATA (checked against the module at run time)


class KTally(Tally):
    """Tally that keeps at most MAX_PER_KEY violations per finding key so one defect cannot crowd out another."""

    def __init__(self, rule):
        super().__init__(rule)
        self.per_key = {}

    def violation(self, what, inputs, repro=None, finding_key=None):
        k = finding_key or what
        self.per_key[k] = self.per_key.get(k, 0) + 1
        if self.per_key[k] <= MAX_PER_KEY:
            super().violation(what, inputs, repro, finding_key)

    def result(self):
        r = super().result()
        r["violation_counts_by_key"] = dict(self.per_key)
        return r


# ----------------------------------------------------------------------------------------------------------------
# independent references
# ----------------------------------------------------------------------------------------------------------------

def ref_num_enc(v):
    """CScriptNum::serialize: little-endian magnitude, sign in the top bit of the last byte"""
    if v == 0:
        return b""
    m = abs(v)
    b = bytearray(m.to_bytes((m.bit_length() + 7) // 8, "little"))
    if b[-1] & 0x80:
        b.append(0x80 if v < 0 else 0x00)
    elif v < 0:
        b[-1] |= 0x80
    return bytes(b)


def ref_num_dec(s):
    """CScriptNum set_vch"""
    if not s:
        return 0
    m = int.from_bytes(s, "little")
    if s[-1] & 0x80:
        return -(m & ~(0x80 << (8 * (len(s) - 1))))
    return m


def ref_num_is_minimal(s):
    """uniqueness definition; equals Core's fRequireMinimal test (asserted in the harness on every case)"""
    return ref_num_enc(ref_num_dec(s)) == s


def core_require_minimal_ok(s):
    """script.h CScriptNum(vch, fRequireMinimal): transcription"""
    if len(s) > 0:
        if (s[-1] & 0x7F) == 0:
            if len(s) <= 1 or (s[-2] & 0x80) == 0:
                return False
    return True


def ref_minimal_push(data):
    """the shortest script fragment that pushes data (and the only one CheckMinimalPush accepts)"""
    n = len(data)
    if n == 0:
        return bytes([OP_0])
    if n == 1 and 1 <= data[0] <= 16:
        return bytes([OP_1 + data[0] - 1])
    if n == 1 and data[0] == 0x81:
        return bytes([OP_1NEGATE])
    if n <= 75:
        return bytes([n]) + data
    if n <= 0xFF:
        return bytes([OP_PUSHDATA1, n]) + data
    if n <= 0xFFFF:
        return bytes([OP_PUSHDATA2]) + n.to_bytes(2, "little") + data
    return bytes([OP_PUSHDATA4]) + n.to_bytes(4, "little") + data


def core_get_op(script, pc):
    """GetScriptOp: returns (ok, opcode, data_or_None, new_pc).  data is None for non-push opcodes."""
    if pc >= len(script):
        return False, None, None, pc
    opcode = script[pc]
    pc += 1
    data = None
    if opcode <= OP_PUSHDATA4:
        if opcode < OP_PUSHDATA1:
            size = opcode
        else:
            w = {OP_PUSHDATA1: 1, OP_PUSHDATA2: 2, OP_PUSHDATA4: 4}[opcode]
            if len(script) - pc < w:
                return False, opcode, None, len(script)
            size = int.from_bytes(script[pc:pc + w], "little")
            pc += w
        if len(script) - pc < size:
            return False, opcode, None, len(script)
        data = script[pc:pc + size]
        pc += size
    return True, opcode, data, pc


def core_check_minimal_push(data, opcode):
    """interpreter.cpp CheckMinimalPush: transcription"""
    assert 0 <= opcode <= OP_PUSHDATA4
    n = len(data)
    if n == 0:
        return opcode == OP_0
    if n == 1 and 1 <= data[0] <= 16:
        return False           # should have used OP_1 .. OP_16
    if n == 1 and data[0] == 0x81:
        return False           # should have used OP_1NEGATE
    if n <= 75:
        return opcode == n
    if n <= 255:
        return opcode == OP_PUSHDATA1
    if n <= 65535:
        return opcode == OP_PUSHDATA2
    return True


def push_forms(data):
    """every script fragment whose execution pushes exactly data: (opcode, fragment)"""
    n = len(data)
    out = []
    if n == 0:
        out.append((OP_0, bytes([OP_0])))
    if n == 1 and 1 <= data[0] <= 16:
        out.append((OP_1 + data[0] - 1, bytes([OP_1 + data[0] - 1])))
    if n == 1 and data[0] == 0x81:
        out.append((OP_1NEGATE, bytes([OP_1NEGATE])))
    if 1 <= n <= 75:
        out.append((n, bytes([n]) + data))
    if n <= 0xFF:
        out.append((OP_PUSHDATA1, bytes([OP_PUSHDATA1, n]) + data))
    if n <= 0xFFFF:
        out.append((OP_PUSHDATA2, bytes([OP_PUSHDATA2]) + n.to_bytes(2, "little") + data))
    out.append((OP_PUSHDATA4, bytes([OP_PUSHDATA4]) + n.to_bytes(4, "little") + data))
    return out


def const_value(opcode):
    """what OP_0, OP_1NEGATE, OP_1..OP_16 push"""
    if opcode == OP_0:
        return b""
    if opcode == OP_1NEGATE:
        return b"\x81"
    if OP_1 <= opcode <= OP_16:
        return bytes([opcode - OP_1 + 1])
    return None


def _tools():
    from pycoin.symbols.btc import network
    return network.script


def _hx(b, limit=80):
    h = b.hex()
    return h if len(h) <= limit else h[:limit] + "...(%d bytes)" % len(b)


def _bexpr(b):
    """a python expression for b that stays short for long strings (long data is generated with period 32 by _data)"""
    if len(b) <= 100:
        return "bytes.fromhex(%r)" % b.hex()
    if len(set(b)) == 1:
        return "bytes([%d])*%d" % (b[0], len(b))
    for hdr in range(0, 6):
        body = b[hdr:]
        if len(body) > 64 and body == (body[:32] * (len(body) // 32 + 1))[:len(body)]:
            return "(bytes.fromhex(%r) + (bytes.fromhex(%r)*%d)[:%d])" % (b[:hdr].hex(), body[:32].hex(),
                                                                      len(body) // 32 + 1, len(body))
    if len(b) <= 1200:
        return "bytes.fromhex(%r)" % b.hex()
    return "bytes.fromhex(%r)  # first 200 of %d bytes; rebuild from the harness seed" % (b[:200].hex(), len(b))


def _data(rng, n):
    """n seeded bytes; longer strings repeat a 32-byte seeded block so that reproducers stay short"""
    if n <= 100:
        return bytes(rng.randrange(256) for _ in range(n))
    return (rng.randbytes(32) * (n // 32 + 1))[:n]


# ----------------------------------------------------------------------------------------------------------------
# 1. integers
# ----------------------------------------------------------------------------------------------------------------

@bounded("C12.scriptnum_codec", props=["C12"],
         bound="every integer |v| < 2^17 exhaustively (thorough: 2^19); +-(2^k-1), +-2^k, +-(2^k+1) for k <= 90; seeded |v| < 2^80")
def c12_scriptnum_codec(opts):
    rng = random.Random(opts["seed"])
    thorough = opts.get("tier") == "thorough"
    from pycoin.satoshi.IntStreamer import IntStreamer
    enc, dec = IntStreamer.int_to_script_bytes, IntStreamer.int_from_script_bytes
    t = KTally(rule="case = one integer; int_to_script_bytes must equal the independent CScriptNum::serialize (the unique "
                    "minimal little-endian sign-magnitude form), decode back with and without require_minimal, and no "
                    "shorter or different byte string of the same value may be produced")

    def check(v, sample=None):
        t.case(key=v, sample=sample)
        try:
            e = enc(v)
            if e != ref_num_enc(v):
                t.violation("int_to_script_bytes is not the minimal sign-magnitude form", (v, e.hex(), ref_num_enc(v).hex()),
                            repro="from pycoin.satoshi.IntStreamer import IntStreamer as I; print(I.int_to_script_bytes(%d).hex())" % v,
                            finding_key="scriptnum-encode-wrong")
                return
            if dec(e) != v or dec(e, require_minimal=True) != v or dec(e, require_minimal=False) != v:
                t.violation("int_from_script_bytes(int_to_script_bytes(v)) != v", (v, e.hex()),
                            repro="from pycoin.satoshi.IntStreamer import IntStreamer as I; e = I.int_to_script_bytes(%d); "
                                  "print(e.hex(), I.int_from_script_bytes(e), I.int_from_script_bytes(e, require_minimal=True))" % v,
                            finding_key="scriptnum-roundtrip-lost")
        except Exception as ex:
            t.violation("script number round trip raises %s" % type(ex).__name__, (v, repr(ex)),
                        repro="from pycoin.satoshi.IntStreamer import IntStreamer as I; e = I.int_to_script_bytes(%d); "
                              "print(I.int_from_script_bytes(e, require_minimal=True))" % v,
                        finding_key="scriptnum-roundtrip-raises")

    ex_bits = 19 if thorough else 17
    for v in range(-(1 << ex_bits) + 1, 1 << ex_bits):
        check(v)
    for k in range(1, 91):
        for d in (-1, 0, 1):
            for sgn in (1, -1):
                check(sgn * ((1 << k) + d), sample={"v": sgn * ((1 << k) + d)} if k in (7, 8, 31, 71) else None)
    for _ in range(200000 if thorough else 6000):
        bits = rng.randrange(1, 81)
        check(rng.choice((1, -1)) * rng.randrange(1 << (bits - 1), 1 << bits))
    t.exhaustive = False
    return t.result()


@bounded("C12.scriptnum_minimal_decoding", props=["C12"],
         bound="ALL byte strings of length 0..2 exhaustively; seeded strings of length 3..9 biased towards the "
               "00/80/7f/ff patterns in the last two bytes; every string enc(v)+pad for pads 00/80 variants")
def c12_scriptnum_minimal_decoding(opts):
    rng = random.Random(opts["seed"] + 1)
    thorough = opts.get("tier") == "thorough"
    from pycoin.satoshi.IntStreamer import IntStreamer
    from pycoin.coins.SolutionChecker import ScriptError
    dec = IntStreamer.int_from_script_bytes
    t = KTally(rule="case = one byte string s; int_from_script_bytes(s) must be the sign-magnitude value; with "
                    "require_minimal=True it must be accepted iff s is the (unique) minimal encoding of that value, "
                    "i.e. s == enc(dec(s)) -- cross-checked with Core's fRequireMinimal rule -- and refused with ScriptError")

    def check(s):
        minimal = ref_num_is_minimal(s)
        assert minimal == core_require_minimal_ok(s), s
        want = ref_num_dec(s)
        t.case(key=s, nontrivial=True, sample={"s": s.hex(), "minimal": minimal} if len(s) > 2 else None)
        rp = ("from pycoin.satoshi.IntStreamer import IntStreamer as I; s = bytes.fromhex(%r); "
              "print(I.int_from_script_bytes(s), I.int_from_script_bytes(s, require_minimal=True))" % s.hex())
        try:
            if dec(s) != want or dec(s, require_minimal=False) != want:
                t.violation("int_from_script_bytes gives the wrong value", (s.hex(), dec(s), want), repro=rp,
                            finding_key="scriptnum-decode-wrong")
        except Exception as ex:
            t.violation("int_from_script_bytes(require_minimal=False) raises %s" % type(ex).__name__, (s.hex(), repr(ex)),
                        repro=rp, finding_key="scriptnum-decode-raises")
        try:
            got = dec(s, require_minimal=True)
            if not minimal:
                t.violation("require_minimal=True accepts a non-minimal encoding", (s.hex(), got), repro=rp,
                            finding_key="scriptnum-nonminimal-accepted")
            elif got != want:
                t.violation("int_from_script_bytes(require_minimal=True) gives the wrong value", (s.hex(), got, want),
                            repro=rp, finding_key="scriptnum-decode-wrong")
        except ScriptError:
            if minimal:
                t.violation("require_minimal=True refuses a minimal encoding", s.hex(), repro=rp,
                            finding_key="scriptnum-minimal-refused")
        except Exception as ex:
            t.violation("int_from_script_bytes(require_minimal=True) raises undocumented %s" % type(ex).__name__,
                        (s.hex(), repr(ex)), repro=rp, finding_key="scriptnum-decode-raises")

    check(b"")
    for a in range(256):
        check(bytes([a]))
    for a in range(256):
        for b in range(256):
            check(bytes([a, b]))
    interesting = (0x00, 0x01, 0x7F, 0x80, 0x81, 0xFF)
    for ln in range(3, 10):
        for _ in range(30000 if thorough else 500):
            s = bytearray(rng.randrange(256) for _ in range(ln))
            if rng.random() < 0.8:
                s[-1] = rng.choice(interesting)
            if rng.random() < 0.6:
                s[-2] = rng.choice(interesting)
            if rng.random() < 0.2:
                s[-3] = rng.choice(interesting)
            check(bytes(s))
        for last in interesting:
            for prev in interesting:
                check(b"\x00" * (ln - 2) + bytes([prev, last]))
                check(b"\xff" * (ln - 2) + bytes([prev, last]))
    # padded versions of minimal encodings are never minimal
    for _ in range(3000 if thorough else 300):
        bits = rng.randrange(1, 64)
        v = rng.choice((1, -1)) * rng.randrange(1 << (bits - 1), 1 << bits)
        e = ref_num_enc(v)
        check(e)
        if v > 0:
            check(e + b"\x00")
            check(e + b"\x00\x00")
        else:
            check(e[:-1] + bytes([e[-1] & 0x7F, 0x80]))
            check(e[:-1] + bytes([e[-1] & 0x7F, 0x00, 0x80]))
    t.exhaustive = False
    return t.result()


# ----------------------------------------------------------------------------------------------------------------
# 2. pushes
# ----------------------------------------------------------------------------------------------------------------

def _lengths(rng, thorough):
    ls = set(range(0, 80))
    for b in (75, 76, 255, 256, 520, 65535, 65536, 70000):
        ls.update(x for x in (b - 2, b - 1, b, b + 1, b + 2) if 0 <= x <= 70000)
    ls.update(rng.randrange(77, 256) for _ in range(20 if thorough else 6))
    ls.update(rng.randrange(257, 65535) for _ in range(30 if thorough else 6))
    ls.update(rng.randrange(65537, 70001) for _ in range(10 if thorough else 2))
    if thorough:
        ls.update(range(80, 300))
    return sorted(ls)


@bounded("C12.push_minimal", props=["C12"],
         bound="data lengths 0..79, +-2 around 75/76/255/256/520/65535/65536/70000 and seeded lengths up to 70000 "
               "(thorough: every length 0..299); every 1-byte value 0..255; contents seeded, all-00 and all-ff")
def c12_push_minimal(opts):
    rng = random.Random(opts["seed"] + 2)
    thorough = opts.get("tier") == "thorough"
    from pycoin.coins.SolutionChecker import ScriptError
    st = _tools()
    ss = st.scriptStreamer
    t = KTally(rule="case = one byte string data; compile_push_data(data) (and compile_push_data_list, write_push_data) "
                    "must be the shortest push = the only form Core's CheckMinimalPush accepts; get_opcode must read "
                    "it back as (opcode, data, end, ok) without and WITH verify_minimal_data; get_opcodes must yield it")
    datas = []
    for v in range(256):
        datas.append(bytes([v]))
    for ln in _lengths(rng, thorough):
        datas.append(_data(rng, ln))
        if ln <= 300 or ln in (65535, 65536):
            datas.append(b"\x00" * ln)
            datas.append(b"\xff" * ln)
    for v in range(-20, 21):
        datas.append(ref_num_enc(v))
    seen = set()
    for data in datas:
        if data in seen:
            continue
        seen.add(data)
        want = ref_minimal_push(data)
        ok0, op0, d0, pc0 = core_get_op(want, 0)
        assert ok0 and pc0 == len(want) and (d0 == data or const_value(op0) == data)
        assert op0 > OP_PUSHDATA4 or core_check_minimal_push(data, op0)
        t.case(key=data, sample={"len": len(data), "push_header": want[:5].hex()})
        dx = _bexpr(data)
        rp = ("from pycoin.symbols.btc import network as n; d = %s; s = n.script.compile_push_data_list([d]); "
              "print(s[:6].hex(), n.script.scriptStreamer.get_opcode(s, 0, verify_minimal_data=True)[2:])" % dx)
        try:
            got = ss.compile_push_data(data)
            if got != want:
                t.violation("compile_push_data does not use the shortest push opcode", (len(data), _hx(got[:6]), _hx(want[:6])),
                            repro=rp, finding_key="push-not-shortest")
            if st.compile_push_data_list([data]) != want or st.compile_push_data_list([data, None, data]) != want + want:
                t.violation("compile_push_data_list differs from the shortest push", (len(data),), repro=rp,
                            finding_key="push-not-shortest")
        except Exception as ex:
            t.violation("compile_push_data raises %s" % type(ex).__name__, (len(data), repr(ex)), repro=rp,
                        finding_key="push-compile-raises")
            continue
        # read back, without the minimal check
        try:
            opcode, rd, pc, is_ok = ss.get_opcode(want, 0)
            if not is_ok or rd != data or pc != len(want) or opcode != want[0]:
                t.violation("get_opcode does not read the minimal push back as the same data",
                            (len(data), opcode, None if rd is None else _hx(rd), pc, is_ok), repro=rp,
                            finding_key="push-readback-wrong")
            items = list(st.get_opcodes(want + b"\x61"))
            if len(items) != 2 or items[0][0] != want[0] or items[0][1] != data or items[0][2:] != (0, len(want)) \
                    or items[1][0] != 0x61:
                t.violation("get_opcodes does not yield the minimal push followed by the next opcode", (len(data),),
                            repro=rp, finding_key="push-readback-wrong")
        except Exception as ex:
            t.violation("get_opcode raises %s on a minimal push" % type(ex).__name__, (len(data), repr(ex)), repro=rp,
                        finding_key="push-readback-raises")
        # read back with the consensus minimal-push check switched on: a minimal push must pass
        try:
            opcode, rd, pc, is_ok = ss.get_opcode(want, 0, verify_minimal_data=True)
            if not is_ok or rd != data or pc != len(want):
                t.violation("get_opcode(verify_minimal_data=True) mis-reads a minimal push", (len(data),), repro=rp,
                            finding_key="push-readback-wrong")
        except ScriptError as ex:
            t.violation("the decoder's minimal-push check rejects the shortest possible push of %d bytes (Core's "
                        "CheckMinimalPush accepts it)" % len(data), (len(data), _hx(want[:6]), repr(ex)), repro=rp,
                        finding_key="minimal-push-check-off-by-one-at-256-and-65536"
                        if len(data) in (256, 65536) else "minimal-push-check-rejects-minimal")
        except Exception as ex:
            t.violation("get_opcode(verify_minimal_data=True) raises %s" % type(ex).__name__, (len(data), repr(ex)),
                        repro=rp, finding_key="push-readback-raises")
    t.exhaustive = False
    return t.result()


@bounded("C12.decoder_vs_core", props=["C12"],
         bound="ALL scripts of length 1..2 exhaustively and seeded scripts up to 80 bytes as first instruction; for data "
               "lengths {0..3,15..17,74..77,254..257,519..521,65534..65537} x every push form (direct, PUSHDATA1/2/4, "
               "OP_n): minimal-check verdict vs CheckMinimalPush and EVERY/sampled truncation point")
def c12_decoder_vs_core(opts):
    rng = random.Random(opts["seed"] + 3)
    thorough = opts.get("tier") == "thorough"
    from pycoin.coins.SolutionChecker import ScriptError
    from pycoin.satoshi import errno
    assert errno.MINIMALDATA == MINIMALDATA
    st = _tools()
    ss = st.scriptStreamer
    t = KTally(rule="case = (script, pc=0, verify_minimal flag).  get_opcode must agree with Core's GetScriptOp on "
                    "(ok, opcode, data, next pc); a push cut short by the end of the script (missing length bytes or "
                    "missing data bytes) must be reported malformed (is_ok False / data None); with verify_minimal_data "
                    "a well-formed push must raise ScriptError(MINIMALDATA) iff CheckMinimalPush rejects it")

    def check_plain(script, label):
        ok, opcode, data, npc = core_get_op(script, 0)
        t.case(key=("plain", script), nontrivial=True,
               sample={"script": _hx(script, 40), "label": label, "core_ok": ok} if label != "exh" else None)
        rp = ("from pycoin.symbols.btc import network as n; s = %s; print(n.script.scriptStreamer.get_opcode(s, 0)[1:], "
              "n.script.disassemble(s))" % _bexpr(script))
        try:
            o2, d2, p2, ok2 = ss.get_opcode(script, 0)
        except Exception as ex:
            t.violation("get_opcode raises %s" % type(ex).__name__, (_hx(script), repr(ex)), repro=rp,
                        finding_key="decoder-raises")
            return
        if not ok:
            if ok2 or d2 is not None:
                w = {OP_PUSHDATA1: 1, OP_PUSHDATA2: 2, OP_PUSHDATA4: 4}.get(opcode)
                if w is not None and len(script) - 1 < w:
                    t.violation("PUSHDATA whose length bytes are cut off by the end of the script is decoded as an "
                                "empty push instead of being reported malformed", (_hx(script), (o2, d2, p2, ok2)),
                                repro=rp, finding_key="truncated-pushdata-length-accepted-as-empty-push")
                else:
                    t.violation("push whose data is cut off by the end of the script is not reported malformed",
                                (_hx(script), (o2, _hx(d2 or b""), p2, ok2)), repro=rp,
                                finding_key="truncated-push-data-accepted")
            else:
                # ScriptTools level: the truncated push must be visible as a push opcode without data
                items = list(st.get_opcodes(script))
                if not items or items[0][0] != opcode or items[0][1] is not None:
                    t.violation("get_opcodes hides a truncated push", _hx(script), repro=rp,
                                finding_key="truncated-push-data-accepted")
            return
        want_data = data if data is not None else const_value(opcode)
        if not ok2 and want_data is not None:
            t.violation("well-formed push reported malformed", (_hx(script), (o2, d2, p2)), repro=rp,
                        finding_key="decoder-wellformed-refused")
        elif o2 != opcode or p2 != npc or d2 != want_data:
            t.violation("get_opcode disagrees with GetScriptOp on opcode / data / next pc",
                        (_hx(script), (o2, None if d2 is None else _hx(d2), p2), (opcode, npc)), repro=rp,
                        finding_key="decoder-differs-from-core")

    def check_minimal(script, label):
        ok, opcode, data, npc = core_get_op(script, 0)
        t.case(key=("min", script), nontrivial=True, sample={"script": _hx(script, 40), "label": label})
        rp = ("from pycoin.symbols.btc import network as n; s = %s; "
              "print(n.script.scriptStreamer.get_opcode(s, 0, verify_minimal_data=True)[1:])" % _bexpr(script))
        try:
            o2, d2, p2, ok2 = ss.get_opcode(script, 0, verify_minimal_data=True)
            raised = None
        except ScriptError as ex:
            raised = ex
        except Exception as ex:
            t.violation("get_opcode(verify_minimal_data=True) raises %s" % type(ex).__name__, (_hx(script), repr(ex)),
                        repro=rp, finding_key="decoder-raises")
            return
        if not ok:
            # Core: GetOp fails => BAD_OPCODE; any refusal (malformed or ScriptError) is fine here
            if raised is None and (ok2 or d2 is not None):
                w = {OP_PUSHDATA1: 1, OP_PUSHDATA2: 2, OP_PUSHDATA4: 4}.get(opcode)
                t.violation("truncated push accepted under verify_minimal_data", _hx(script), repro=rp,
                            finding_key="truncated-pushdata-length-accepted-as-empty-push"
                            if w is not None and len(script) - 1 < w else "truncated-push-data-accepted")
            return
        if opcode > OP_PUSHDATA4:
            if raised is not None:
                t.violation("minimal check raises on a non-push / OP_n opcode", (_hx(script), repr(raised)), repro=rp,
                            finding_key="minimal-push-check-rejects-minimal")
            return
        should_pass = core_check_minimal_push(data, opcode)
        if should_pass and raised is not None:
            t.violation("the decoder's minimal-push check rejects a push that Core's CheckMinimalPush accepts "
                        "(%d bytes via opcode 0x%02x)" % (len(data), opcode), (_hx(script, 24), repr(raised)), repro=rp,
                        finding_key="minimal-push-check-off-by-one-at-256-and-65536"
                        if len(data) in (256, 65536) else "minimal-push-check-rejects-minimal")
        if not should_pass:
            if raised is None:
                t.violation("the decoder's minimal-push check accepts a push that Core's CheckMinimalPush rejects "
                            "(%d bytes via opcode 0x%02x)" % (len(data), opcode), _hx(script, 24), repro=rp,
                            finding_key="minimal-push-check-accepts-nonminimal")
            elif raised.error_code() != MINIMALDATA:
                t.violation("non-minimal push refused with an error code other than MINIMALDATA",
                            (_hx(script, 24), repr(raised)), repro=rp, finding_key="minimal-push-check-wrong-errno")

    # exhaustive short scripts
    for a in range(256):
        check_plain(bytes([a]), "exh")
        check_minimal(bytes([a]), "exh")
    for a in range(256):
        for b in range(256):
            check_plain(bytes([a, b]), "exh")
    for a in list(range(0, 0x62)) + [0xAC, 0xFF]:
        for b in range(256):
            check_minimal(bytes([a, b]), "exh")
    # seeded scripts
    for _ in range(20000 if thorough else 2500):
        ln = rng.randrange(1, 81)
        s = bytearray(rng.randrange(256) for _ in range(ln))
        r = rng.random()
        if r < 0.5:
            s[0] = rng.randrange(0, 0x4F)
        if s[0] in (OP_PUSHDATA1, OP_PUSHDATA2, OP_PUSHDATA4) and ln > 1 and rng.random() < 0.7:
            s[1] = rng.choice((0, 1, ln - 2, ln - 3 if ln > 3 else 0, ln - 5 if ln > 5 else 0, ln, 75, 76))
            for i in range(2, min(ln, {OP_PUSHDATA1: 2, OP_PUSHDATA2: 3, OP_PUSHDATA4: 5}[s[0]])):
                s[i] = 0
        check_plain(bytes(s), "seeded")
        check_minimal(bytes(s), "seeded")
    # every push form of boundary sizes: minimal verdicts and truncations
    sizes = [0, 1, 2, 3, 15, 16, 17, 74, 75, 76, 77, 254, 255, 256, 257, 519, 520, 521, 65534, 65535, 65536, 65537]
    if thorough:
        sizes += [rng.randrange(78, 254) for _ in range(5)] + [rng.randrange(258, 65534) for _ in range(5)] + [70000]
    for n in sizes:
        bodies = [_data(rng, n)] if n != 1 else [bytes([v]) for v in range(256)]
        for data in bodies:
            for opcode, frag in push_forms(data):
                check_plain(frag, "form")
                check_minimal(frag, "form")
                check_plain(frag + b"\x51", "form+next")
                if n == 1 and data[0] not in (0, 1, 16, 17, 0x80, 0x81, 0x55):
                    continue
                # truncation: every cut for small fragments, cuts around the header / end for big ones
                cuts = range(1, len(frag)) if len(frag) <= 90 else \
                    sorted(set(list(range(1, 8)) + [len(frag) // 2, len(frag) - 2, len(frag) - 1]))
                for cut in cuts:
                    ok, _, _, _ = core_get_op(frag[:cut], 0)
                    if not ok:
                        check_plain(frag[:cut], "truncated")
                        check_minimal(frag[:cut], "truncated")
    # truncated PUSHDATA headers followed by what would be read as further opcodes
    for hx in ("4c", "4d", "4d51", "4e", "4e51", "4e5151", "4e515151", "514d51", "4d0100", "4c01", "4e01000000", "4b" + "00" * 74):
        s = bytes.fromhex(hx)
        pc = 1 if hx.startswith("51") else 0
        ok, opcode, data, npc = core_get_op(s, pc)
        t.case(key=("named", s))
        if not ok:
            o2, d2, p2, ok2 = ss.get_opcode(s, pc)
            if ok2:
                w = {OP_PUSHDATA1: 1, OP_PUSHDATA2: 2, OP_PUSHDATA4: 4}.get(opcode)
                t.violation("truncated push accepted", (hx, (o2, d2, p2, ok2)),
                            repro="from pycoin.symbols.btc import network as n; print(n.script.scriptStreamer.get_opcode("
                                  "bytes.fromhex(%r), %d), n.script.disassemble(bytes.fromhex(%r)))" % (hx, pc, hx),
                            finding_key="truncated-pushdata-length-accepted-as-empty-push"
                            if w is not None and len(s) - pc - 1 < w else "truncated-push-data-accepted")
    t.exhaustive = False
    return t.result()


# ----------------------------------------------------------------------------------------------------------------
# 3. compile / disassemble
# ----------------------------------------------------------------------------------------------------------------

# the opcode alphabet of Bitcoin Core's script.h (value -> canonical name); aliases listed separately
CORE_OPCODES = {
    0x00: "OP_0", 0x4C: "OP_PUSHDATA1", 0x4D: "OP_PUSHDATA2", 0x4E: "OP_PUSHDATA4", 0x4F: "OP_1NEGATE",
    0x50: "OP_RESERVED", 0x61: "OP_NOP", 0x62: "OP_VER", 0x63: "OP_IF", 0x64: "OP_NOTIF", 0x65: "OP_VERIF",
    0x66: "OP_VERNOTIF", 0x67: "OP_ELSE", 0x68: "OP_ENDIF", 0x69: "OP_VERIFY", 0x6A: "OP_RETURN",
    0x6B: "OP_TOALTSTACK", 0x6C: "OP_FROMALTSTACK", 0x6D: "OP_2DROP", 0x6E: "OP_2DUP", 0x6F: "OP_3DUP",
    0x70: "OP_2OVER", 0x71: "OP_2ROT", 0x72: "OP_2SWAP", 0x73: "OP_IFDUP", 0x74: "OP_DEPTH", 0x75: "OP_DROP",
    0x76: "OP_DUP", 0x77: "OP_NIP", 0x78: "OP_OVER", 0x79: "OP_PICK", 0x7A: "OP_ROLL", 0x7B: "OP_ROT",
    0x7C: "OP_SWAP", 0x7D: "OP_TUCK", 0x7E: "OP_CAT", 0x7F: "OP_SUBSTR", 0x80: "OP_LEFT", 0x81: "OP_RIGHT",
    0x82: "OP_SIZE", 0x83: "OP_INVERT", 0x84: "OP_AND", 0x85: "OP_OR", 0x86: "OP_XOR", 0x87: "OP_EQUAL",
    0x88: "OP_EQUALVERIFY", 0x89: "OP_RESERVED1", 0x8A: "OP_RESERVED2", 0x8B: "OP_1ADD", 0x8C: "OP_1SUB",
    0x8D: "OP_2MUL", 0x8E: "OP_2DIV", 0x8F: "OP_NEGATE", 0x90: "OP_ABS", 0x91: "OP_NOT", 0x92: "OP_0NOTEQUAL",
    0x93: "OP_ADD", 0x94: "OP_SUB", 0x95: "OP_MUL", 0x96: "OP_DIV", 0x97: "OP_MOD", 0x98: "OP_LSHIFT",
    0x99: "OP_RSHIFT", 0x9A: "OP_BOOLAND", 0x9B: "OP_BOOLOR", 0x9C: "OP_NUMEQUAL", 0x9D: "OP_NUMEQUALVERIFY",
    0x9E: "OP_NUMNOTEQUAL", 0x9F: "OP_LESSTHAN", 0xA0: "OP_GREATERTHAN", 0xA1: "OP_LESSTHANOREQUAL",
    0xA2: "OP_GREATERTHANOREQUAL", 0xA3: "OP_MIN", 0xA4: "OP_MAX", 0xA5: "OP_WITHIN", 0xA6: "OP_RIPEMD160",
    0xA7: "OP_SHA1", 0xA8: "OP_SHA256", 0xA9: "OP_HASH160", 0xAA: "OP_HASH256", 0xAB: "OP_CODESEPARATOR",
    0xAC: "OP_CHECKSIG", 0xAD: "OP_CHECKSIGVERIFY", 0xAE: "OP_CHECKMULTISIG", 0xAF: "OP_CHECKMULTISIGVERIFY",
    0xB0: "OP_NOP1", 0xB1: "OP_CHECKLOCKTIMEVERIFY", 0xB2: "OP_CHECKSEQUENCEVERIFY", 0xB3: "OP_NOP4",
    0xB4: "OP_NOP5", 0xB5: "OP_NOP6", 0xB6: "OP_NOP7", 0xB7: "OP_NOP8", 0xB8: "OP_NOP9", 0xB9: "OP_NOP10",
    0xFF: "OP_INVALIDOPCODE",
}
for _i in range(1, 17):
    CORE_OPCODES[0x50 + _i] = "OP_%d" % _i
CORE_ALIASES = {"OP_FALSE": 0x00, "OP_TRUE": 0x51, "OP_NOP2": 0xB1, "OP_NOP3": 0xB2}


@bounded("C12.compile_disassemble", props=["C12"],
         bound="all 256 opcode values individually (push opcodes with a minimal payload); every opcode name of the "
               "table; seeded scripts of 1..40 instructions over all known opcodes and minimal pushes (lengths 0..80, "
               "255..257, 520, 65535..65536); integers |v| <= 1000 and seeded |v| < 2^63 as script text")
def c12_compile_disassemble(opts):
    rng = random.Random(opts["seed"] + 4)
    thorough = opts.get("tier") == "thorough"
    st = _tools()
    t = KTally(rule="case = one script built (independently) from known opcodes and minimal pushes; "
                    "compile(disassemble(script)) must be the script byte for byte and the instruction list read by "
                    "get_opcodes must be the one it was built from; case = one integer text: compile(str(v)) must be the "
                    "minimal push of the minimal script number")
    known = dict(st.int_to_opcode)       # value -> name as the disassembler prints it
    nonpush_known = sorted(v for v in known if v > OP_PUSHDATA4)

    def roundtrip(script, label, instrs=None):
        t.case(key=script, nontrivial=True, sample={"label": label, "script": _hx(script, 60)})
        rp = ("from pycoin.symbols.btc import network as n; s = %s; d = n.script.disassemble(s); "
              "print(d[:200], n.script.compile(d) == s)" % _bexpr(script))
        try:
            text = st.disassemble(script)
            back = st.compile(text)
        except Exception as ex:
            t.violation("compile(disassemble(script)) raises %s" % type(ex).__name__, (label, _hx(script), repr(ex)),
                        repro=rp, finding_key="compile-disassemble-raises")
            return
        if back != script:
            t.violation("compile(disassemble(script)) != script", (label, _hx(script), text[:120], _hx(back)), repro=rp,
                        finding_key="compile-disassemble-not-identity")
        if instrs is not None:
            got = [(o, d) for o, d, _, _ in st.get_opcodes(script)]
            if got != instrs:
                t.violation("get_opcodes does not return the instructions the script was built from",
                            (label, _hx(script)), repro=rp, finding_key="decoder-differs-from-core")

    # every opcode value on its own
    for op in range(256):
        if 1 <= op <= 75:
            data = bytes([0x55]) * op
            roundtrip(bytes([op]) + data, "op-%d" % op, [(op, data)])
        elif op == OP_PUSHDATA1:
            for n in (76, 255):
                data = _data(rng, n)
                roundtrip(ref_minimal_push(data), "pushdata1-%d" % n, [(op, data)])
        elif op == OP_PUSHDATA2:
            for n in (256, 257, 520, 65535):
                data = _data(rng, n)
                roundtrip(ref_minimal_push(data), "pushdata2-%d" % n, [(op, data)])
        elif op == OP_PUSHDATA4:
            for n in (65536, 70000):
                data = _data(rng, n)
                roundtrip(ref_minimal_push(data), "pushdata4-%d" % n, [(op, data)])
        elif op in CORE_OPCODES:
            if op not in known:
                t.case(key=("unknown", op))
                t.violation("opcode 0x%02x (%s) of Bitcoin's opcode alphabet has no name in the table" % (op, CORE_OPCODES[op]),
                            op, repro="from pycoin.symbols.btc import network as n; print(n.script.disassemble(bytes([%d])))" % op,
                            finding_key="opcode-table-incomplete")
                continue
            roundtrip(bytes([op]), "op-%s" % known[op], [(op, const_value(op))])
        else:
            # not an opcode of the alphabet: outside the property's quantifier ("known opcodes"); recorded only
            t.case(key=("not-an-opcode", op), nontrivial=False)
    # every name (aliases included) compiles to its value; canonical names match Core's
    for name, val in sorted(st.opcode_to_int.items()):
        t.case(key=("name", name))
        try:
            if st.compile(name) != bytes([val]) and not name.startswith("OP_PUSH"):
                t.violation("compile(name) is not the opcode byte", (name, val),
                            repro="from pycoin.symbols.btc import network as n; print(n.script.compile(%r))" % name,
                            finding_key="compile-opcode-name-wrong")
        except Exception as ex:
            if not name.startswith("OP_PUSH"):
                t.violation("compile(name) raises %s" % type(ex).__name__, (name, repr(ex)),
                            repro="from pycoin.symbols.btc import network as n; print(n.script.compile(%r))" % name,
                            finding_key="compile-opcode-name-wrong")
    for val, name in sorted(CORE_OPCODES.items()):
        t.case(key=("core-name", name))
        if st.opcode_to_int.get(name) != val:
            t.violation("opcode table gives the wrong value for a Bitcoin opcode name", (name, val, st.opcode_to_int.get(name)),
                        repro="from pycoin.symbols.btc import network as n; print(n.script.int_for_opcode(%r))" % name,
                        finding_key="opcode-table-wrong-value")
    for name, val in CORE_ALIASES.items():
        if name in st.opcode_to_int:
            t.case(key=("alias", name))
            if st.opcode_to_int[name] != val or st.compile(name) != bytes([val]):
                t.violation("alias compiles to the wrong opcode", (name, val), finding_key="opcode-table-wrong-value")
    # seeded scripts
    len_choices = list(range(0, 81)) + [255, 256, 257, 520]
    for i in range(4000 if thorough else 500):
        n_ins = rng.randrange(1, 41)
        parts, instrs = [], []
        big_used = False
        for _ in range(n_ins):
            r = rng.random()
            if r < 0.45:
                op = rng.choice(nonpush_known)
                parts.append(bytes([op]))
                instrs.append((op, const_value(op)))
            else:
                if r > 0.98 and not big_used:
                    ln = rng.choice((65535, 65536, 66000))
                    big_used = True
                else:
                    ln = rng.choice(len_choices) if rng.random() < 0.6 else rng.randrange(0, 6)
                data = _data(rng, ln)
                if ln == 1 and rng.random() < 0.5:
                    data = bytes([rng.choice((0, 1, 5, 16, 17, 0x7F, 0x80, 0x81, 0x82, 0xFF))])
                frag = ref_minimal_push(data)
                parts.append(frag)
                instrs.append((frag[0], data))
        roundtrip(b"".join(parts), "seeded", instrs)
    # integers as script text
    ints = list(range(-1000, 1001)) + [rng.choice((1, -1)) * rng.randrange(1, 1 << rng.randrange(1, 64))
                                       for _ in range(3000 if thorough else 400)]
    ints += [2 ** 31 - 1, 2 ** 31, -2 ** 31, 2 ** 32, 2 ** 63 - 1, -(2 ** 63 - 1), 127, 128, -127, -128, 255, 256, 32767, 32768]
    for v in ints:
        t.case(key=("int", v))
        want = ref_minimal_push(ref_num_enc(v))
        rp = "from pycoin.symbols.btc import network as n; print(n.script.compile(%r).hex())" % str(v)
        try:
            got = st.compile(str(v))
            if got != want:
                t.violation("compile(str(v)) is not the minimal push of the minimal script number", (v, got.hex(), want.hex()),
                            repro=rp, finding_key="compile-integer-text-wrong")
            elif st.compile(st.disassemble(got)) != got:
                t.violation("compile(disassemble(compile(str(v)))) differs", v, repro=rp,
                            finding_key="compile-disassemble-not-identity")
        except Exception as ex:
            t.violation("compile(str(v)) raises %s" % type(ex).__name__, (v, repr(ex)), repro=rp,
                        finding_key="compile-integer-text-wrong")
    t.exhaustive = False
    return t.result()
