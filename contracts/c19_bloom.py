"""C19: a Bloom filter sets exactly the bit positions BIP37 prescribes.

BIP37: for nHashNum in [0, nHashFuncs): bit = MurmurHash3(nHashNum * 0xFBA4C795 + nTweak, data) mod (8 * size), and
vData[bit >> 3] |= 1 << (bit & 7).  `set_bit` / `check_bit` are stated against the byte-string view of the filter
(`bf_set`: that one bit of that one byte is set, every other byte is unchanged); `add_item` is the fold of `bf_set`
over the hash functions (`bf_add`), with `murmur3` used through its contract (c19_murmur)."""
from pyvc.api import *
from spec.core import *
from spec.murmur import *
from pycoin.bloomfilter import BloomFilter


def _mk_bf(vals):
    o = BloomFilter.__new__(BloomFilter)
    o.filter_bytes = vals['filter_bytes']
    o.bit_count = 8 * len(o.filter_bytes)
    o.hash_function_count = vals['hash_function_count']
    o.tweak = vals['tweak']
    return o


BF = Obj(BloomFilter, dict(filter_bytes=ByteArray(minlen=1, maxlen=36000, sample_max=5), bit_count=Int(8, 288000),
                           hash_function_count=Int(0, None, interesting=[0, 1, 3], sample_hi=60), tweak=Int(0)), make=_mk_bf)


def bf_wf(self):
    """object invariant established by __init__ and kept by every method"""
    return self.bit_count == 8 * len(self.filter_bytes) and len(self.filter_bytes) >= 1


@spec
def bitmask(j):
    """1 << j for the bit numbers of a byte"""
    return 1 if j == 0 else 2 if j == 1 else 4 if j == 2 else 8 if j == 3 else 16 if j == 4 else 32 if j == 5 else 64 if j == 6 else 128


@spec
def bit_is_set(x, j):
    """bit j (0 = least significant) of the byte x"""
    return ((x % 2 == 1) if j == 0 else ((x // 2) % 2 == 1) if j == 1 else ((x // 4) % 2 == 1) if j == 2 else ((x // 8) % 2 == 1) if j == 3
            else ((x // 16) % 2 == 1) if j == 4 else ((x // 32) % 2 == 1) if j == 5 else ((x // 64) % 2 == 1) if j == 6 else ((x // 128) % 2 == 1))


@spec
def byte_with_bit(x, j):
    return x if bit_is_set(x, j) else x + bitmask(j)


@spec
def bf_set(b, p):
    """the filter bytes b with bit p (byte p div 8, bit p mod 8, least significant first) set"""
    i = p // 8
    x = b[i]
    return b[:i] + bytes([byte_with_bit(x, p % 8)]) + b[i + 1:]


@spec
def bip37_bit(item, i, tweak, nbits):
    """BIP37: the bit position chosen by hash function i"""
    return murmur3_32(item, i * 0xFBA4C795 + tweak) % nbits


@spec(rec=True, args=['bytes', 'bytes', 'int', 'int'], ret='bytes', post=lambda b, item, k, tweak, result: len(result) == len(b))
def bf_add(b, item, k, tweak):
    """the filter after hash functions 0 .. k-1 have set their bits"""
    if k <= 0:
        return b
    return bf_set(bf_add(b, item, k - 1, tweak), bip37_bit(item, k - 1, tweak, 8 * len(b)))


@contract("pycoin.bloomfilter:BloomFilter._index_for_bit")
class index_for_bit:
    props = ["C19"]
    sig = dict(self=BF, v=Int(0))
    returns = Tup(Int(), Int())
    inline = True        # callers see the body: the mask is then one of eight literals and `|` / `&` with it is arithmetic

    def requires(self, v):
        return bf_wf(self) and v >= 0

    def ensures_position(self, v, result):
        p = v % self.bit_count
        return (result[0] == p // 8, result[1] == bitmask(p % 8), result[0] >= 0, result[0] < len(self.filter_bytes))

    canaries = [("divmod(v, 8)", "divmod(v, 4)")]


@contract("pycoin.bloomfilter:BloomFilter.set_bit")
class set_bit:
    props = ["C19"]
    sig = dict(self=BF, v=Int(0))
    returns = Const(None)
    assigns = ["self.filter_bytes"]

    def requires(self, v):
        return bf_wf(self) and v >= 0

    def ensures_exactly_that_bit(self, v, result):
        return bytes(self.filter_bytes) == bf_set(old(bytes(self.filter_bytes)), v % self.bit_count)

    canaries = [("self.filter_bytes[byte_index] |= mask", "self.filter_bytes[byte_index] = mask")]


@contract("pycoin.bloomfilter:BloomFilter.check_bit")
class check_bit:
    props = ["C19"]
    sig = dict(self=BF, v=Int(0))
    returns = Bool()

    def requires(self, v):
        return bf_wf(self) and v >= 0

    def ensures_reads_that_bit(self, v, result):
        p = v % self.bit_count
        return result == bit_is_set(bytes(self.filter_bytes)[p // 8], p % 8)

    canaries = [("== mask", "!= 0 or True")]


@contract("pycoin.bloomfilter:BloomFilter.add_item")
class add_item:
    """every hash function sets its BIP37 bit, in order, and nothing else changes"""
    props = ["C19"]
    sig = dict(self=BF, item_bytes=Bytes(sample_max=12))
    returns = Const(None)
    assigns = ["self.filter_bytes"]

    def requires(self, item_bytes):
        return bf_wf(self) and self.tweak >= 0 and self.hash_function_count >= 0 and len(item_bytes) < 4294967296

    def ensures_bip37_bits(self, item_bytes, result):
        return bytes(self.filter_bytes) == bf_add(old(bytes(self.filter_bytes)), item_bytes, self.hash_function_count, self.tweak)

    canaries = [("hash_index * 4221880213 + self.tweak", "hash_index * 4221880212 + self.tweak"),
                ("% self.bit_count", "% (self.bit_count - 1)")]


@invariant("pycoin.bloomfilter:BloomFilter.add_item", 0, modifies=["self.filter_bytes"])
def _add_inv(self, item_bytes, _i):
    murmur3_seed32(item_bytes, _i * 0xFBA4C795 + self.tweak)     # code that truncates the seed to 32 bits first (as BIP37 does) is the same
    return (bytes(self.filter_bytes) == bf_add(old(bytes(self.filter_bytes)), item_bytes, _i, self.tweak),
            len(self.filter_bytes) == len(old(bytes(self.filter_bytes))))


# ---------------------------------------------------------------- what the fold means bit by bit
@spec
def bit_at(b, q):
    """bit q of the filter bytes b"""
    return bit_is_set(b[q // 8], q % 8)


@spec(rec=True, args=['bytes', 'int', 'int', 'int', 'int'], ret='bool')
def bip37_hit(item, k, tweak, nbits, q):
    """q is the position chosen by one of the hash functions 0 .. k-1"""
    if k <= 0:
        return False
    return q == bip37_bit(item, k - 1, tweak, nbits) or bip37_hit(item, k - 1, tweak, nbits, q)


@lemma(sig=dict(x=Int(0, 255), j=Int(0, 7), i=Int(0, 7)), props=["C19"])
def byte_set_bit(x, j, i):
    """within one byte: setting bit j sets it, keeps the others, and stays a byte"""
    return implies(0 <= x and x < 256 and 0 <= j and j < 8 and 0 <= i and i < 8,
                   bit_is_set(byte_with_bit(x, j), i) == (bit_is_set(x, i) or i == j) and 0 <= byte_with_bit(x, j) and byte_with_bit(x, j) < 256)


@lemma(sig=dict(b=Bytes(minlen=1), p=Int(0), q=Int(0)), props=["C19"])
def set_one_bit(b, p, q):
    """bf_set sets bit p and leaves every other bit as it was"""
    if 0 <= p and p < 8 * len(b):
        byte_set_bit(b[p // 8], p % 8, q % 8)
    return implies(0 <= p and p < 8 * len(b) and 0 <= q and q < 8 * len(b), bit_at(bf_set(b, p), q) == (bit_at(b, q) or p == q))


@lemma(sig=dict(b=Bytes(minlen=1), item=Bytes(), k=Int(0), tweak=Int(0), q=Int(0)), induct=lambda b, item, k, tweak, q: k, props=["C19"])
def added_bits_exactly(b, item, k, tweak, q):
    """after add_item a bit is set exactly when it was set before or is one of the k BIP37 positions of the item:
    every prescribed bit is set (so a peer testing the same positions always matches) and no other bit changes"""
    if k > 0:
        added_bits_exactly(b, item, k - 1, tweak, q)
        set_one_bit(bf_add(b, item, k - 1, tweak), bip37_bit(item, k - 1, tweak, 8 * len(b)), q)
    return implies(len(b) >= 1 and 0 <= q and q < 8 * len(b),
                   bit_at(bf_add(b, item, k, tweak), q) == (bit_at(b, q) or bip37_hit(item, k, tweak, 8 * len(b), q)))


# ---------------------------------------------------------------- the other ways of adding an element
@contract("pycoin.bloomfilter:BloomFilter.add_hash160")
class add_hash160:
    props = ["C19"]
    sig = dict(self=BF, the_hash160=Bytes(n=20))
    returns = Const(None)
    assigns = ["self.filter_bytes"]

    def requires(self, the_hash160):
        return bf_wf(self) and self.tweak >= 0 and self.hash_function_count >= 0

    def ensures_bip37_bits(self, the_hash160, result):
        return bytes(self.filter_bytes) == bf_add(old(bytes(self.filter_bytes)), the_hash160, self.hash_function_count, self.tweak)


class _Outpoint(object):
    """what add_spendable reads of a spendable"""

    def __init__(self, tx_hash, tx_out_index):
        self.tx_hash, self.tx_out_index = tx_hash, tx_out_index


OUTPOINT = Obj(_Outpoint, dict(tx_hash=Bytes(n=32), tx_out_index=Int(0, 2 ** 32 - 1)), make=lambda v: _Outpoint(v['tx_hash'], v['tx_out_index']))


@contract("pycoin.bloomfilter:BloomFilter.add_spendable")
class add_spendable:
    """BIP37 matches outpoints in their wire form: 32-byte hash, then the index as 4 little-endian bytes"""
    props = ["C19"]
    sig = dict(self=BF, spendable=OUTPOINT)
    returns = Const(None)
    assigns = ["self.filter_bytes"]

    def requires(self, spendable):
        return bf_wf(self) and self.tweak >= 0 and self.hash_function_count >= 0

    def ensures_bip37_bits(self, spendable, result):
        return bytes(self.filter_bytes) == bf_add(old(bytes(self.filter_bytes)), spendable.tx_hash + le(spendable.tx_out_index, 4),
                                                  self.hash_function_count, self.tweak)

    canaries = [("struct.pack('<L', spendable.tx_out_index)", "struct.pack('>L', spendable.tx_out_index)")]
