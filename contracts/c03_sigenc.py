"""C03: the signature / public-key / hash-type encoding rules of the CHECKSIG family (pycoin/satoshi/checksigops.py) against
the transcription of Core's IsValidSignatureEncoding, IsDefinedHashtypeSignature, IsLowDERSignature's comparison and
IsCompressedOrUncompressedPubKey in spec/consensus_script.py (itself validated on Core's script vectors)."""
from pyvc.api import *
from spec.core import *
import spec.consensus_script as cs
from spec.group import AbsGenerator
from pycoin.coins.SolutionChecker import ScriptError

T = "pycoin.satoshi.checksigops:"
SIG = Bytes(sample_max=75, interesting=[b"", bytes(8), bytes.fromhex("3006020101020101") + b"\x01", bytes.fromhex("300602010102010181")])


@contract(T + "check_valid_signature")
class check_valid_signature:
    """BIP66 strict DER shape (with the hash-type byte): refused exactly when IsValidSignatureEncoding says no"""
    props = ["C03"]
    sig = dict(sig=SIG)

    def _invalid(sig):
        return not cs.is_valid_signature_encoding(sig)

    raises = [(ScriptError, _invalid, True)]
    canaries = [(T + "_check_valid_signature_1", "ls < 9 or ls > 73", "ls < 9 or ls > 74"), (T + "_check_valid_signature_2", "if sig[4] & 128:", "if sig[4] & 64:")]


@contract(T + "check_defined_hashtype_signature")
class check_defined_hashtype_signature:
    props = ["C03"]
    sig = dict(sig=SIG)

    def _undefined(sig):
        return not cs.is_defined_hashtype_signature(sig)

    raises = [(ScriptError, _undefined, True)]
    canaries = [("hash_type > SIGHASH_SINGLE", "hash_type >= SIGHASH_SINGLE")]


@contract(T + "check_public_key_encoding")
class check_public_key_encoding:
    props = ["C03"]
    sig = dict(blob=Bytes(sample_max=66, interesting=[b"", b"\x02" + bytes(32), b"\x04" + bytes(64), b"\x06" + bytes(64), b"\x02" + bytes(64)]))

    def _bad(blob):
        return not cs.is_compressed_or_uncompressed_pubkey(blob)

    raises = [(ScriptError, _bad, True)]
    canaries = [("fb in (2, 3)", "fb in (2, 3, 6)")]


@contract(T + "check_low_der_signature")
class check_low_der_signature:
    """LOW_S: refused exactly when s exceeds half the group order"""
    props = ["C03"]
    sig = dict(sig_pair=Tup(Int(0), Int(0)), generator=AbsGenerator())

    def _high(sig_pair, generator):
        return sig_pair[1] > generator._order // 2

    raises = [(ScriptError, _high, True)]


# ---------------------------------------------------------------- which scripts are P2SH / witness programs
from pycoin.coins.bitcoin.P2SChecker import P2SChecker
from pycoin.coins.bitcoin.SegwitChecker import SegwitChecker
from pycoin.coins.bitcoin.SolutionChecker import BitcoinSolutionChecker

SCRIPT = Bytes(sample_max=44, interesting=[b"", bytes.fromhex("a914") + bytes(20) + b"\x87", bytes.fromhex("0014") + bytes(20), bytes.fromhex("0020") + bytes(32),
                                          bytes.fromhex("5128") + bytes(40), bytes.fromhex("a94c14") + bytes(20) + b"\x87"])


@contract("pycoin.coins.bitcoin.P2SChecker:P2SChecker.is_pay_to_script_hash")
class is_pay_to_script_hash:
    """CScript::IsPayToScriptHash: exactly OP_HASH160 <direct push of 20 bytes> OP_EQUAL"""
    props = ["C03"]
    sig = dict(class_=Const(BitcoinSolutionChecker), script_public_key=SCRIPT)
    returns = Bool()

    def ensures_core(class_, script_public_key, result):
        return result == cs.is_pay_to_script_hash(script_public_key)

    canaries = [("script_public_key[1] == 20", "script_public_key[1] >= 20")]


def _mk_checker(v):
    return BitcoinSolutionChecker(None)


CHECKER0 = Obj(BitcoinSolutionChecker, dict(tx=Const(None)), make=_mk_checker, shared=True)


@contract("pycoin.coins.bitcoin.SegwitChecker:SegwitChecker._witness_program_version")
class witness_program_version:
    """CScript::IsWitnessProgram: a version opcode (OP_0, OP_1..OP_16) followed by one direct push of 2..40 bytes and nothing else"""
    props = ["C03"]
    sig = dict(self=CHECKER0, script=SCRIPT)
    returns = Opt(Int())

    def ensures_core(self, script, result):
        n = len(script)
        is_prog = 4 <= n and n <= 42 and (script[0] == 0 or (81 <= script[0] and script[0] <= 96)) and script[1] + 2 == n
        if result is None:
            return not is_prog
        return (is_prog, result == (0 if script[0] == 0 else script[0] - 80))

    canaries = [("size < 4 or size > 42", "size < 4 or size > 43")]


# ---------------------------------------------------------------- the two witness-v0 program kinds (BIP141)
from spec.sighash import sha256
import contracts.c12_push  # noqa: F401


@contract("pycoin.coins.bitcoin.SegwitChecker:SegwitChecker._check_witness_program_v0")
class check_witness_program_v0:
    """P2WSH (32-byte program): the last witness item is the script, its SHA-256 must be the program, the rest is the stack;
    P2WPKH (20-byte program): exactly two witness items, the script is DUP HASH160 <program> EQUALVERIFY CHECKSIG;
    any other program length is refused (VerifyWitnessProgram for version 0)"""
    props = ["C03"]
    sig = dict(self=CHECKER0, witness_solution_stack=SeqOf(Bytes(sample_max=6), sample_max=3), witness_program=Bytes(sample_max=34, interesting=[bytes(20), bytes(32)]))
    returns = Tup(ListOf(Bytes()), Bytes())

    def _refused(self, witness_solution_stack, witness_program):
        w = witness_solution_stack
        if len(witness_program) == 32:
            return len(w) == 0 or sha256(w[len(w) - 1]) != witness_program
        if len(witness_program) == 20:
            return len(w) != 2
        return True

    def ensures_program(self, witness_solution_stack, witness_program, result):
        w = witness_solution_stack
        if len(witness_program) == 32:
            return (listval(result[0]) == w[:len(w) - 1], result[1] == w[len(w) - 1])
        return (listval(result[0]) == w, result[1] == b"\x76\xa9\x14" + witness_program + b"\x88\xac")

    raises = [(ScriptError, _refused, True)]
    canaries = [("if len(witness_solution_stack) != 2:", "if len(witness_solution_stack) < 2:")]


# ---------------------------------------------------------------- truthiness and numeric operand helpers of the VM
from contracts.c03_handlers import VM as VMB, cast_to_bool, num_ok, minimal_flag
from spec.scriptnum import scriptnum_enc, scriptnum_dec, is_minimal_num
from pycoin.coins.bitcoin.VM import BitcoinVM


@contract("pycoin.coins.bitcoin.VM:BitcoinVM.bool_from_script_bytes")
class bool_from_script_bytes:
    """Core's CastToBool: false exactly for strings of zero bytes with an optional 0x80 in the last position (any length)"""
    props = ["C03"]
    inline = True          # handlers keep using the body
    sig = dict(class_=Const(BitcoinVM), v=Bytes(sample_max=6, interesting=[b"", b"\x00", b"\x80", b"\x00\x80", b"\x01", b"\x00\x00\x00\x00\x00\x01"]), require_minimal=Const(False))
    returns = Bool()

    def ensures_cast(class_, v, require_minimal, result):
        return result == cast_to_bool(v)


@contract("pycoin.coins.bitcoin.VM:BitcoinVM.bool_to_script_bytes")
class bool_to_script_bytes:
    props = ["C03"]
    inline = True
    sig = dict(class_=Const(BitcoinVM), v=Bool())
    returns = Bytes()

    def ensures_canonical(class_, v, result):
        return result == (b"\x01" if v else b"")


@contract("pycoin.coins.bitcoin.VM:BitcoinVM.pop_int")
class pop_int:
    """numeric operand: the top item decoded as a script number, refused when MINIMALDATA is set and the item is not minimal (the
    4-byte limit is applied by the callers: pop_check_bounds / pop_nonnegative)"""
    props = ["C03"]
    inline = True
    sig = dict(self=VMB)
    returns = Int()
    assigns = ["self.stack"]

    def _fails(self):
        s = listval(self.stack)
        return len(s) == 0 or (minimal_flag(self) and not is_minimal_num(s[len(s) - 1]))

    def ensures_value(self, result):
        s = old(listval(self.stack))
        return (result == scriptnum_dec(s[len(s) - 1]), listval(self.stack) == s[:len(s) - 1])

    raises = [(ScriptError, _fails, True)]


@contract("pycoin.coins.bitcoin.VM:BitcoinVM.push_int")
class push_int:
    props = ["C03"]
    inline = True
    sig = dict(self=VMB, v=Int())
    assigns = ["self.stack"]

    def ensures_pushed(self, v, result):
        return listval(self.stack) == old(listval(self.stack)) + (scriptnum_enc(v),)


@contract("pycoin.satoshi.intops:pop_check_bounds")
class pop_check_bounds:
    """a numeric operand of an arithmetic opcode: at most 4 bytes, minimal under MINIMALDATA (CScriptNum with nMaxNumSize 4)"""
    props = ["C03"]
    inline = True
    sig = dict(vm=VMB)
    returns = Int()
    assigns = ["vm.stack"]

    def _fails(vm):
        s = listval(vm.stack)
        return len(s) == 0 or not num_ok(vm, s[len(s) - 1])

    def ensures_value(vm, result):
        s = old(listval(vm.stack))
        return (result == scriptnum_dec(s[len(s) - 1]), listval(vm.stack) == s[:len(s) - 1])

    raises = [(ScriptError, _fails, True)]
    canaries = [("len(vm[-1]) > 4", "len(vm[-1]) > 5")]


@contract("pycoin.coins.bitcoin.VM:BitcoinVM.pop_nonnegative")
class pop_nonnegative:
    """a count / depth operand (PICK, ROLL, CHECKMULTISIG): as above and not negative"""
    props = ["C03"]
    inline = True
    sig = dict(self=VMB)
    returns = Int()
    assigns = ["self.stack"]

    def _fails(self):
        s = listval(self.stack)
        return len(s) == 0 or not num_ok(self, s[len(s) - 1]) or scriptnum_dec(s[len(s) - 1]) < 0

    def ensures_value(self, result):
        s = old(listval(self.stack))
        return (result == scriptnum_dec(s[len(s) - 1]), result >= 0, listval(self.stack) == s[:len(s) - 1])

    raises = [(ScriptError, _fails, True)]
