"""C09 Tier B (bounded stand-in): hierarchical key derivation follows BIP32 and commutes with going public.

Oracle: BIP32 (CKDpriv / CKDpub / serialization), implemented here independently: own secp256k1 arithmetic (Jacobian
ladder), own HMAC-SHA512 chaining, ser32/ser256/serP, hash160 fingerprints, own base58check.  The two official BIP32
test vectors (strings as published) are replayed against BOTH the reference and pycoin, so the reference itself is
anchored to the standard.  Electrum (old-style) derivation: own stretch + sha256d offset arithmetic.

Configuration: every pycoin network uses the secp256k1 generator, here OpenSSL-accelerated (libsecp256k1 not loadable in
this sandbox).  The GRS/GRSRT/TGRS networks need the absent `groestlcoin_hash` module for their base58 checksum and are
skipped in the text round-trip (stated in the result).
"""
import hashlib
import hmac
import itertools
import random
import struct

from pyvc.bounded import bounded, Tally

REPO_HDR = "import sys; sys.path[:0]=['/repo']; "

# ------------------------------------------------------------------------------------- own secp256k1 / encodings
P = 2 ** 256 - 2 ** 32 - 977
N = 0xFFFFFFFFFFFFFFFFFFFFFFFFFFFFFFFEBAAEDCE6AF48A03BBFD25E8CD0364141
GX = 0x79BE667EF9DCBBAC55A06295CE870B07029BFCDB2DCE28D959F2815B16F81798
GY = 0x483ADA7726A3C4655DA4FBFC0E1108A8FD17B448A68554199C47D08FFB10D4B8


def pt_add(A, B):
    if A is None:
        return B
    if B is None:
        return A
    x1, y1 = A
    x2, y2 = B
    if x1 == x2:
        if (y1 + y2) % P == 0:
            return None
        lam = 3 * x1 * x1 * pow(2 * y1, -1, P) % P
    else:
        lam = (y2 - y1) * pow(x2 - x1, -1, P) % P
    x3 = (lam * lam - x1 - x2) % P
    return (x3, (lam * (x1 - x3) - y1) % P)


def pt_mul(A, k):
    """Jacobian double-and-add (a = 0), mixed addition, one inversion at the end"""
    k %= N
    if A is None or k == 0:
        return None
    px, py = A
    X, Y, Z = 0, 1, 0
    for bit in bin(k)[2:]:
        if Z:
            YY = Y * Y % P
            S = 4 * X * YY % P
            M = 3 * X * X % P
            X2 = (M * M - 2 * S) % P
            Z = 2 * Y * Z % P
            Y = (M * (S - X2) - 8 * YY * YY) % P
            X = X2
        if bit == "1":
            if not Z:
                X, Y, Z = px, py, 1
            else:
                ZZ = Z * Z % P
                H = (px * ZZ - X) % P
                R = (py * ZZ * Z - Y) % P
                if H == 0:
                    aff = _aff(X, Y, Z)
                    d = pt_add(aff, A)
                    X, Y, Z = (0, 1, 0) if d is None else (d[0], d[1], 1)
                    continue
                HH = H * H % P
                HHH = H * HH % P
                V_ = X * HH % P
                X3 = (R * R - HHH - 2 * V_) % P
                Y = (R * (V_ - X3) - Y * HHH) % P
                Z = Z * H % P
                X = X3
    return _aff(X, Y, Z)


def _aff(X, Y, Z):
    if not Z:
        return None
    zi = pow(Z, -1, P)
    return (X * zi * zi % P, Y * zi * zi * zi % P)


G = (GX, GY)
assert pt_mul(G, N - 1) == (GX, P - GY) and pt_mul(G, N) is None and pt_mul(G, 2) == pt_add(G, G)
assert pt_mul(G, 3) == pt_add(pt_add(G, G), G)


def ser_p(K):
    return bytes([2 + (K[1] & 1)]) + K[0].to_bytes(32, "big")


def sha256(b):
    return hashlib.sha256(b).digest()


def hash160(b):
    return hashlib.new("ripemd160", sha256(b)).digest()


B58 = "123456789ABCDEFGHJKLMNPQRSTUVWXYZabcdefghijkmnopqrstuvwxyz"


def b58enc(b):
    v = int.from_bytes(b, "big")
    s = ""
    while v:
        v, r = divmod(v, 58)
        s = B58[r] + s
    return "1" * (len(b) - len(b.lstrip(b"\0"))) + s


def b58check(b):
    return b58enc(b + sha256(sha256(b))[:4])


def b58check_decode(s):
    v = 0
    for ch in s:
        v = v * 58 + B58.index(ch)
    raw = v.to_bytes((v.bit_length() + 7) // 8, "big")
    raw = b"\0" * (len(s) - len(s.lstrip("1"))) + raw
    assert sha256(sha256(raw[:-4]))[:4] == raw[-4:]
    return raw[:-4]


HARD = 0x80000000


class RefNode(object):
    """BIP32 extended key (k may be None for a public-only node)"""

    def __init__(self, k, K, c, depth, pfp, index):
        self.k, self.K, self.c, self.depth, self.pfp, self.index = k, K, c, depth, pfp, index

    @classmethod
    def master(cls, seed):
        I = hmac.new(b"Bitcoin seed", seed, hashlib.sha512).digest()
        k = int.from_bytes(I[:32], "big")
        assert 0 < k < N
        return cls(k, pt_mul(G, k), I[32:], 0, b"\0\0\0\0", 0)

    def fingerprint(self):
        return hash160(ser_p(self.K))[:4]

    def public(self):
        return RefNode(None, self.K, self.c, self.depth, self.pfp, self.index)

    def ckd_priv(self, i):
        assert self.k is not None and 0 <= i < 2 ** 32
        if i >= HARD:
            data = b"\0" + self.k.to_bytes(32, "big") + struct.pack(">I", i)
        else:
            data = ser_p(self.K) + struct.pack(">I", i)
        I = hmac.new(self.c, data, hashlib.sha512).digest()
        il = int.from_bytes(I[:32], "big")
        k = (il + self.k) % N
        assert il < N and k != 0   # else BIP32 says: invalid, proceed with next i (probability < 2^-127)
        return RefNode(k, pt_mul(G, k), I[32:], self.depth + 1, self.fingerprint(), i)

    def ckd_pub(self, i):
        assert 0 <= i < HARD
        I = hmac.new(self.c, ser_p(self.K) + struct.pack(">I", i), hashlib.sha512).digest()
        il = int.from_bytes(I[:32], "big")
        K = pt_add(pt_mul(G, il), self.K)
        assert il < N and K is not None
        return RefNode(None, K, I[32:], self.depth + 1, self.fingerprint(), i)

    def child(self, i):
        return self.ckd_priv(i) if self.k is not None else self.ckd_pub(i)

    def payload(self, private):
        keydata = (b"\0" + self.k.to_bytes(32, "big")) if private else ser_p(self.K)
        return bytes([self.depth]) + self.pfp + struct.pack(">I", self.index) + self.c + keydata

    def text(self, version, private):
        return b58check(version + self.payload(private))


def compare(node, ref, prv_prefix=None, pub_prefix=None):
    """list of fields of a pycoin BIP32 node that differ from the reference node"""
    bad = []

    def chk(name, got, exp):
        if got != exp:
            bad.append("%s: got %r expected %r" % (name, got, exp))
    try:
        chk("secret_exponent", node.secret_exponent(), ref.k)
        chk("is_private", node.is_private(), ref.k is not None)
        pp = node.public_pair()
        chk("public_pair", (pp[0], pp[1]), ref.K)
        chk("chain_code", node.chain_code(), ref.c)
        chk("tree_depth", node.tree_depth(), ref.depth)
        chk("parent_fingerprint", node.parent_fingerprint(), ref.pfp)
        chk("child_index", node.child_index(), ref.index)
        chk("fingerprint", node.fingerprint(), ref.fingerprint())
        chk("serialize(pub)", node.serialize(as_private=False), ref.payload(False))
        if ref.k is not None:
            chk("serialize(prv)", node.serialize(as_private=True), ref.payload(True))
            chk("serialize()", node.serialize(), ref.payload(True))
        else:
            chk("serialize()", node.serialize(), ref.payload(False))
        if pub_prefix is not None:
            chk("hwif(pub)", node.hwif(as_private=False), ref.text(pub_prefix, False))
            chk("hwif()", node.hwif(), ref.text(pub_prefix, False))
        if prv_prefix is not None and ref.k is not None:
            chk("hwif(prv)", node.hwif(as_private=True), ref.text(prv_prefix, True))
    except Exception as e:  # noqa
        bad.append("accessor raises %s: %s" % (type(e).__name__, e))
    return bad


XPRV, XPUB = bytes.fromhex("0488ade4"), bytes.fromhex("0488b21e")


def btc():
    from pycoin.symbols.btc import network
    return network


def parse_el(el):
    """path element '5', '5H', \"5'\", '5p' -> full 32-bit index"""
    if el[-1] in "'pH":
        return int(el[:-1]) + HARD
    return int(el)


def ref_path(ref, elements):
    for el in elements:
        ref = ref.child(parse_el(el) if isinstance(el, str) else el)
    return ref


def el_str(i, mark="H"):
    return "%d%s" % (i - HARD, mark) if i >= HARD else "%d" % i


class V(object):
    def __init__(self, t):
        self.t = t
        self.count = {}

    def __call__(self, key, what, inputs, repro):
        c = self.count.get(key, 0)
        self.count[key] = c + 1
        if c < 2:
            self.t.violation(what=what, inputs=inputs, repro=repro, finding_key=key)


BOUNDARY_IDX = [0, 1, 2, 255, 256, 65535, 65536, 2 ** 24 - 1, 2 ** 24, 2 ** 31 - 2, 2 ** 31 - 1]


def rand_index(rng):
    r = rng.random()
    if r < 0.55:
        i = rng.choice(BOUNDARY_IDX)
    elif r < 0.8:
        i = rng.randrange(0, 2 ** 31)
    else:
        i = rng.randrange(0, 50)
    return i + (HARD if rng.random() < 0.45 else 0)


def rand_seed(rng):
    ln = rng.choice([16, 16, 32, 32, 64, 1, 17, 100])
    return bytes(rng.getrandbits(8) for _ in range(ln))


# official BIP32 test vectors 1 and 2 (strings as published in the BIP; pub, prv)
VECTORS = [
    ("000102030405060708090a0b0c0d0e0f", [
        ("", "xpub661MyMwAqRbcFtXgS5sYJABqqG9YLmC4Q1Rdap9gSE8NqtwybGhePY2gZ29ESFjqJoCu1Rupje8YtGqsefD265TMg7usUDFdp6W1EGMcet8",
         "xprv9s21ZrQH143K3QTDL4LXw2F7HEK3wJUD2nW2nRk4stbPy6cq3jPPqjiChkVvvNKmPGJxWUtg6LnF5kejMRNNU3TGtRBeJgk33yuGBxrMPHi"),
        ("0H", "xpub68Gmy5EdvgibQVfPdqkBBCHxA5htiqg55crXYuXoQRKfDBFA1WEjWgP6LHhwBZeNK1VTsfTFUHCdrfp1bgwQ9xv5ski8PX9rL2dZXvgGDnw",
         "xprv9uHRZZhk6KAJC1avXpDAp4MDc3sQKNxDiPvvkX8Br5ngLNv1TxvUxt4cV1rGL5hj6KCesnDYUhd7oWgT11eZG7XnxHrnYeSvkzY7d2bhkJ7"),
        ("0H/1", "xpub6ASuArnXKPbfEwhqN6e3mwBcDTgzisQN1wXN9BJcM47sSikHjJf3UFHKkNAWbWMiGj7Wf5uMash7SyYq527Hqck2AxYysAA7xmALppuCkwQ",
         "xprv9wTYmMFdV23N2TdNG573QoEsfRrWKQgWeibmLntzniatZvR9BmLnvSxqu53Kw1UmYPxLgboyZQaXwTCg8MSY3H2EU4pWcQDnRnrVA1xe8fs"),
        ("0H/1/2H", "xpub6D4BDPcP2GT577Vvch3R8wDkScZWzQzMMUm3PWbmWvVJrZwQY4VUNgqFJPMM3No2dFDFGTsxxpG5uJh7n7epu4trkrX7x7DogT5Uv6fcLW5",
         "xprv9z4pot5VBttmtdRTWfWQmoH1taj2axGVzFqSb8C9xaxKymcFzXBDptWmT7FwuEzG3ryjH4ktypQSAewRiNMjANTtpgP4mLTj34bhnZX7UiM"),
        ("0H/1/2H/2", "xpub6FHa3pjLCk84BayeJxFW2SP4XRrFd1JYnxeLeU8EqN3vDfZmbqBqaGJAyiLjTAwm6ZLRQUMv1ZACTj37sR62cfN7fe5JnJ7dh8zL4fiyLHV",
         "xprvA2JDeKCSNNZky6uBCviVfJSKyQ1mDYahRjijr5idH2WwLsEd4Hsb2Tyh8RfQMuPh7f7RtyzTtdrbdqqsunu5Mm3wDvUAKRHSC34sJ7in334"),
        ("0H/1/2H/2/1000000000", "xpub6H1LXWLaKsWFhvm6RVpEL9P4KfRZSW7abD2ttkWP3SSQvnyA8FSVqNTEcYFgJS2UaFcxupHiYkro49S8yGasTvXEYBVPamhGW6cFJodrTHy",
         "xprvA41z7zogVVwxVSgdKUHDy1SKmdb533PjDz7J6N6mV6uS3ze1ai8FHa8kmHScGpWmj4WggLyQjgPie1rFSruoUihUZREPSL39UNdE3BBDu76"),
    ]),
    ("fffcf9f6f3f0edeae7e4e1dedbd8d5d2cfccc9c6c3c0bdbab7b4b1aeaba8a5a29f9c999693908d8a8784817e7b7875726f6c696663605d5a5754514e4b484542", [
        ("", "xpub661MyMwAqRbcFW31YEwpkMuc5THy2PSt5bDMsktWQcFF8syAmRUapSCGu8ED9W6oDMSgv6Zz8idoc4a6mr8BDzTJY47LJhkJ8UB7WEGuduB",
         "xprv9s21ZrQH143K31xYSDQpPDxsXRTUcvj2iNHm5NUtrGiGG5e2DtALGdso3pGz6ssrdK4PFmM8NSpSBHNqPqm55Qn3LqFtT2emdEXVYsCzC2U"),
        ("0", "xpub69H7F5d8KSRgmmdJg2KhpAK8SR3DjMwAdkxj3ZuxV27CprR9LgpeyGmXUbC6wb7ERfvrnKZjXoUmmDznezpbZb7ap6r1D3tgFxHmwMkQTPH",
         "xprv9vHkqa6EV4sPZHYqZznhT2NPtPCjKuDKGY38FBWLvgaDx45zo9WQRUT3dKYnjwih2yJD9mkrocEZXo1ex8G81dwSM1fwqWpWkeS3v86pgKt"),
        ("0/2147483647H", "xpub6ASAVgeehLbnwdqV6UKMHVzgqAG8Gr6riv3Fxxpj8ksbH9ebxaEyBLZ85ySDhKiLDBrQSARLq1uNRts8RuJiHjaDMBU4Zn9h8LZNnBC5y4a",
         "xprv9wSp6B7kry3Vj9m1zSnLvN3xH8RdsPP1Mh7fAaR7aRLcQMKTR2vidYEeEg2mUCTAwCd6vnxVrcjfy2kRgVsFawNzmjuHc2YmYRmagcEPdU9"),
        ("0/2147483647H/1", "xpub6DF8uhdarytz3FWdA8TvFSvvAh8dP3283MY7p2V4SeE2wyWmG5mg5EwVvmdMVCQcoNJxGoWaU9DCWh89LojfZ537wTfunKau47EL2dhHKon",
         "xprv9zFnWC6h2cLgpmSA46vutJzBcfJ8yaJGg8cX1e5StJh45BBciYTRXSd25UEPVuesF9yog62tGAQtHjXajPPdbRCHuWS6T8XA2ECKADdw4Ef"),
        ("0/2147483647H/1/2147483646H", "xpub6ERApfZwUNrhLCkDtcHTcxd75RbzS1ed54G1LkBUHQVHQKqhMkhgbmJbZRkrgZw4koxb5JaHWkY4ALHY2grBGRjaDMzQLcgJvLJuZZvRcEL",
         "xprvA1RpRA33e1JQ7ifknakTFpgNXPmW2YvmhqLQYMmrj4xJXXWYpDPS3xz7iAxn8L39njGVyuoseXzU6rcxFLJ8HFsTjSyQbLYnMpCqE2VbFWc"),
        ("0/2147483647H/1/2147483646H/2", "xpub6FnCn6nSzZAw5Tw7cgR9bi15UV96gLZhjDstkXXxvCLsUXBGXPdSnLFbdpq8p9HmGsApME5hQTZ3emM2rnY5agb9rXpVGyy3bdW6EEgAtqt",
         "xprvA2nrNbFZABcdryreWet9Ea4LvTJcGsqrMzxHx98MMrotbir7yrKCEXw7nadnHM8Dq38EGfSh6dqA9QWTyefMLEcBYJUuekgW4BYPJcr9E7j"),
    ]),
    # vector 3 of the BIP (retention of leading zeros)
    ("4b381541583be4423346c643850da4b320e46a87ae3d2a4e6da11eba819cd4acba45d239319ac14f863b8d5ab5a0d0c64d2e8a1e7d1457df2e5a3c51c73235be", [
        ("", "xpub661MyMwAqRbcEZVB4dScxMAdx6d4nFc9nvyvH3v4gJL378CSRZiYmhRoP7mBy6gSPSCYk6SzXPTf3ND1cZAceL7SfJ1Z3GC8vBgp2epUt13",
         "xprv9s21ZrQH143K25QhxbucbDDuQ4naNntJRi4KUfWT7xo4EKsHt2QJDu7KXp1A3u7Bi1j8ph3EGsZ9Xvz9dGuVrtHHs7pXeTzjuxBrCmmhgC6"),
        ("0H", "xpub68NZiKmJWnxxS6aaHmn81bvJeTESw724CRDs6HbuccFQN9Ku14VQrADWgqbhhTHBaohPX4CjNLf9fq9MYo6oDaPPLPxSb7gwQN3ih19Zm4Y",
         "xprv9uPDJpEQgRQfDcW7BkF7eTya6RPxXeJCqCJGHuCJ4GiRVLzkTXBAJMu2qaMWPrS7AANYqdq6vcBcBUdJCVVFceUvJFjaPdGZ2y9WACViL4L"),
    ]),
]


def _selftest():
    # the reference reproduces the published vectors
    for seed_hex, rows in VECTORS:
        m = RefNode.master(bytes.fromhex(seed_hex))
        for path, xpub, xprv in rows:
            nd = ref_path(m, path.split("/") if path else [])
            assert nd.text(XPUB, False) == xpub and nd.text(XPRV, True) == xprv, (seed_hex[:8], path)
            assert b58check_decode(xpub) == XPUB + nd.payload(False)
    # reference CKDpub == public half of reference CKDpriv
    m = RefNode.master(b"selftest")
    for i in (0, 1, 2 ** 31 - 1):
        a, b = m.ckd_priv(i), m.public().ckd_pub(i)
        assert (a.K, a.c, a.depth, a.pfp, a.index) == (b.K, b.c, b.depth, b.pfp, b.index)


_selftest()


# ------------------------------------------------------------------------------------------- 1. derivation
@bounded("C09.derive_vs_reference", props=["C09"],
         bound="BIP32 vectors 1, 2, 3 (every published node, pub+prv strings); seeded masters (seed lengths 1..100 bytes) x "
               "seeded paths of depth 1..6 with indices from {0,1,2,255,256,65535,65536,2^24-1,2^24,2^31-2,2^31-1} + random, "
               "normal and hardened: every node on the path, all fields (secret exponent, public pair, chain code, depth, "
               "parent fingerprint, child number, fingerprint, 74-byte payload, xprv/xpub text) via chained subkey(), via "
               "subkey_for_path(string) on a fresh master, and via public derivation of the trailing run of normal indices. "
               "quick: 25 masters x 3 paths; thorough: 400 x 4")
def c09_derive(opts):
    rng = random.Random(opts["seed"])
    quick = opts.get("tier") == "quick"
    n_master, n_paths = (25, 3) if quick else (400, 4)
    t = Tally(rule="one case per (seed, path prefix, derivation route); nontrivial = depth >= 1")
    v = V(t)
    net = btc()
    # vectors
    for seed_hex, rows in VECTORS:
        seed = bytes.fromhex(seed_hex)
        for path, xpub, xprv in rows:
            t.case(key=("vector", seed_hex[:8], path), nontrivial=bool(path), sample={"vector": seed_hex[:8], "path": path})
            repro = REPO_HDR + "from pycoin.symbols.btc import network as N; k=N.keys.bip32_seed(bytes.fromhex('%s')).subkey_for_path(%r); print(k.hwif(), k.hwif(as_private=True))" % (seed_hex, path)
            try:
                nd = net.keys.bip32_seed(seed).subkey_for_path(path)
                ok = nd.hwif() == xpub and nd.hwif(as_private=True) == xprv and nd.public_copy().hwif() == xpub
            except Exception as e:  # noqa
                ok = False
            if not ok:
                v("bip32-test-vector-mismatch", "published BIP32 test vector not reproduced", (seed_hex[:8], path), repro)
    # seeded
    for mi in range(n_master):
        seed = rand_seed(rng)
        ref_m = RefNode.master(seed)
        for pi in range(n_paths):
            depth = rng.choice([1, 2, 3, 4, 5, 6, 6]) if pi else 6
            idxs = [rand_index(rng) for _ in range(depth)]
            if pi == 1:
                idxs = [i & 0x7FFFFFFF for i in idxs]   # an all-normal path (fully public-derivable)
            mark = rng.choice("Hp'")
            path = "/".join(el_str(i, mark) for i in idxs)
            hdr = REPO_HDR + "from pycoin.symbols.btc import network as N; m=N.keys.bip32_seed(bytes.fromhex('%s')); " % seed.hex()
            # (a) chained subkey()
            try:
                node = net.keys.bip32_seed(seed)
                ref = ref_m
                bad = compare(node, ref, XPRV, XPUB)
                if bad and pi == 0:
                    v("bip32-master-wrong", "master node differs from BIP32: %s" % bad[:2], seed.hex(), hdr + "print(m.hwif(as_private=True))")
                for d, i in enumerate(idxs):
                    node = node.subkey(i=i & 0x7FFFFFFF, is_hardened=i >= HARD)
                    ref = ref.ckd_priv(i)
                    t.case(key=(seed, tuple(idxs[:d + 1]), "chain"), sample={"seed": seed.hex(), "path": path})
                    bad = compare(node, ref, XPRV, XPUB)
                    if bad:
                        v("bip32-ckdpriv-wrong", "private child differs from BIP32 CKDpriv: %s" % bad[:3], (seed.hex(), idxs[:d + 1]),
                          hdr + "k=m.subkey_for_path(%r); print(k.hwif(as_private=True))" % "/".join(el_str(x) for x in idxs[:d + 1]))
                        break
            except Exception as e:  # noqa
                v("bip32-derivation-raises", "private derivation raises %s: %s" % (type(e).__name__, e), (seed.hex(), path), hdr + "m.subkey_for_path(%r)" % path)
                continue
            ref_leaf = ref_path(ref_m, idxs)
            # (b) path string on a fresh master
            t.case(key=(seed, tuple(idxs), "path-string"))
            try:
                nd = net.keys.bip32_seed(seed).subkey_for_path(path)
                bad = compare(nd, ref_leaf, XPRV, XPUB)
            except Exception as e:  # noqa
                bad = ["raises %s: %s" % (type(e).__name__, e)]
            if bad:
                v("bip32-path-string-wrong", "subkey_for_path differs from BIP32: %s" % bad[:3], (seed.hex(), path), hdr + "print(m.subkey_for_path(%r).hwif(as_private=True))" % path)
            # (c) public derivation of the trailing normal run
            run = 0
            while run < len(idxs) and idxs[len(idxs) - 1 - run] < HARD:
                run += 1
            if run:
                head, tail = idxs[:len(idxs) - run], idxs[len(idxs) - run:]
                t.case(key=(seed, tuple(idxs), "public-tail", run))
                try:
                    pubnode = net.keys.bip32_seed(seed).subkey_for_path("/".join(el_str(x) for x in head)).public_copy()
                    refpub = ref_path(ref_m, head).public()
                    bad = compare(pubnode, refpub, XPRV, XPUB)
                    for i in tail:
                        pubnode = pubnode.subkey(i)
                        refpub = refpub.ckd_pub(i)
                        bad = bad or compare(pubnode, refpub, XPRV, XPUB)
                    # and it is the public half of the private leaf
                    if not bad and (refpub.K, refpub.c, refpub.depth, refpub.pfp, refpub.index) != (ref_leaf.K, ref_leaf.c, ref_leaf.depth, ref_leaf.pfp, ref_leaf.index):
                        bad = ["harness: reference CKDpub/CKDpriv disagree"]
                except Exception as e:  # noqa
                    bad = ["raises %s: %s" % (type(e).__name__, e)]
                if bad:
                    v("bip32-ckdpub-wrong", "public derivation differs from BIP32 CKDpub: %s" % bad[:3], (seed.hex(), head, tail),
                      hdr + "k=m.subkey_for_path(%r).public_copy().subkey_for_path(%r); print(k.hwif())" % ("/".join(el_str(x) for x in head), "/".join(el_str(x) for x in tail)))
    t.exhaustive = False
    res = t.result()
    res["violation_counts"] = dict(v.count)
    return res


# ----------------------------------------------------------------------------- 2. public/private commutation
@bounded("C09.public_private_commutation", props=["C09"],
         bound="seeded private parents at depth 0..4 x normal indices {0,1,2,2^24-1,2^24,2^31-2,2^31-1,random}: "
               "parent.subkey(i).public_copy() == parent.public_copy().subkey(i) == parent.subkey(i, as_private=False) == "
               "subkey_for_path('i.pub') == reference, all fields; from a public-only parent every hardened request "
               "(subkey(is_hardened=True), subkey_for_path with H, p, ' markers, at the first or a later element) is refused "
               "(exception or None, never a node) and private serialisation (hwif/serialize as_private=True) is refused. "
               "quick: 30 parents x 6 indices; thorough: 300 x 11")
def c09_commutation(opts):
    rng = random.Random(opts["seed"])
    quick = opts.get("tier") == "quick"
    n_par, n_idx = (30, 6) if quick else (300, 11)
    t = Tally(rule="one case per (parent, index, clause); all non-trivial")
    v = V(t)
    net = btc()
    refusals = {}
    for pi in range(n_par):
        seed = rand_seed(rng)
        head = [rand_index(rng) for _ in range(rng.randrange(0, 5))]
        hp = "/".join(el_str(x) for x in head)
        ref_par = ref_path(RefNode.master(seed), head)
        hdr = REPO_HDR + "from pycoin.symbols.btc import network as N; p=N.keys.bip32_seed(bytes.fromhex('%s')).subkey_for_path(%r); " % (seed.hex(), hp)
        idxs = ([0, 1, 2, 2 ** 24 - 1, 2 ** 24, 2 ** 31 - 2, 2 ** 31 - 1] + [rng.randrange(2 ** 31) for _ in range(4)])
        idxs = rng.sample(idxs, n_idx) if n_idx < len(idxs) else idxs
        for i in idxs:
            parent = net.keys.bip32_seed(seed).subkey_for_path(hp)
            refc = ref_par.ckd_priv(i).public()
            refc2 = ref_par.public().ckd_pub(i)
            assert (refc.K, refc.c) == (refc2.K, refc2.c)
            routes = [("subkey(i).public_copy()", lambda: parent.subkey(i).public_copy()),
                      ("public_copy().subkey(i)", lambda: parent.public_copy().subkey(i)),
                      ("subkey(i, as_private=False)", lambda: parent.subkey(i, as_private=False)),
                      ("subkey_for_path('i.pub')", lambda: parent.subkey_for_path("%d.pub" % i)),
                      ("public_copy().subkey_for_path('i')", lambda: parent.public_copy().subkey_for_path("%d" % i)),
                      ("public_copy().subkey(i, as_private=True)", lambda: parent.public_copy().subkey(i, as_private=True))]
            order = list(range(len(routes)))
            rng.shuffle(order)   # same parent object: also exercises the sub-key cache in varying order
            for ri in order:
                nm, f = routes[ri]
                t.case(key=(seed, tuple(head), i, nm), sample={"seed": seed.hex(), "parent": hp, "i": i, "route": nm})
                try:
                    bad = compare(f(), refc, XPRV, XPUB)
                except Exception as e:  # noqa
                    bad = ["raises %s: %s" % (type(e).__name__, e)]
                if bad:
                    v("bip32-public-private-commutation", "%s is not the public half of the private child: %s" % (nm, bad[:3]), (seed.hex(), hp, i),
                      hdr + "i=%d; print(p.subkey(i).public_copy().hwif(), p.public_copy().subkey(i).hwif())" % i)
        # refusals on the public-only parent
        pub = net.keys.bip32_seed(seed).subkey_for_path(hp).public_copy()
        i = rng.choice(BOUNDARY_IDX)
        reqs = [("subkey(i, is_hardened=True)", lambda: pub.subkey(i, is_hardened=True)),
                ("subkey(i, is_hardened=True, as_private=False)", lambda: pub.subkey(i, is_hardened=True, as_private=False)),
                ("subkey_for_path('iH')", lambda: pub.subkey_for_path("%dH" % i)),
                ("subkey_for_path('ip')", lambda: pub.subkey_for_path("%dp" % i)),
                ("subkey_for_path(\"i'\")", lambda: pub.subkey_for_path("%d'" % i)),
                ("subkey_for_path('0/iH')", lambda: pub.subkey_for_path("0/%dH" % i)),
                ("subkey_for_path('iH.pub')", lambda: pub.subkey_for_path("%dH.pub" % i)),
                ("hwif(as_private=True)", lambda: pub.hwif(as_private=True)),
                ("serialize(as_private=True)", lambda: pub.serialize(as_private=True))]
        for nm, f in reqs:
            t.case(key=(seed, tuple(head), i, "refuse", nm))
            try:
                r = f()
                refused = r is None
                how = "None"
            except Exception as e:  # noqa
                refused, how = True, type(e).__name__
            refusals.setdefault(nm, set()).add(how if refused else "RETURNED %s" % type(r).__name__)
            if not refused:
                v("bip32-hardened-from-public-not-refused", "public-only node answered %s with %r" % (nm, r), (seed.hex(), hp, i),
                  hdr + "q=p.public_copy(); print(q.%s)" % nm.replace("i", str(i), 1))
        # a private node never leaks through the public copy
        t.case(key=(seed, tuple(head), "pubcopy-private-free"))
        if pub.secret_exponent() is not None or pub.is_private() or pub.wif() is not None:
            v("bip32-public-copy-leaks-secret", "public_copy() still carries the secret exponent", (seed.hex(), hp), None)
    t.exhaustive = False
    res = t.result()
    res["violation_counts"] = dict(v.count)
    res["refusal_modes"] = {k: sorted(x) for k, x in refusals.items()}
    return res


# --------------------------------------------------------------------------------- 3. histories / sub-key cache
@bounded("C09.cache_histories", props=["C09"],
         bound="histories on ONE node object: seeded sequences of 12..40 subkey(i, is_hardened, as_private in {None,True,"
               "False}) / subkey_for_path calls with repeats, over 6 indices (incl. i and i+hardened, 2^31-1), in random "
               "order, then the same requests on grandchildren reached through cached children; each answer compared with "
               "the reference and with the answer of a fresh node parsed from text; private and public-only roots.  quick: "
               "40 histories; thorough: 600")
def c09_cache(opts):
    rng = random.Random(opts["seed"])
    quick = opts.get("tier") == "quick"
    n_hist = 40 if quick else 600
    t = Tally(rule="one case per (history, step); a history is distinct by its root and its ordered request list; nontrivial = "
                   "the request (or an equal-index variant) was already made earlier in the history (cache hit or near-hit)")
    v = V(t)
    net = btc()
    for hi in range(n_hist):
        seed = rand_seed(rng)
        head = [rand_index(rng) for _ in range(rng.randrange(0, 3))]
        hp = "/".join(el_str(x) for x in head)
        ref_root = ref_path(RefNode.master(seed), head)
        root_public = rng.random() < 0.35
        root = net.keys.bip32_seed(seed).subkey_for_path(hp)
        if root_public:
            root, ref_root = root.public_copy(), ref_root.public()
        root_text = root.hwif(as_private=not root_public)
        pool = rng.sample(BOUNDARY_IDX, 3) + [2 ** 31 - 1, rng.randrange(2 ** 31), 0]
        steps = []
        for _ in range(rng.randrange(12, 41)):
            i = rng.choice(pool)
            hard = (not root_public) and rng.random() < 0.4
            asp = rng.choice([None, True, False])
            lvl2 = rng.choice([None, None, rng.choice(pool)])
            steps.append((i, hard, asp, lvl2, rng.random() < 0.3))
        seen = set()
        hist_key = (seed, tuple(head), root_public, tuple(steps))
        for si, (i, hard, asp, lvl2, use_path) in enumerate(steps):
            t.case(key=(hist_key, si), nontrivial=(i in seen), sample={"seed": seed.hex(), "root": hp, "public_root": root_public, "steps": [list(map(str, s)) for s in steps[:6]]})
            seen.add(i)
            full = i + (HARD if hard else 0)
            want_private = (not root_public) and (asp is not False)
            refc = ref_root.child(full)
            if lvl2 is not None:
                refc = refc.child(lvl2)
            if not want_private:
                refc = refc.public()
            try:
                if use_path:
                    p = el_str(full, rng.choice("Hp'")) + ("/%d" % lvl2 if lvl2 is not None else "") + ("" if want_private else ".pub")
                    got = root.subkey_for_path(p)
                    fresh = net.parse.bip32(root_text).subkey_for_path(p)
                else:
                    got = root.subkey(i, is_hardened=hard, as_private=asp)
                    fresh = net.parse.bip32(root_text).subkey(i, is_hardened=hard, as_private=asp)
                    if lvl2 is not None:
                        got, fresh = got.subkey(lvl2), fresh.subkey(lvl2)
                bad = compare(got, refc, XPRV, XPUB)
                if not bad and (got.hwif(as_private=want_private) != fresh.hwif(as_private=want_private) or got.serialize() != fresh.serialize()):
                    bad = ["answer differs from a fresh node's answer"]
            except Exception as e:  # noqa
                bad = ["raises %s: %s" % (type(e).__name__, e)]
            if bad:
                v("bip32-cache-not-transparent", "derivation after history differs: %s" % bad[:3], (seed.hex(), hp, root_public, steps[:si + 1]),
                  REPO_HDR + "from pycoin.symbols.btc import network as N; r=N.parse.bip32(%r); steps=%r\nfor (i,h,a,l,_) in steps: k=r.subkey(i,is_hardened=h,as_private=a); print(k.hwif(as_private=k.is_private()))" % (root_text, steps[:si + 1]))
                break
    t.exhaustive = False
    res = t.result()
    res["violation_counts"] = dict(v.count)
    return res


# ------------------------------------------------------------------------------------------ 4. path spellings
def expand_range_spec(spec):
    """own expansion of the path-range grammar: '/'-separated components; each a ','-list of N | N-M, each item optionally
    followed by a hardening mark; the cartesian product in component order"""
    if spec == "":
        return [[]]
    comps = []
    for comp in spec.split("/"):
        items = []
        for it in comp.split(","):
            hard = it[-1] in "'pH"
            if hard:
                it = it[:-1]
            if "-" in it:
                lo, hi = it.split("-")
                rng_ = range(int(lo), int(hi) + 1)
            else:
                rng_ = [int(it)]
            items += [x + (HARD if hard else 0) for x in rng_]
        comps.append(items)
    return [list(x) for x in itertools.product(*comps)]


@bounded("C09.path_spellings", props=["C09"],
         bound="seeded paths (depth 1..5): every assignment of the three hardening marks {H, p, '} to the hardened elements "
               "(<= 27 spellings per path), with and without '.pub', on private roots, equal the reference; the empty path and "
               "'.pub' alone; range specs (N-M, comma lists, hardened ranges in all three marks, up to 3 ranged components, "
               "<= 60 expanded paths) through subpaths_for_path_range and node.subkeys(): same number, order and nodes as an "
               "independent expansion; the docstring examples of subpaths.py.  quick: 25 paths + 25 range specs; thorough: "
               "300 + 300")
def c09_paths(opts):
    rng = random.Random(opts["seed"])
    quick = opts.get("tier") == "quick"
    n_paths = 25 if quick else 300
    t = Tally(rule="one case per (root, spelled path string) and per (root, range spec); nontrivial = at least one hardened "
                   "element or one ranged component")
    v = V(t)
    net = btc()
    from pycoin.key.subpaths import subpaths_for_path_range
    seed = rand_seed(rng)
    for pi in range(n_paths):
        if pi % 10 == 0:
            seed = rand_seed(rng)
        ref_m = RefNode.master(seed)
        hdr = REPO_HDR + "from pycoin.symbols.btc import network as N; m=N.keys.bip32_seed(bytes.fromhex('%s')); " % seed.hex()
        depth = rng.randrange(1, 6)
        idxs = [rand_index(rng) for _ in range(depth)]
        if pi % 5 == 0 and not any(i >= HARD for i in idxs):
            idxs[rng.randrange(depth)] |= HARD
        ref_leaf = ref_path(ref_m, idxs)
        hard_pos = [k for k, i in enumerate(idxs) if i >= HARD][:3]
        for marks in itertools.product("Hp'", repeat=len(hard_pos)):
            mk = dict(zip(hard_pos, marks))
            path = "/".join(el_str(i, mk.get(k, "H")) for k, i in enumerate(idxs))
            for suffix in ("", ".pub"):
                t.case(key=(seed, path + suffix), nontrivial=bool(hard_pos), sample={"seed": seed.hex(), "path": path + suffix})
                try:
                    nd = net.keys.bip32_seed(seed).subkey_for_path(path + suffix)
                    bad = compare(nd, ref_leaf.public() if suffix else ref_leaf, XPRV, XPUB)
                except Exception as e:  # noqa
                    bad = ["raises %s: %s" % (type(e).__name__, e)]
                if bad:
                    v("bip32-path-spelling", "path spelling %r gives a different node: %s" % (path + suffix, bad[:3]), (seed.hex(), path + suffix),
                      hdr + "print(m.subkey_for_path(%r).hwif(as_private=%r))" % (path + suffix, not suffix))
    # empty path
    for sfx, refn in (("", RefNode.master(seed)), (".pub", RefNode.master(seed).public())):
        t.case(key=(seed, "empty" + sfx), nontrivial=False)
        try:
            bad = compare(net.keys.bip32_seed(seed).subkey_for_path(sfx), refn, XPRV, XPUB)
        except Exception as e:  # noqa
            bad = ["raises %s" % type(e).__name__]
        if bad:
            v("bip32-path-spelling", "empty path is not the node itself: %s" % bad[:3], (seed.hex(), sfx), None)
    # docstring examples
    examples = {"0/1H/0-4": ['0/1H/0', '0/1H/1', '0/1H/2', '0/1H/3', '0/1H/4'],
                "0/2,5,9-11": ['0/2', '0/5', '0/9', '0/10', '0/11'],
                "3H/2/5/15-20p": ['3H/2/5/15H', '3H/2/5/16H', '3H/2/5/17H', '3H/2/5/18H', '3H/2/5/19H', '3H/2/5/20H'],
                "5-6/7-8p,15/1-2": ['5/7H/1', '5/7H/2', '5/8H/1', '5/8H/2', '5/15/1', '5/15/2', '6/7H/1', '6/7H/2', '6/8H/1', '6/8H/2', '6/15/1', '6/15/2']}
    for spec, exp in examples.items():
        t.case(key=("example", spec))
        try:
            got = list(subpaths_for_path_range(spec))
        except Exception as e:  # noqa
            got = "raises %s" % type(e).__name__
        # (the module's docstring writes 'p' in its third example's output; BIP32 meaning is identical, compare by meaning)
        if got == "raises" or [[parse_el(e) for e in p.split("/")] for p in got] != [[parse_el(e) for e in p.split("/")] for p in exp]:
            v("subpaths-range-expansion", "subpaths_for_path_range(%r) != documented expansion" % spec, (spec, got),
              REPO_HDR + "from pycoin.key.subpaths import subpaths_for_path_range as f; print(list(f(%r)))" % spec)
    # seeded range specs
    for si in range(n_paths):
        if si % 10 == 0:
            seed = rand_seed(rng)
        ref_m = RefNode.master(seed)
        depth = rng.randrange(1, 5)
        comps, ranged = [], 0
        for d in range(depth):
            mark = rng.choice(["", "", "H", "p", "'"])
            r = rng.random()
            if r < 0.45 and ranged < 3:
                ranged += 1
                items = []
                for _ in range(rng.randrange(1, 3)):
                    lo = rng.choice([0, 1, 5, 255, 2 ** 24 - 1, 2 ** 31 - 3, rng.randrange(1000)])
                    if rng.random() < 0.7:
                        hi = min(lo + rng.randrange(0, 3), 2 ** 31 - 1)
                        items.append("%d-%d%s" % (lo, hi, rng.choice(["", mark])))
                    else:
                        items.append("%d%s" % (lo, rng.choice(["", mark])))
                comps.append(",".join(items))
            else:
                comps.append("%d%s" % (rand_index(rng) & 0x7FFFFFFF, mark))
        spec = "/".join(comps)
        exp = expand_range_spec(spec)
        if len(exp) > 60:
            continue
        hdr = REPO_HDR + "from pycoin.symbols.btc import network as N; m=N.keys.bip32_seed(bytes.fromhex('%s')); " % seed.hex()
        t.case(key=(seed, "range", spec), nontrivial=ranged > 0, sample={"seed": seed.hex(), "spec": spec, "expands_to": len(exp)})
        try:
            strs = list(subpaths_for_path_range(spec))
            bad = []
            if [[parse_el(e) for e in p.split("/")] for p in strs] != exp:
                bad = ["expansion %r != %r" % (strs[:5], ["/".join(el_str(i) for i in p) for p in exp[:5]])]
            nodes = list(net.keys.bip32_seed(seed).subkeys(spec))
            if len(nodes) != len(exp):
                bad.append("subkeys() yields %d nodes, expected %d" % (len(nodes), len(exp)))
            for nd, p in zip(nodes, exp):
                b = compare(nd, ref_path(ref_m, p), XPRV, XPUB)
                if b:
                    bad.append("node %s: %s" % ("/".join(el_str(i) for i in p), b[:2]))
                    break
        except Exception as e:  # noqa
            bad = ["raises %s: %s" % (type(e).__name__, e)]
        if bad:
            v("subpaths-range-expansion", "range spec %r: %s" % (spec, bad[:2]), (seed.hex(), spec), hdr + "print([k.hwif() for k in m.subkeys(%r)])" % spec)
    t.exhaustive = False
    res = t.result()
    res["violation_counts"] = dict(v.count)
    return res


# ------------------------------------------------------------------------------------------ 5. text round trip
def all_networks():
    from pycoin.networks.registry import network_codes, network_for_netcode
    nets, skipped = [], []
    for code in network_codes():
        try:
            net = network_for_netcode(code)
        except Exception as e:  # noqa
            skipped.append((code, type(e).__name__))
            continue
        if type(net.parse).__name__ != "ParseAPI":
            # GRS family: base58 checksum needs the groestlcoin_hash module (absent here)
            try:
                import groestlcoin_hash  # noqa
            except ImportError:
                skipped.append((code, "needs groestlcoin_hash"))
                continue
        nets.append(net)
    return nets, skipped


@bounded("C09.text_roundtrip", props=["C09"],
         bound="every registered network with bip32 prefixes whose checksum hash is available (48 of 51; GRS, GRSRT, TGRS "
               "skipped: groestlcoin_hash module absent) x seeded nodes {master, depth 1..6, hardened and normal child numbers "
               "incl. 2^31-1 and 2^32-1, depth 255, secret exponents 1 / 255 / n-1 / leading-zero, chain code with leading "
               "zeros} x {private, public}: hwif text == own base58check(version || payload) with the network's own prefix; "
               "parse.bip32 / bip32_prv / bip32_pub give back a node with every field equal and re-serialising to the same "
               "text; prv text is not accepted by bip32_pub and vice versa; a child derived from the parsed node equals the "
               "child of the original.  BIP49 (ypub) and BIP84 (zpub) the same on every network defining those prefixes "
               "(BTC, XTN, LTC), incl. children keep class and prefix.  quick: 4 nodes per network; thorough: 40")
def c09_text(opts):
    rng = random.Random(opts["seed"])
    quick = opts.get("tier") == "quick"
    n_nodes = 4 if quick else 40
    t = Tally(rule="one case per (network, key type, node, private?); nontrivial = depth >= 1")
    v = V(t)
    nets, skipped = all_networks()
    # a pool of reference nodes
    pool = []
    for _ in range(max(8, n_nodes)):
        seed = rand_seed(rng)
        idxs = [rand_index(rng) for _ in range(rng.choice([0, 1, 2, 3, 6]))]
        pool.append(ref_path(RefNode.master(seed), idxs))
    m = RefNode.master(b"edge")
    edge = [RefNode(1, pt_mul(G, 1), b"\0" * 31 + b"\1", 255, b"\xff\xff\xff\xff", 2 ** 32 - 1),
            RefNode(255, pt_mul(G, 255), b"\0" * 32, 1, b"\0\0\0\1", 2 ** 31 - 1),
            RefNode(N - 1, pt_mul(G, N - 1), m.c, 7, b"\x01\x02\x03\x04", 2 ** 31),
            RefNode(2 ** 200 + 5, pt_mul(G, 2 ** 200 + 5), m.c, 3, m.fingerprint(), 2 ** 24)]
    for net in nets:
        sym = net.symbol
        p = net.parse
        kinds = []
        for kind in ("bip32", "bip49", "bip84"):
            prv, pub = getattr(p, "_%s_prv_prefix" % kind, None), getattr(p, "_%s_pub_prefix" % kind, None)
            if prv and pub:
                kinds.append((kind, prv, pub))
        for (kind, prv_pre, pub_pre) in kinds:
            deser = getattr(net.keys, "%s_deserialize" % kind)
            parse_any, parse_prv, parse_pub = getattr(p, kind), getattr(p, kind + "_prv"), getattr(p, kind + "_pub")
            nodes = edge + (rng.sample(pool, n_nodes) if n_nodes < len(pool) else pool)
            for ref in nodes:
                for private in (True, False):
                    rn = ref if private else ref.public()
                    t.case(key=(sym, kind, ref.payload(True), private), nontrivial=ref.depth >= 1,
                           sample={"network": sym, "kind": kind, "depth": ref.depth, "index": ref.index, "private": private})
                    text_exp = rn.text(prv_pre if private else pub_pre, private)
                    hdr = REPO_HDR + "from pycoin.networks.registry import network_for_netcode as nf; N=nf(%r); " % sym
                    repro = hdr + "k=N.parse.%s(%r); print(k, k and k.hwif(as_private=%r))" % (kind, text_exp, private)
                    try:
                        bad = []
                        # build the pycoin node from the binary form (version bytes ignored by deserialize)
                        node = deser((prv_pre if private else pub_pre) + rn.payload(private))
                        bad += compare(node, rn, prv_pre, pub_pre)
                        text = node.hwif(as_private=private)
                        if text != text_exp:
                            bad.append("hwif %r != expected %r" % (text, text_exp))
                        if b58check_decode(text) != (prv_pre if private else pub_pre) + rn.payload(private):
                            bad.append("text does not decode to prefix||payload")
                        back = parse_any(text_exp)
                        if back is None:
                            bad.append("parse.%s(text) is None" % kind)
                        else:
                            bad += ["parsed: " + b for b in compare(back, rn, prv_pre, pub_pre)]
                            if back.hwif(as_private=private) != text_exp:
                                bad.append("re-serialised text differs")
                            if type(back) is not type(node) or back._network is not net:
                                bad.append("parsed node has class %s / network %s" % (type(back).__name__, getattr(back._network, "symbol", None)))
                            # a child of the parsed node == child of the reference (normal index; hardened too if private)
                            if ref.depth < 255:
                                ci = rng.choice([0, 1, 2 ** 31 - 1])
                                bad += ["child: " + b for b in compare(back.subkey(ci), rn.child(ci), prv_pre, pub_pre)]
                                if type(back.subkey(ci)) is not type(node):
                                    bad.append("child class changed to %s" % type(back.subkey(ci)).__name__)
                                if private:
                                    bad += ["hardened child: " + b for b in compare(back.subkey(ci, is_hardened=True), rn.child(ci + HARD), prv_pre, pub_pre)]
                        specific, other = (parse_prv, parse_pub) if private else (parse_pub, parse_prv)
                        if specific(text_exp) is None:
                            bad.append("%s_%s(text) is None" % (kind, "prv" if private else "pub"))
                        if other(text_exp) is not None and prv_pre != pub_pre:
                            bad.append("%s text accepted by the %s parser" % ("prv" if private else "pub", "pub" if private else "prv"))
                        # other kinds must not claim this text unless they share the prefix
                        for (k2, prv2, pub2) in kinds:
                            if k2 != kind and (prv2, pub2) != (prv_pre, pub_pre) and getattr(p, k2)(text_exp) is not None:
                                bad.append("%s text accepted as %s" % (kind, k2))
                    except Exception as e:  # noqa
                        bad = ["raises %s: %s" % (type(e).__name__, e)]
                    if bad:
                        v("hd-text-roundtrip-%s" % kind, "%s %s text round trip: %s" % (sym, kind, bad[:3]), (sym, kind, text_exp), repro)
    # cross-network: a text is parsed by another network iff the prefixes coincide
    by_sym = {n.symbol: n for n in nets}
    ref = pool[0]
    for a, b in (("BTC", "XTN"), ("XTN", "BTC"), ("BTC", "LTC"), ("BTC", "DOGE"), ("BTC", "BCH"), ("LTC", "XLT")):
        if a in by_sym and b in by_sym:
            na, nb = by_sym[a], by_sym[b]
            for private in (True, False):
                pre = getattr(na.parse, "_bip32_%s_prefix" % ("prv" if private else "pub"))
                pre_b = getattr(nb.parse, "_bip32_%s_prefix" % ("prv" if private else "pub"))
                text = (ref if private else ref.public()).text(pre, private)
                t.case(key=("cross", a, b, private), nontrivial=True)
                try:
                    got = nb.parse.bip32(text)
                    ok = (got is not None) == (pre == pre_b)
                except Exception as e:  # noqa
                    ok = False
                if not ok:
                    v("hd-text-cross-network", "%s text parsed by %s: %r (prefix equal: %r)" % (a, b, got, pre == pre_b), (a, b, text), None)
    t.exhaustive = False
    res = t.result()
    res["violation_counts"] = dict(v.count)
    res["networks"] = len(nets)
    res["skipped_networks"] = skipped
    return res


# ------------------------------------------------------------------------------------------------ 6. electrum
def electrum_stretch(seed_hex):
    b = orig = seed_hex.encode("utf8")
    for _ in range(100000):
        b = hashlib.sha256(b + orig).digest()
    return int.from_bytes(b, "big")


def electrum_ref(master_k, master_K, n_idx, for_change):
    mpk = master_K[0].to_bytes(32, "big") + master_K[1].to_bytes(32, "big")
    off = int.from_bytes(sha256(sha256(("%s:%s:" % (n_idx, for_change)).encode() + mpk)), "big")
    K = pt_add(pt_mul(G, off), master_K)
    k = (master_k + off) % N if master_k is not None else None
    return k, K


@bounded("C09.electrum", props=["C09"],
         bound="Electrum (old-style) wallets on BTC (+XTN, LTC): seeded master private keys {1, 2, n-1, random} and 2 (quick) / "
               "6 (thorough) seed strings (100000-round stretch, own implementation); paths 'K' and 'K/N' for K in {0,1,2,7,"
               "1000, 2^31-1, random}, N in {0,1}: private subkey == reference (master + sha256d('K:N:' + mpk)) mod n; "
               "public_copy().subkey(path) and electrum_public(mpk).subkey(path) == public half of the private subkey; "
               "subkeys('0-3/0-1') range form; text round trip E:<hex> through parse.electrum_prv / electrum_pub / "
               "electrum_seed; subkey of a public-only wallet has no secret.  quick: 12 masters x 8 paths; thorough: 120 x 14")
def c09_electrum(opts):
    rng = random.Random(opts["seed"])
    quick = opts.get("tier") == "quick"
    n_masters, n_paths, n_seeds = (12, 8, 2) if quick else (120, 14, 6)
    t = Tally(rule="one case per (network, master, path, clause); all non-trivial")
    v = V(t)
    from pycoin.networks.registry import network_for_netcode
    nets = [network_for_netcode(c) for c in ("BTC", "XTN", "LTC")]
    masters = [1, 2, N - 1] + [rng.randrange(1, N) for _ in range(n_masters - 3)]
    seeds = ["00000000000000000000000000000001"] + ["%032x" % rng.getrandbits(128) for _ in range(n_seeds - 1)]
    for mi, mk in enumerate(masters + seeds):
        net = nets[0] if mi % 4 else nets[mi // 4 % 3]
        hdr = REPO_HDR + "from pycoin.networks.registry import network_for_netcode as nf; N=nf(%r); " % net.symbol
        try:
            if isinstance(mk, str):
                k = electrum_stretch(mk)
                if not 0 < k < N:
                    continue
                w = net.keys.electrum_seed(seed=mk)
                ctor = "w=N.keys.electrum_seed(seed=%r); " % mk
            else:
                k = mk
                w = net.keys.electrum_private(master_private_key=mk)
                ctor = "w=N.keys.electrum_private(master_private_key=%d); " % mk
            K = pt_mul(G, k)
            mpk = K[0].to_bytes(32, "big") + K[1].to_bytes(32, "big")
            t.case(key=(net.symbol, mk, "master"))
            pp = w.public_pair()
            if w.secret_exponent() != k or (pp[0], pp[1]) != K or w.master_public_key() != mpk or w.master_private_key() != k:
                v("electrum-master-wrong", "Electrum master key differs from the reference", (net.symbol, mk), hdr + ctor + "print(w.secret_exponent(), w.master_public_key().hex())")
                continue
            wpub = w.public_copy()
            wpub2 = net.keys.electrum_public(master_public_key=mpk)
            paths = [("0", 0, 0), ("0/0", 0, 0), ("0/1", 0, 1), ("1", 1, 0), ("2/1", 2, 1), ("7/0", 7, 0), ("1000/1", 1000, 1), ("2147483647/0", 2 ** 31 - 1, 0)]
            paths += [("%d/%d" % (a, b), a, b) for a, b in ((rng.randrange(10 ** 6), rng.randrange(2)) for _ in range(6))]
            for (path, a, b) in paths[:n_paths]:
                ek, eK = electrum_ref(k, K, a, b)
                for (nm, f, has_secret) in (("private.subkey", lambda: w.subkey(path), True),
                                            ("private.subkey_for_path", lambda: w.subkey_for_path(path), True),
                                            ("public_copy().subkey", lambda: wpub.subkey(path), False),
                                            ("electrum_public(mpk).subkey", lambda: wpub2.subkey(path), False),
                                            ("private.subkey().public_copy()", lambda: w.subkey(path).public_copy(), False)):
                    t.case(key=(net.symbol, mk, path, nm), sample={"network": net.symbol, "master": str(mk)[:20], "path": path, "route": nm})
                    try:
                        s = f()
                        sp = s.public_pair()
                        ok = (sp[0], sp[1]) == eK and s.secret_exponent() == (ek if has_secret else None)
                        why = "%s(%r) differs from the Electrum derivation / is not the public half" % (nm, path)
                    except Exception as e:  # noqa
                        ok, why = False, "%s(%r) raises %s: %s" % (nm, path, type(e).__name__, e)
                    if not ok:
                        v("electrum-public-private-commutation", why, (net.symbol, mk, path),
                          hdr + ctor + "print(w.subkey(%r).public_pair(), w.public_copy().subkey(%r).public_pair())" % (path, path))
            # range form
            t.case(key=(net.symbol, mk, "subkeys-range"))
            try:
                got = [tuple(s.public_pair()) for s in w.subkeys("0-3/0-1")]
                got_pub = [tuple(s.public_pair()) for s in wpub.subkeys("0-3/0-1")]
                exp = [electrum_ref(k, K, a, b)[1] for a in range(4) for b in range(2)]
                ok = got == exp == got_pub
            except Exception as e:  # noqa
                ok = False
            if not ok:
                v("electrum-subkeys-range", "subkeys('0-3/0-1') differs from the 8 expected keys", (net.symbol, mk), hdr + ctor + "print([s.public_pair() for s in w.subkeys('0-3/0-1')])")
            # text forms
            t.case(key=(net.symbol, mk, "text"))
            try:
                a1 = net.parse.electrum_prv("E:%064x" % k)
                a2 = net.parse.electrum_pub("E:" + mpk.hex())
                ok = (a1 is not None and a1.secret_exponent() == k and tuple(a1.public_pair()) == K and a2 is not None and a2.secret_exponent() is None
                      and tuple(a2.public_pair()) == K and a1.serialize() == k.to_bytes(32, "big") and a2.serialize() == mpk
                      and tuple(a1.subkey("5/1").public_pair()) == tuple(a2.subkey("5/1").public_pair()) == electrum_ref(k, K, 5, 1)[1])
                if isinstance(mk, str):
                    a3 = net.parse.electrum_seed("E:" + mk)
                    ok = ok and a3 is not None and a3.secret_exponent() == k
            except Exception as e:  # noqa
                ok = False
            if not ok:
                v("electrum-text-roundtrip", "E:<hex> text forms do not give back the wallet", (net.symbol, mk), hdr + "print(N.parse.electrum_prv('E:%064x'))" % k)
        except Exception as e:  # noqa
            v("electrum-raises", "Electrum wallet raises %s: %s" % (type(e).__name__, e), (net.symbol, mk), None)
    t.exhaustive = False
    res = t.result()
    res["violation_counts"] = dict(v.count)
    return res
