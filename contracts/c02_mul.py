"""C02: the scalar-multiplication ladders of the real code against the abstract group
(`+`/`-` on points are the group operations: Curve.add, proved in c02_curve + Lean):

  * `_leftmost_bit(x)`   == the power of two with  result <= x < 2*result
  * `Curve.multiply`     == e*P   (signed-digit ladder over the bits of 3e and e)
  * `Generator.raw_mul`  == e*G   (table of doublings 2^i G, object invariant of the table stated as precondition)
  * `Generator.__mul__`  == e*G   (blinding factor cancels)
  * `Point.__neg__`, `Generator.__neg__` coordinates

Group facts used are axioms with Lean proofs (lean/GroupLaws.lean); the bit-level meaning of `x & 2**k` is the axiom
bit_test (lean/BitTest.lean)."""
from pyvc.api import *
from spec.core import *
from spec.group import *
from spec.numth import *
from contracts.c09_bip32 import smul_add, smul_mod_order
from pycoin.ecdsa.Curve import Curve, _leftmost_bit
from pycoin.ecdsa.Generator import Generator

GEN = AbsGenerator()


@axiom(sig={}, reason="1*P = P (Mathlib: one_zsmul)", lean="lean/GroupLaws.lean")
def smul_one(P):
    return smul(1, P) == P


@axiom(sig={}, reason="(-1)*P = -P (Mathlib: neg_zsmul)", lean="lean/GroupLaws.lean")
def smul_neg_one(P):
    return smul(-1, P) == pneg(P)


@axiom(sig={}, reason="0*P = 0 and k*0 = 0 (Mathlib: zero_zsmul, smul_zero)", lean="lean/GroupLaws.lean")
def smul_zero(k, P):
    return (smul(0, P) == INF(), smul(k, INF()) == INF())


@axiom(sig={}, reason="in a group of order n every element is killed by n, so k*P depends only on k mod n (Lagrange; lean: smul_mod_order_pt_law)", lean="lean/GroupLaws.lean")
def smul_mod_order_pt(a, n, P):
    return smul(a % n, P) == smul(a, P)


# ---------------------------------------------------------------- _leftmost_bit
@contract("pycoin.ecdsa.Curve:_leftmost_bit")
class leftmost_bit:
    props = ["C02"]
    sig = dict(x=Int(1))
    returns = Int()

    def requires(x):
        return x > 0

    def ensures_leading_power(x, result):
        return (result == pow2(ilog2(result)), result <= x, x < 2 * result, result >= 1)

    canaries = [("return result >> 1", "return result")]


@invariant("pycoin.ecdsa.Curve:_leftmost_bit", 0)
def _lb_inv(x, result):
    return (result >= 1, result == pow2(ilog2(result)), result == 1 or result // 2 <= x)


# ---------------------------------------------------------------- Curve.multiply
def _coef(e3, e, k):
    """multiplier reached after the bits above position k have been processed: (e3 >> k) - (e >> k)"""
    return shr(e3, k) - shr(e, k)


@contract("pycoin.ecdsa.Curve:Curve.multiply")
class curve_multiply:
    """signed-digit ladder: with h = 3e, after processing bit k the accumulator is ((h >> k) - (e >> k)) P, and
    (h >> 1) - (e >> 1) = e.  Stated for a curve with its (prime) group order set, where e is first reduced modulo it."""
    props = ["C02"]
    sig = dict(self=GEN, p=APoint(), e=Int())
    returns = APoint()

    def ensures_smul(self, p, e, result):
        smul_mod_order_pt(e, self._order, p)
        smul_zero(e % self._order, p)
        return result == smul(e, p)

    canaries = [("v = [result - p, result]", "v = [result, result]"), ("e3 = 3 * e", "e3 = 2 * e")]


@invariant("pycoin.ecdsa.Curve:Curve.multiply", 0)
def _mul_inv(self, p, e, e3, i, result):
    k = ilog2(i)
    prev = _coef(e3, e, k + 2)
    # ghost: group laws at the multipliers of this step, bit meaning of `& i`, and (for the entry) the leading-bit facts
    smul_add(prev, prev, p)
    smul_add(2 * prev, 1, p)
    smul_add(2 * prev, -1, p)
    smul_one(p)
    smul_neg_one(p)
    bit_test(e3, k)
    bit_test(e, k)
    shr_ge(e3, k + 1, 1)
    shr_ge(e3, k + 1, 2)
    shr_ge(e, k + 1, 1)
    shr_ge(e, k + 1, 0)
    return (e >= 1, e3 == 3 * e, i >= 1, i == pow2(k), p != INF(), result == smul(_coef(e3, e, k + 1), p))


# ---------------------------------------------------------------- Generator.raw_mul / __mul__ (table of doublings, blinding)
TGEN = AbsGenerator(table=True)
K_PTS = ('seq', ('abs', 'Pt'))


@spec(rec=True, args=[K_PTS, 'int'], ret='bool')
def powers_ok_upto(ps, i):
    """the first i table entries are G, 2G, 4G, ... (what the loop in Generator.__init__ appends)"""
    if i <= 0:
        return True
    return powers_ok_upto(ps, i - 1) and ps[i - 1] == smul(pow2(i - 1), GPT())


@spec(rec=True, args=['int', 'int'], ret='int')
def lowbits(x, k):
    """the number made of the k low bits of x"""
    if k <= 0:
        return 0
    return lowbits(x, k - 1) + (pow2(k - 1) if shr(x, k - 1) % 2 == 1 else 0)


@lemma(sig=dict(ps=SeqOf(APoint()), n=Int(0), j=Int(0)), induct=lambda ps, n, j: n, props=["C02"])
def powers_at(ps, n, j):
    if n > 0:
        powers_at(ps, n - 1, j)
    return implies(powers_ok_upto(ps, n) and 0 <= j and j < n and n <= len(ps), ps[j] == smul(pow2(j), GPT()))


@lemma(sig=dict(x=Int(0), k=Int(0)), induct=lambda x, k: k, props=["C02"])
def lowbits_split(x, k):
    """x = (low k bits) + 2**k * (x >> k)"""
    if k > 0:
        lowbits_split(x, k - 1)
    return x == lowbits(x, k) + pow2(k) * shr(x, k)


def _table_ok(self):
    ps = listval(self._powers)
    return (powers_ok_upto(ps, len(ps)), self._order <= pow2(len(ps)),
            self._minus_blinding_factor_g == smul(-self._blinding_factor, GPT()))


@contract("pycoin.ecdsa.Generator:Generator.raw_mul")
class raw_mul:
    props = ["C02"]
    sig = dict(self=TGEN, e=Int())
    returns = APoint()

    def requires(self, e):
        return _table_ok(self)

    def ensures_smul(self, e, result):
        return result == smul(e, GPT())

    def at_return(self, e, P, old_e):
        n = self._order
        L = len(listval(self._powers))
        e0 = old_e % n
        lowbits_split(e0, L)
        shr_ge(e0, L, 1)
        shr_ge(e0, L, 0)
        smul_mod_order(old_e, n)

    canaries = [("P = a[e & 1]", "P = a[1]"), ("e >>= 1", "e >>= 2")]


@invariant("pycoin.ecdsa.Generator:Generator.raw_mul", 0)
def _raw_mul_inv(self, e, P, _i, old_e):
    ps = listval(self._powers)
    e0 = old_e % self._order
    powers_at(ps, len(ps), _i)
    smul_add(lowbits(e0, _i), pow2(_i), GPT())
    smul_zero(0, GPT())
    return (e == shr(e0, _i), e0 >= 0, P == smul(lowbits(e0, _i), GPT()))


@contract("pycoin.ecdsa.Generator:Generator.__mul__")
class generator_mul:
    props = ["C02"]
    sig = dict(self=TGEN, e=Int())
    returns = APoint()

    def requires(self, e):
        return _table_ok(self)

    def ensures_smul(self, e, result):
        smul_add(e + self._blinding_factor, -self._blinding_factor, GPT())
        return result == smul(e, GPT())

    canaries = [("self.raw_mul(e + self._blinding_factor)", "self.raw_mul(e)")]
