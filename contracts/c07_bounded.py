"""C07 (Tier B, bounded): transactions round-trip through the wire format and have stable ids; spendables and the
appended spent-output extension round-trip.

Oracle: the property statement + the public Bitcoin wire format: legacy transaction serialisation, BIP144 extended
serialisation (marker 00, flag 01, one witness stack per input after the outputs; used iff some witness stack is
non-empty), BIP141 txid / wtxid (double SHA256 of the stripped / full serialisation, shown byte-reversed in hex; single
SHA256 for Groestlcoin), compact-size integers.  The reference serialiser / parser below is written from those documents
with the standard library only and never calls pycoin.  pycoin-specific forms (the appended spent outputs, the Spendable
text / dict / binary records) have no outside standard: there the oracle is the round trip required by the statement,
plus - for the binary spendable record, whose writer is broken - the field layout its own parser declares ("QS#LIbI").

Classes under test: network_for_netcode(c).tx for BTC, LTC (pycoin.coins.litecoin.LTCTx with its own parser), BCH, BTG,
GRS; their TxIn / TxOut / Spendable.
"""
import hashlib
import io
import json
import random

from pyvc.bounded import bounded, Tally

from pycoin.networks.registry import network_for_netcode

MAX_PER_KEY = 3


class KTally(Tally):
    """Tally that keeps at most MAX_PER_KEY violations per finding key so one defect cannot crowd out another."""

    def __init__(self, rule):
        super().__init__(rule)
        self.per_key = {}

    def violation(self, what, inputs, repro=None, finding_key=None):
        k = finding_key or what
        self.per_key[k] = self.per_key.get(k, 0) + 1
        if self.per_key[k] <= MAX_PER_KEY:
            super().violation(what, inputs, repro, finding_key)

    def result(self):
        r = super().result()
        r["violation_counts_by_key"] = dict(self.per_key)
        return r


# ----------------------------------------------------------------------------------------------------------------
# reference wire format (stdlib only)
# ----------------------------------------------------------------------------------------------------------------

def sha256(b):
    return hashlib.sha256(b).digest()


def sha256d(b):
    return hashlib.sha256(hashlib.sha256(b).digest()).digest()


def compact_size(n):
    if n < 0xfd:
        return bytes([n])
    if n <= 0xffff:
        return b"\xfd" + n.to_bytes(2, "little")
    if n <= 0xffffffff:
        return b"\xfe" + n.to_bytes(4, "little")
    return b"\xff" + n.to_bytes(8, "little")


def le32(n):
    return n.to_bytes(4, "little")


def le64(n):
    return n.to_bytes(8, "little")


def ser_txout(v, s):
    return le64(v) + compact_size(len(s)) + s


class RTx(object):
    """ins = [(prev_hash32, prev_index, script, sequence, witness_tuple)], outs = [(value, script)]"""

    def __init__(self, version, ins, outs, lock_time):
        self.version, self.ins, self.outs, self.lock_time = version, ins, outs, lock_time

    def fields(self):
        return (self.version, tuple((h, i, s, q, tuple(w)) for h, i, s, q, w in self.ins), tuple(self.outs), self.lock_time)

    def has_witness(self):
        return any(len(w) > 0 for _h, _i, _s, _q, w in self.ins)

    def ser(self, with_witness=True, flag=1, tail=b""):
        ext = with_witness and self.has_witness()
        out = [le32(self.version)]
        if ext or flag != 1:
            out.append(b"\x00" + bytes([flag]))
        out.append(compact_size(len(self.ins)))
        for h, i, s, q, _w in self.ins:
            out += [h, le32(i), compact_size(len(s)), s, le32(q)]
        out.append(compact_size(len(self.outs)))
        for v, s in self.outs:
            out.append(ser_txout(v, s))
        if ext:
            for _h, _i, _s, _q, w in self.ins:
                out.append(compact_size(len(w)))
                for item in w:
                    out += [compact_size(len(item)), item]
        out.append(tail)
        out.append(le32(self.lock_time))
        return b"".join(out)

    def without_witness(self):
        return RTx(self.version, [(h, i, s, q, ()) for h, i, s, q, _w in self.ins], list(self.outs), self.lock_time)

    def describe(self):
        return {"version": self.version, "n_in": len(self.ins), "n_out": len(self.outs), "lock_time": self.lock_time,
                "script_lens": [len(s) for _h, _i, s, _q, _w in self.ins][:6], "out_script_lens": [len(s) for _v, s in self.outs][:6],
                "values": [v for v, _s in self.outs][:6], "witness_shape": [[len(x) for x in w][:6] for _h, _i, _s, _q, w in self.ins][:6]}


class Reader(object):
    def __init__(self, b):
        self.b, self.p = b, 0

    def take(self, n):
        if self.p + n > len(self.b):
            raise ValueError("truncated")
        r = self.b[self.p:self.p + n]
        self.p += n
        return r

    def u(self, n):
        return int.from_bytes(self.take(n), "little")

    def cs(self):
        v = self.u(1)
        if v == 0xfd:
            return self.u(2)
        if v == 0xfe:
            return self.u(4)
        if v == 0xff:
            return self.u(8)
        return v

    def var(self):
        return self.take(self.cs())


def ref_parse(b):
    """Core UnserializeTransaction (witness allowed); returns (RTx, bytes consumed)"""
    r = Reader(b)
    version = r.u(4)
    n = r.cs()
    flags = 0
    if n == 0:
        flags = r.u(1)
        if flags == 0:
            raise ValueError("no inputs")
        n = r.cs()
    ins = []
    for _ in range(n):
        h = r.take(32)
        i = r.u(4)
        s = r.var()
        q = r.u(4)
        ins.append([h, i, s, q, ()])
    outs = []
    for _ in range(r.cs()):
        v = r.u(8)
        outs.append((v, r.var()))
    if flags & 1:
        flags ^= 1
        for t in ins:
            t[4] = tuple(r.var() for _ in range(r.cs()))
        if not any(t[4] for t in ins):
            raise ValueError("superfluous witness record")
    if flags:
        raise ValueError("unknown optional data")
    lock_time = r.u(4)
    return RTx(version, [tuple(t) for t in ins], outs, lock_time), r.p


def rev_hex(h):
    return h[::-1].hex()


# ----------------------------------------------------------------------------------------------------------------
# glue to the code under test
# ----------------------------------------------------------------------------------------------------------------

class Cfg(object):
    def __init__(self, code, H):
        self.code, self.H = code, H
        self.Tx = network_for_netcode(code).tx


def configs():
    return [Cfg("BTC", sha256d), Cfg("LTC", sha256d), Cfg("BCH", sha256d), Cfg("BTG", sha256d), Cfg("GRS", sha256)]


def build(T, rtx, witness_as=list):
    txs_in = []
    for h, i, s, q, w in rtx.ins:
        ti = T.TxIn(h, i, s, q)
        ti.witness = witness_as(w)
        txs_in.append(ti)
    return T(rtx.version, txs_in, [T.TxOut(v, s) for v, s in rtx.outs], rtx.lock_time)


def fields_of(tx):
    return (tx.version,
            tuple((bytes(t.previous_hash), t.previous_index, bytes(t.script), t.sequence, tuple(bytes(x) for x in t.witness)) for t in tx.txs_in),
            tuple((o.coin_value, bytes(o.script)) for o in tx.txs_out), tx.lock_time)


def attempt(f, *a, **k):
    try:
        return None, f(*a, **k)
    except Exception as e:
        return "%s: %s" % (type(e).__name__, str(e)[:120]), None


def short(b, n=120):
    h = b.hex()
    return h if len(h) <= n else "%s..(%d bytes)" % (h[:n], len(b))


def repro_build(code, rtx):
    def sh(b):
        return "bytes.fromhex(%r)" % b.hex() if len(b) <= 80 else "bytes(%d)" % len(b)
    ins = ", ".join("mk(T, %s, %d, %s, %d, [%s])" % (sh(h), i, sh(s), q, ", ".join(sh(x) for x in w)) for h, i, s, q, w in rtx.ins[:8])
    outs = ", ".join("T.TxOut(%d, %s)" % (v, sh(s)) for v, s in rtx.outs[:8])
    return ("import sys, io; sys.path.insert(0,'/repo'); from pycoin.networks.registry import network_for_netcode; T=network_for_netcode(%r).tx\n"
            "def mk(T,h,i,s,q,w):\n    t=T.TxIn(h,i,s,q); t.witness=w; return t\n"
            "tx=T(%d, [%s], [%s], %d)  # (long fields shown as zero bytes of the same length; at most 8 ins/outs shown)\n" % (code, rtx.version, ins, outs, rtx.lock_time))


# ----------------------------------------------------------------------------------------------------------------
# generators
# ----------------------------------------------------------------------------------------------------------------

def rbytes(rng, n):
    return rng.getrandbits(8 * n).to_bytes(n, "big") if n else b""


AMOUNTS = [0, 1, 0xfc, 0xfd, 0xffff, 0x10000, 2 ** 32 - 1, 2 ** 32, 21 * 10 ** 14, 2 ** 63 - 1, 2 ** 63, 2 ** 64 - 1]
U32 = [0, 1, 0xfc, 0xfd, 0xffff, 0x10000, 0x7fffffff, 0x80000000, 0xfffffffe, 0xffffffff]
LENS = [0, 1, 0xfc, 0xfd, 0xfe, 0xffff, 0x10000]


def gen_in(rng, script_len=None, witness=None):
    h = rbytes(rng, 32) if rng.random() < 0.95 else bytes(32)
    i = rng.choice(U32 + [rng.getrandbits(32)])
    if script_len is None:
        script_len = rng.choice([0, 1, 0xfc, 0xfd]) if rng.random() < 0.3 else rng.randrange(0, 110)
    q = rng.choice(U32 + [rng.getrandbits(32)])
    if witness is None:
        r = rng.random()
        if r < 0.45:
            witness = ()
        else:
            witness = tuple(rbytes(rng, rng.choice([0, 0, 1, 32, 33, 72, 0xfc, 0xfd])) for _ in range(rng.choice([1, 1, 2, 3, 5])))
    return (h, i, rbytes(rng, script_len), q, witness)


def gen_out(rng, script_len=None, value=None):
    if script_len is None:
        script_len = rng.choice([0, 1, 0xfc, 0xfd]) if rng.random() < 0.3 else rng.randrange(0, 80)
    if value is None:
        value = rng.choice(AMOUNTS + [rng.getrandbits(64), rng.getrandbits(45)])
    return (value, rbytes(rng, script_len))


def gen_rtx(rng, n_in=None, n_out=None):
    n_in = rng.choice([1, 1, 2, 3, 4, 7]) if n_in is None else n_in
    n_out = rng.choice([0, 1, 1, 2, 3, 6]) if n_out is None else n_out
    return RTx(rng.choice(U32 + [rng.getrandbits(32)]), [gen_in(rng) for _ in range(n_in)], [gen_out(rng) for _ in range(n_out)],
               rng.choice(U32 + [rng.getrandbits(32)]))


def boundary_rtxs(rng, thorough):
    """the boundaries named in the quantifier text, one dimension at a time (label, RTx)"""
    out = []
    # script lengths across every compact-size boundary, on inputs and on outputs
    for n in LENS + [0xfb, 0x100, 0xfffe, 0x10001]:
        out.append(("in-script-len-%#x" % n, RTx(1, [gen_in(rng, script_len=n, witness=())], [gen_out(rng, 25)], 0)))
        out.append(("out-script-len-%#x" % n, RTx(1, [gen_in(rng, 0, ())], [gen_out(rng, script_len=n)], 0)))
        out.append(("both-script-len-%#x+witness" % n, RTx(2, [gen_in(rng, script_len=n, witness=(b"\x01",)), gen_in(rng, 3, ())],
                                                           [gen_out(rng, script_len=n), gen_out(rng, 0)], 7)))
    # amounts
    for v in AMOUNTS:
        out.append(("amount-%d" % v, RTx(1, [gen_in(rng, 5, ())], [gen_out(rng, 25, v), gen_out(rng, 0, v)], 0)))
    # version / lock time / sequence / index
    for x in U32:
        out.append(("u32-%#x" % x, RTx(x, [(rbytes(rng, 32), x, b"\x51", x, ())], [gen_out(rng, 1)], x)))
    # output counts 0..many, input counts 1..many (across the 0xfc/0xfd count boundary)
    for n in [0, 1, 2, 0xfc, 0xfd, 0xfe] + ([0x100, 1000] if thorough else []):
        out.append(("n-out-%d" % n, RTx(1, [gen_in(rng, 4, ())], [gen_out(rng, rng.randrange(0, 4), rng.getrandbits(33)) for _ in range(n)], 0)))
        out.append(("n-out-%d+witness" % n, RTx(1, [gen_in(rng, 0, (b"", b"\x00"))], [gen_out(rng, rng.randrange(0, 4)) for _ in range(n)], 0)))
    for n in [1, 2, 0xfc, 0xfd, 0xfe] + ([0x100, 1000] if thorough else []):
        out.append(("n-in-%d" % n, RTx(1, [gen_in(rng, rng.randrange(0, 3), ()) for _ in range(n)], [gen_out(rng, 2)], 0)))
        out.append(("n-in-%d+witness-on-last" % n, RTx(1, [gen_in(rng, 0, ()) for _ in range(n - 1)] + [gen_in(rng, 0, (b"\xaa",))], [gen_out(rng, 2)], 0)))
        out.append(("n-in-%d+witness-on-first" % n, RTx(1, [gen_in(rng, 0, (b"",))] + [gen_in(rng, 0, ()) for _ in range(n - 1)], [], 0)))
    if thorough:
        out.append(("n-in-65536", RTx(1, [(bytes([k & 255, k >> 8]) + bytes(30), k, b"", 0, ()) for k in range(0x10000)], [gen_out(rng, 2)], 0)))
        out.append(("n-out-65536", RTx(1, [gen_in(rng, 0, ())], [(k, b"") for k in range(0x10000)], 0)))
    # witness stacks: empty items, item lengths across boundaries, item counts across boundaries, large items
    for n in LENS + ([1000000] if thorough else [100000]):
        out.append(("witness-item-len-%#x" % n, RTx(2, [gen_in(rng, 0, (rbytes(rng, n),)), gen_in(rng, 2, ())], [gen_out(rng, 22)], 0)))
        out.append(("witness-item-len-%#x-among-empties" % n, RTx(2, [gen_in(rng, 0, (b"", rbytes(rng, n), b""))], [gen_out(rng, 22)], 0)))
    for n in [1, 2, 0xfc, 0xfd, 0xfe] + ([0x10000] if thorough else []):
        out.append(("witness-item-count-%d-all-empty-items" % n, RTx(2, [gen_in(rng, 0, (b"",) * n)], [gen_out(rng, 22)], 0)))
        out.append(("witness-item-count-%d" % n, RTx(2, [gen_in(rng, 0, ()), gen_in(rng, 0, tuple(bytes([k & 255]) * (k % 3) for k in range(n)))], [gen_out(rng, 22)], 0)))
    # mixtures of witness / non-witness inputs: every pattern over 3 inputs
    for mask in range(8):
        out.append(("mix-%s" % format(mask, "03b"), RTx(2, [gen_in(rng, 0 if mask >> k & 1 else 20, ((b"\x30" * 71, b"\x02" * 33) if mask >> k & 1 else ())) for k in range(3)],
                                                        [gen_out(rng, 22), gen_out(rng, 34)], 0)))
    # zero-hash / coinbase-looking input, with and without witness (BIP141 coinbase carries the witness nonce)
    out.append(("coinbase", RTx(1, [(bytes(32), 0xffffffff, b"\x03\x01\x02\x03", 0xffffffff, ())], [gen_out(rng, 25)], 0)))
    out.append(("coinbase+witness-nonce", RTx(1, [(bytes(32), 0xffffffff, b"\x03\x01\x02\x03", 0xffffffff, (bytes(32),))], [gen_out(rng, 25), gen_out(rng, 38, 0)], 0)))
    return out


# ----------------------------------------------------------------------------------------------------------------
# C07.tx_wire
# ----------------------------------------------------------------------------------------------------------------

def check_tx(t, cfg, label, rtx, rng):
    T = cfg.Tx
    code = cfg.code
    ref = rtx.ser()
    stripped = rtx.ser(with_witness=False)
    want = rtx.fields()
    # sanity of the reference itself (cannot fail because of pycoin)
    back, used = ref_parse(ref)
    assert back.fields() == want and used == len(ref)
    desc = dict(rtx.describe(), coin=code, label=label)
    rb = repro_build(code, rtx)

    def bad(what, key, **kw):
        t.violation(what="%s [%s]" % (what, code), inputs=dict(desc, **kw), repro=rb + kw.pop("snippet", ""), finding_key=key)

    tx = build(T, rtx, witness_as=list if rng.random() < 0.5 else tuple)
    nontrivial = True
    # (1) serialisation == wire format; extended form iff some witness is non-empty
    err, got = attempt(tx.as_bin)
    t.case(key=(code, label, "as_bin"), nontrivial=nontrivial, sample=desc)
    if err or got != ref:
        bad("Tx.as_bin() differs from the standard wire format (%s form expected)" % ("BIP144 extended" if rtx.has_witness() else "legacy"),
            "tx-as-bin-not-wire-format", got=err or short(got), expected=short(ref), snippet="print(tx.as_bin().hex())")
    err, got = attempt(tx.as_bin, include_witness_data=False)
    t.case(key=(code, label, "as_bin_stripped"))
    if err or got != stripped:
        bad("Tx.as_bin(include_witness_data=False) is not the witness-stripped serialisation", "tx-as-bin-stripped-mismatch", got=err or short(got), expected=short(stripped))
    # (2) hex form
    err, hx = attempt(tx.as_hex)
    t.case(key=(code, label, "as_hex"))
    if err or hx != ref.hex():
        bad("Tx.as_hex() is not the hex of the wire bytes", "tx-as-hex-mismatch", got=err or hx[:120])
    # (3) parse(reference bytes): from_bin, parse, from_hex -> equal field by field, re-serialises identically
    for how in ("from_bin", "parse", "from_hex"):
        if how == "from_bin":
            err, tx2 = attempt(T.from_bin, ref)
        elif how == "from_hex":
            err, tx2 = attempt(T.from_hex, ref.hex())
        else:
            f = io.BytesIO(ref)
            err, tx2 = attempt(T.parse, f)
            if not err and f.tell() != len(ref):
                bad("Tx.parse did not consume exactly the transaction bytes", "tx-parse-consumed-wrong-length", consumed=f.tell(), length=len(ref))
        t.case(key=(code, label, how))
        if err:
            bad("Tx.%s raised on standard wire bytes" % how, "tx-parse-raises", error=err, data=short(ref), snippet="T.%s(...)" % how)
            continue
        got_fields = fields_of(tx2)
        if got_fields != want:
            diff = [n for n, a, b in zip(("version", "inputs", "outputs", "lock_time"), got_fields, want) if a != b]
            bad("Tx.%s(wire bytes) is not field-by-field equal to the transaction (%s differ)" % (how, ",".join(diff)), "tx-parse-fields-differ",
                data=short(ref), snippet="print(T.from_bin(tx.as_bin()).as_bin() == tx.as_bin())")
        err, again = attempt(tx2.as_bin)
        if err or again != ref:
            bad("Tx.%s(wire bytes).as_bin() does not return the bytes unchanged" % how, "tx-reserialise-differs", got=err or short(again), expected=short(ref))
        if how == "from_bin" and not err:
            if tx2.unspents != []:
                bad("Tx.from_bin of bytes without the spent-output extension has unspents", "tx-from-bin-spurious-unspents", unspents=repr(tx2.unspents)[:100])
    # stripped bytes parse to the same tx without witnesses (also with allow_segwit=False where the parser offers it)
    err, tx3 = attempt(T.from_bin, stripped)
    t.case(key=(code, label, "from_bin_stripped"))
    if err or fields_of(tx3) != rtx.without_witness().fields() or tx3.as_bin() != stripped:
        bad("Tx.from_bin(stripped bytes) does not round-trip", "tx-parse-stripped-differs", error=err)
    if code != "LTC":
        err, tx4 = attempt(T.parse, io.BytesIO(stripped), allow_segwit=False)
        t.case(key=(code, label, "parse_no_segwit"))
        if err or fields_of(tx4) != rtx.without_witness().fields():
            bad("Tx.parse(stripped bytes, allow_segwit=False) does not round-trip", "tx-parse-stripped-differs", error=err)
    # (4) ids
    want_id = rev_hex(cfg.H(stripped))
    want_wid = rev_hex(cfg.H(ref))
    err, got = attempt(tx.id)
    t.case(key=(code, label, "id"))
    if err or got != want_id:
        bad("Tx.id() is not the reversed-hex %s of the witness-stripped serialisation" % ("SHA256" if code == "GRS" else "double SHA256"), "tx-id-mismatch", got=err or got, expected=want_id,
            snippet="print(tx.id())")
    err, got = attempt(tx.hash)
    if err or bytes(got) != cfg.H(stripped):
        bad("Tx.hash() is not the hash of the witness-stripped serialisation", "tx-id-mismatch", got=err or bytes(got).hex(), expected=cfg.H(stripped).hex())
    err, got = attempt(tx.w_id)
    t.case(key=(code, label, "w_id"), nontrivial=rtx.has_witness())
    if err or got != want_wid:
        bad("Tx.w_id() is not the reversed-hex hash of the full (witness) serialisation", "tx-wid-mismatch", got=err or got, expected=want_wid, snippet="print(tx.w_id())")
    if not rtx.has_witness() and want_id != want_wid:
        raise AssertionError("reference inconsistency")
    # id independent of witness data; w_id covers it
    other = RTx(rtx.version, [(h, i, s, q, tuple(w) + (rbytes(rng, rng.choice([0, 1, 40])),)) if rng.random() < 0.6 or k == 0 else (h, i, s, q, ())
                              for k, (h, i, s, q, w) in enumerate(rtx.ins)], list(rtx.outs), rtx.lock_time)
    tx5 = build(T, other)
    err, got = attempt(tx5.id)
    err2, gotw = attempt(tx5.w_id)
    t.case(key=(code, label, "id_vs_witness"))
    if err or got != want_id:
        bad("Tx.id() changes when only witness data changes", "tx-id-depends-on-witness", got=err or got, expected=want_id)
    if err2 or gotw != rev_hex(cfg.H(other.ser())) or gotw == want_wid:
        bad("Tx.w_id() does not cover the witness data", "tx-wid-mismatch", got=err2 or gotw, expected=rev_hex(cfg.H(other.ser())))
    # stripping the witness from the pycoin object gives the legacy form again
    tx6 = build(T, rtx.without_witness())
    err, got = attempt(tx6.as_bin)
    if err or got != stripped:
        bad("a transaction whose witness stacks are all empty is not serialised in legacy form", "tx-as-bin-not-wire-format", got=err or short(got), expected=short(stripped))


@bounded("C07.tx_wire", props=["C07"],
         bound="BTC, LTC, BCH, BTG, GRS tx classes x {boundary txs: script / witness-item lengths 0,1,0xfc,0xfd,0xfe,0xffff,0x10000(,1e6), "
               "in/out/witness-item counts across 0xfc/0xfd (thorough: 0x10000), amounts 0..2^64-1, u32 fields, all witness/non-witness "
               "mixtures over 3 inputs} + seeded txs: as_bin == reference bytes, from_bin / parse / from_hex of reference bytes, ids")
def c07_tx_wire(opts):
    rng = random.Random(opts["seed"])
    thorough = opts.get("tier") == "thorough"
    t = KTally(rule="case = (coin, transaction, clause); reference bytes come from an independent BIP144 serialiser (itself checked "
                    "against an independent parser); non-trivial = all except w_id on witness-free txs; distinct by (coin, label, clause)")
    cfgs = configs()
    bnd = boundary_rtxs(rng, thorough)
    for k, (label, rtx) in enumerate(bnd):
        heavy = len(rtx.ser()) > 200000
        for cfg in cfgs:
            if heavy and cfg.code not in ("BTC", "LTC"):
                continue
            if not thorough and cfg.code in ("BCH", "BTG") and k % 4:
                continue
            check_tx(t, cfg, label, rtx, rng)
    n_seeded = 5000 if thorough else 500
    for k in range(n_seeded):
        rtx = gen_rtx(rng)
        for cfg in cfgs:
            if cfg.code in ("BCH", "BTG", "GRS") and k % 5:
                continue
            check_tx(t, cfg, "seeded-%d" % k, rtx, rng)
    t.exhaustive = False
    return t.result()


# ----------------------------------------------------------------------------------------------------------------
# C07.unspents_extension
# ----------------------------------------------------------------------------------------------------------------

@bounded("C07.unspents_extension", props=["C07"],
         bound="BTC, LTC, GRS x seeded + boundary txs (with and without witnesses) x spent outputs with non-zero amounts {1, 0xfd, 2^32, "
               "MAX_MONEY, 2^63, 2^64-1, random} and scripts of length 0,1,0xfc,0xfd,0xffff,0x10000,random; binary and hex forms; "
               "Spendable and TxOut objects as unspents")
def c07_unspents_extension(opts):
    rng = random.Random(opts["seed"] + 1)
    thorough = opts.get("tier") == "thorough"
    t = KTally(rule="case = (coin, tx, spent outputs, form): as_bin(include_unspents=True) == tx bytes || each spent output as a TxOut; "
                    "from_bin/from_hex of that restores tx fields and the (amount, script) of every spent output and re-serialises "
                    "identically; non-trivial = all (amounts are non-zero as the statement requires)")
    cfgs = [c for c in configs() if c.code in ("BTC", "LTC", "GRS")]
    nz = [a for a in AMOUNTS if a]
    n = 2000 if thorough else 200
    for k in range(n):
        rtx = gen_rtx(rng)
        spent = []
        for _ in rtx.ins:
            ln = rng.choice(LENS if (thorough or k % 6 == 0) else LENS[:5]) if rng.random() < 0.4 else rng.randrange(0, 60)
            spent.append((rng.choice(nz + [rng.getrandbits(64) or 1, rng.getrandbits(40) or 1]), rbytes(rng, ln)))
        ref = rtx.ser() + b"".join(ser_txout(v, s) for v, s in spent)
        for cfg in cfgs:
            T = cfg.Tx
            tx = build(T, rtx)
            as_sp = k % 2 == 0
            if as_sp:
                tx.set_unspents([T.Spendable(v, s, h, i, rng.randrange(3), rng.random() < 0.5, rng.randrange(3)) for (v, s), (h, i, _s, _q, _w) in zip(spent, rtx.ins)])
            else:
                tx.set_unspents([T.TxOut(v, s) for v, s in spent])
            desc = dict(rtx.describe(), coin=cfg.code, spent=[(v, len(s)) for v, s in spent][:6], unspents_as="Spendable" if as_sp else "TxOut")
            err, got = attempt(tx.as_bin, include_unspents=True)
            t.case(key=(cfg.code, k, "stream"), sample=desc)
            if err or got != ref:
                t.violation(what="Tx.as_bin(include_unspents=True) is not the tx bytes followed by the spent outputs [%s]" % cfg.code,
                            inputs=dict(desc, got=err or short(got[len(rtx.ser()):]), expected=short(ref[len(rtx.ser()):])),
                            repro=repro_build(cfg.code, rtx) + "tx.set_unspents([T.TxOut(v, bytes(n)) for v, n in %r]); print(tx.as_bin(include_unspents=True).hex())" % [(v, len(s)) for v, s in spent],
                            finding_key="tx-unspents-extension-bytes")
                continue
            for how in ("from_bin", "from_hex"):
                err, tx2 = attempt(T.from_bin, ref) if how == "from_bin" else attempt(T.from_hex, ref.hex())
                t.case(key=(cfg.code, k, how))
                if err:
                    t.violation(what="Tx.%s raised on tx bytes + spent outputs [%s]" % (how, cfg.code), inputs=dict(desc, error=err), repro=None, finding_key="tx-unspents-extension-parse")
                    continue
                got_un = [None if u is None else (u.coin_value, bytes(u.script)) for u in tx2.unspents]
                if fields_of(tx2) != rtx.fields() or got_un != spent:
                    t.violation(what="Tx.%s(tx bytes + spent outputs) does not restore the transaction and its spent outputs [%s]" % (how, cfg.code),
                                inputs=dict(desc, got_unspents=[None if u is None else (u[0], len(u[1])) for u in got_un][:6]),
                                repro=repro_build(cfg.code, rtx) + "tx.set_unspents([T.TxOut(v, bytes(n)) for v, n in %r]); t2=T.from_bin(tx.as_bin(include_unspents=True)); print([(u.coin_value, len(u.script)) if u else None for u in t2.unspents])" % [(v, len(s)) for v, s in spent],
                                finding_key="tx-unspents-extension-roundtrip")
                    continue
                err, again = attempt(tx2.as_bin, include_unspents=True)
                if err or again != ref:
                    t.violation(what="re-serialising the parsed tx with its spent outputs does not return the bytes unchanged [%s]" % cfg.code,
                                inputs=dict(desc, got=err or short(again[len(rtx.ser()):])), repro=None, finding_key="tx-unspents-extension-roundtrip")
                err, hx = attempt(tx2.as_hex, include_unspents=True)
                if err or hx != ref.hex():
                    t.violation(what="as_hex(include_unspents=True) is not the hex of the binary form [%s]" % cfg.code, inputs=dict(desc, error=err), repro=None, finding_key="tx-unspents-extension-roundtrip")
            # the extension never changes the ids
            err, got = attempt(tx.id)
            if err or got != rev_hex(cfg.H(rtx.ser(with_witness=False))):
                t.violation(what="Tx.id() depends on the attached spent outputs [%s]" % cfg.code, inputs=desc, repro=None, finding_key="tx-id-mismatch")
    t.exhaustive = False
    return t.result()


# ----------------------------------------------------------------------------------------------------------------
# C07.spendable_forms
# ----------------------------------------------------------------------------------------------------------------

def sp_fields(s):
    return (s.coin_value, bytes(s.script), bytes(s.tx_hash), s.tx_out_index, s.block_index_available, int(bool(s.does_seem_spent)), s.block_index_spent)


def ref_spendable_bin(f):
    """layout declared by Spendable.parse ("QS#LIbI"): value, script, tx hash, index (LE32), then compact-size block index
    available, one bool byte, compact-size block index spent"""
    v, s, h, i, bia, dss, bis = f
    return le64(v) + compact_size(len(s)) + s + h + le32(i) + compact_size(bia) + (b"\x01" if dss else b"\x00") + compact_size(bis)


@bounded("C07.spendable_forms", props=["C07"],
         bound="BTC, LTC, GRS Spendable x {amounts 0..2^64-1 boundaries, script lengths 0,1,0xfc,0xfd,0xffff,0x10000, tx_out_index u32 "
               "boundaries, block indices across compact-size boundaries, does_seem_spent both} + seeded: text, dict (also through "
               "JSON), binary with as_spendable False/True")
def c07_spendable_forms(opts):
    rng = random.Random(opts["seed"] + 2)
    thorough = opts.get("tier") == "thorough"
    t = KTally(rule="case = (coin, spendable, form); round trip compared on all 7 fields; binary form additionally against the layout "
                    "declared by its parser; non-trivial = all")
    blocks = [0, 1, 0xfc, 0xfd, 0xffff, 0x10000, 0xffffffff, 0x100000000]
    specs = []
    for v in AMOUNTS:
        specs.append((v, rbytes(rng, 25), rbytes(rng, 32), 0, 0, 0, 0))
    for n in LENS:
        specs.append((rng.getrandbits(40), rbytes(rng, n), rbytes(rng, 32), 1, 2, 1, 3))
    for x in U32:
        specs.append((1, b"\x51", rbytes(rng, 32), x, 0, 0, 0))
    for b in blocks:
        specs.append((5, b"\x51", rbytes(rng, 32), 0, b, 0, 0))
        specs.append((5, b"\x51", rbytes(rng, 32), 0, 7, 1, b))
    specs.append((0, b"", bytes(32), 0, 0, 0, 0))
    specs.append((2 ** 64 - 1, b"\xff" * 3, b"\xff" * 32, 0xffffffff, 0xffffffff, 1, 0xffffffff))
    for _ in range(10000 if thorough else 1000):
        specs.append((rng.choice(AMOUNTS + [rng.getrandbits(64), rng.getrandbits(40)]), rbytes(rng, rng.choice([0, 1, 22, 25, 34, 0xfc, 0xfd]) if rng.random() < .7 else rng.randrange(0, 300)),
                      rbytes(rng, 32), rng.choice(U32 + [rng.getrandbits(32), rng.randrange(0, 10)]), rng.choice(blocks + [rng.randrange(0, 900000)]),
                      rng.randrange(2), rng.choice(blocks + [rng.randrange(0, 900000)])))
    cfgs = [c for c in configs() if c.code in ("BTC", "LTC", "GRS")]
    for k, spec in enumerate(specs):
        cfg = cfgs[k % len(cfgs)] if k > 60 else None
        for cfg in ([cfg] if cfg else cfgs):
            S = cfg.Tx.Spendable
            v, sc, h, i, bia, dss, bis = spec
            desc = {"coin": cfg.code, "coin_value": v, "script_len": len(sc), "tx_hash": h.hex(), "tx_out_index": i, "block_index_available": bia,
                    "does_seem_spent": dss, "block_index_spent": bis}
            mk = "import sys; sys.path.insert(0,'/repo'); from pycoin.networks.registry import network_for_netcode; S=network_for_netcode(%r).tx.Spendable; s=S(%d, bytes(%d), bytes.fromhex(%r), %d, %d, %r, %d); " % (
                cfg.code, v, len(sc), h.hex(), i, bia, bool(dss), bis)
            s = S(v, sc, h, i, bia, bool(dss) if k % 2 else dss, bis)
            # text
            err, txt = attempt(s.as_text)
            err2, s2 = attempt(S.from_text, txt) if not err else (err, None)
            t.case(key=(cfg.code, k, "text"), sample=desc)
            if err or err2 or sp_fields(s2) != spec or not isinstance(txt, str):
                t.violation(what="Spendable text form does not round-trip", inputs=dict(desc, error=err or err2, text=(txt or "")[:200]),
                            repro=mk + "print(S.from_text(s.as_text()).as_dict(), s.as_dict())", finding_key="spendable-text-roundtrip")
            elif s2.as_text() != txt:
                t.violation(what="Spendable.from_text(text).as_text() != text", inputs=desc, repro=None, finding_key="spendable-text-roundtrip")
            # dict, directly and through JSON
            err, d = attempt(s.as_dict)
            t.case(key=(cfg.code, k, "dict"))
            if err:
                t.violation(what="Spendable.as_dict raised", inputs=dict(desc, error=err), repro=mk + "s.as_dict()", finding_key="spendable-dict-roundtrip")
            else:
                for via_json in (False, True):
                    err, dd = attempt(lambda: json.loads(json.dumps(d))) if via_json else (None, d)
                    err2, s3 = attempt(S.from_dict, dd) if not err else (err, None)
                    if err or err2 or sp_fields(s3) != spec or s3.as_dict() != d:
                        t.violation(what="Spendable dict form does not round-trip%s" % (" through JSON" if via_json else ""), inputs=dict(desc, error=err or err2, d=repr(d)[:300]),
                                    repro=mk + "print(S.from_dict(s.as_dict()).as_dict(), s.as_dict())", finding_key="spendable-dict-roundtrip")
            # binary, as_spendable=False: the plain TxOut bytes
            err, b0 = attempt(s.as_bin)
            t.case(key=(cfg.code, k, "bin_txout"))
            if err or b0 != ser_txout(v, sc):
                t.violation(what="Spendable.as_bin(as_spendable=False) is not the TxOut serialisation", inputs=dict(desc, got=err or short(b0)), repro=mk + "print(s.as_bin().hex())",
                            finding_key="spendable-bin-txout-form")
            else:
                err, o = attempt(cfg.Tx.TxOut.parse, io.BytesIO(b0))
                if err or (o.coin_value, bytes(o.script)) != (v, sc):
                    t.violation(what="TxOut.parse(Spendable.as_bin()) does not give back amount and script", inputs=dict(desc, error=err), repro=None, finding_key="spendable-bin-txout-form")
            # binary, as_spendable=True
            refb = ref_spendable_bin(spec)
            err, b1 = attempt(s.as_bin, as_spendable=True)
            t.case(key=(cfg.code, k, "bin_spendable_write"))
            if err:
                key = "spendable-stream-as-spendable-attributeerror" if err.startswith("AttributeError") else "spendable-bin-write-raises"
                t.violation(what="Spendable.as_bin(as_spendable=True) raises %s (the binary spendable form cannot be written)" % err.split(":")[0],
                            inputs=dict(desc, error=err), repro=mk + "s.as_bin(as_spendable=True)", finding_key=key)
            else:
                err, s4 = attempt(S.from_bin, b1)
                if err or sp_fields(s4) != spec:
                    t.violation(what="Spendable binary form does not round-trip (from_bin(as_bin(as_spendable=True)))", inputs=dict(desc, error=err, data=short(b1)),
                                repro=mk + "print(S.from_bin(s.as_bin(as_spendable=True)).as_dict(), s.as_dict())", finding_key="spendable-bin-roundtrip")
                if b1 != refb:
                    t.violation(what="Spendable.as_bin(as_spendable=True) does not follow the layout its parser declares (QS#LIbI)", inputs=dict(desc, got=short(b1), expected=short(refb)),
                                repro=mk + "print(s.as_bin(as_spendable=True).hex())", finding_key="spendable-bin-layout")
            err, s5 = attempt(S.from_bin, refb)
            t.case(key=(cfg.code, k, "bin_spendable_read"))
            if err or sp_fields(s5) != spec:
                t.violation(what="Spendable.from_bin of the declared binary layout does not restore the fields", inputs=dict(desc, error=err, data=short(refb), got=repr(sp_fields(s5))[:200] if not err else None),
                            repro="import sys; sys.path.insert(0,'/repo'); from pycoin.symbols.btc import network as n; print(n.tx.Spendable.from_bin(bytes.fromhex(%r)).as_dict())" % (refb.hex() if len(refb) < 400 else ""),
                            finding_key="spendable-bin-parse")
    t.exhaustive = False
    return t.result()


# ----------------------------------------------------------------------------------------------------------------
# C07.ltc_mweb_flag
# ----------------------------------------------------------------------------------------------------------------

@bounded("C07.ltc_mweb_flag", props=["C07"],
         bound="LTC tx class x seeded + boundary txs x flag byte in {0x08 (MWEB bit alone), 0x09 (MWEB + witness)} with a null MWEB body "
               "(one 00 byte before lock_time: Litecoin's HogEx marker, the only case LTCTx.parse defines)")
def c07_ltc_mweb_flag(opts):
    rng = random.Random(opts["seed"] + 3)
    thorough = opts.get("tier") == "thorough"
    t = KTally(rule="case = (tx, flag): Litecoin extended serialisation with the MWEB bit and a null MWEB tx parses to the same version, "
                    "inputs, outputs, witnesses and lock time (pycoin keeps no MWEB state, so re-serialisation yields the standard form, "
                    "which must again be the BIP144 bytes); non-trivial = all")
    T = network_for_netcode("LTC").tx
    pool = [r for _l, r in boundary_rtxs(rng, False) if len(r.ser()) < 5000 and len(r.outs) > 0]
    pool += [gen_rtx(rng, n_out=rng.choice([1, 2, 3])) for _ in range(2000 if thorough else 300)]
    for k, rtx in enumerate(pool):
        for flag in (8, 9):
            src = rtx if flag == 9 else rtx.without_witness()
            if flag == 9 and not src.has_witness():
                continue
            data = src.ser(flag=flag, tail=b"\x00")
            desc = dict(src.describe(), flag=flag)
            f = io.BytesIO(data)
            err, tx = attempt(T.parse, f)
            t.case(key=(k, flag), sample=desc)
            if err or fields_of(tx) != src.fields() or f.tell() != len(data):
                t.violation(what="LTCTx.parse of a transaction with the MWEB flag and a null MWEB body does not restore the fields",
                            inputs=dict(desc, error=err, data=short(data), consumed=f.tell()),
                            repro="import sys, io; sys.path.insert(0,'/repo'); from pycoin.symbols.ltc import network as n; tx=n.tx.parse(io.BytesIO(bytes.fromhex(%r))); print(tx.version, tx.lock_time, len(tx.txs_in), len(tx.txs_out))" % (data.hex() if len(data) < 1500 else ""),
                            finding_key="ltc-mweb-flag-parse")
                continue
            err, again = attempt(tx.as_bin)
            if err or again != src.ser():
                t.violation(what="LTC tx parsed from the MWEB-flagged form does not serialise to the standard wire bytes", inputs=dict(desc, error=err), repro=None, finding_key="ltc-mweb-flag-parse")
            err, got = attempt(tx.id)
            if err or got != rev_hex(sha256d(src.ser(with_witness=False))):
                t.violation(what="LTC tx id of an MWEB-flagged tx is not the hash of the stripped serialisation", inputs=dict(desc, error=err), repro=None, finding_key="ltc-mweb-flag-parse")
    t.exhaustive = False
    return t.result()


# ----------------------------------------------------------------------------------------------------------------
# ids and serialisation must follow the object's current fields (no stale state across calls)
# ----------------------------------------------------------------------------------------------------------------
def _rtx_of(tx):
    return RTx(tx.version, [(bytes(i.previous_hash), i.previous_index, bytes(i.script), i.sequence, tuple(bytes(w) for w in i.witness)) for i in tx.txs_in],
               [(o.coin_value, bytes(o.script)) for o in tx.txs_out], tx.lock_time)


@bounded("C07.ids_track_current_state", props=["C07"],
         bound="seeded histories on one Tx object (BTC): ask hash()/id()/w_hash()/w_id()/as_bin(), then change lock time, version, an output "
               "value, a script, a sequence, a witness (directly or through set_witness) or append an output, and ask again; quick 300 / "
               "thorough 3000 histories of 2..5 steps")
def c07_ids_history(opts):
    rng = random.Random(opts["seed"] * 1000003 + 799)
    net = network_for_netcode("BTC")
    Tx = net.tx
    t = Tally(rule="one case = one history.  After every step as_bin() is the reference serialisation of the current fields, hash()/id() "
                   "the double SHA-256 of the witness-free form and w_hash()/w_id() that of the full form (reversed hex for the ids)")

    def rb(n):
        return bytes(rng.getrandbits(8) for _ in range(n))
    for h in range(300 if opts["tier"] == "quick" else 3000):
        ins = [Tx.TxIn(rb(32), rng.randrange(4), rb(rng.randrange(0, 5)), rng.getrandbits(32)) for _ in range(rng.randrange(1, 3))]
        for i in ins:
            if rng.random() < 0.5:
                i.witness = [rb(rng.randrange(0, 4)) for _ in range(rng.randrange(1, 3))]
        tx = Tx(rng.choice([1, 2]), ins, [Tx.TxOut(rng.getrandbits(40), rb(rng.randrange(0, 6))) for _ in range(rng.randrange(1, 3))], rng.getrandbits(32))
        steps = []
        ok = True
        for step in range(rng.randrange(2, 6)):
            r = _rtx_of(tx)
            full, bare = r.ser(), r.without_witness().ser()
            want = (full, sha256d(bare), sha256d(bare)[::-1].hex(), sha256d(full), sha256d(full)[::-1].hex())
            try:
                got = (tx.as_bin(), bytes(tx.hash()), tx.id(), bytes(tx.w_hash()), tx.w_id())
            except Exception as ex:
                got = repr(ex)
            if got != want:
                which = [n for n, g, w in zip(("as_bin", "hash", "id", "w_hash", "w_id"), got if isinstance(got, tuple) else [None] * 5, want) if g != w]
                t.violation("serialisation / ids of a transaction do not follow its current fields: %s" % ", ".join(which),
                            {"history": steps, "tx": r.describe(), "differs": which}, finding_key="tx-ids-stale-or-wrong")
                ok = False
                break
            op = rng.choice(["lock_time", "version", "value", "script", "sequence", "witness", "set_witness", "append"])
            if op == "lock_time":
                tx.lock_time = rng.getrandbits(32)
            elif op == "version":
                tx.version = rng.choice([1, 2, 3])
            elif op == "value":
                tx.txs_out[rng.randrange(len(tx.txs_out))].coin_value = rng.getrandbits(40)
            elif op == "script":
                tx.txs_in[rng.randrange(len(tx.txs_in))].script = rb(rng.randrange(0, 6))
            elif op == "sequence":
                tx.txs_in[rng.randrange(len(tx.txs_in))].sequence = rng.getrandbits(32)
            elif op == "witness":
                tx.txs_in[rng.randrange(len(tx.txs_in))].witness = [rb(rng.randrange(0, 4)) for _ in range(rng.randrange(0, 3))]
            elif op == "set_witness":
                tx.set_witness(rng.randrange(len(tx.txs_in)), [rb(rng.randrange(0, 4)) for _ in range(rng.randrange(0, 3))])
            else:
                tx.txs_out.append(Tx.TxOut(rng.getrandbits(40), rb(rng.randrange(0, 6))))
            steps.append(op)
        t.case(("hist", h), nontrivial=ok and len(steps) >= 2, sample={"steps": steps})
    return t.result()
