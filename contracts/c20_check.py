"""C20: context-free transaction checks (Tx.check and helpers) against Core's CheckTransaction."""
from pyvc.api import *
from spec.core import *
from spec.wire import *
from spec.txcheck import *
from contracts.c07_tx import TX, TXIN, TXOUT
from pycoin.coins.bitcoin.Tx import Tx
from pycoin.coins.exceptions import ValidationFailureError

T = "pycoin.coins.bitcoin.Tx:Tx."


@lemma(sig=dict(xs=SeqOf(TXOUT), n=Int(), i=Int(), mm=Int(0)), induct=lambda xs, n, i, mm: n, props=["C20"])
def outs_ok_prefix(xs, n, i, mm):
    """ok for the first n outputs implies ok for every shorter prefix"""
    if 0 <= i and i < n:
        outs_ok_prefix(xs, n - 1, i, mm)
    return implies(outs_ok_upto(xs, n, mm) and 0 <= i and i <= n, outs_ok_upto(xs, i, mm))


@contract("pycoin.coins.bitcoin.TxIn:TxIn.is_coinbase")
class txin_is_coinbase:
    props = ["C20"]
    sig = dict(self=TXIN)
    returns = Bool()

    def ensures_null(self, result):
        return result == is_null_outpoint(self)

    canaries = [("self.previous_hash == ZERO", "self.previous_hash != ZERO")]


@contract(T + "is_coinbase")
class tx_is_coinbase:
    props = ["C20"]
    sig = dict(self=TX)
    returns = Bool()
    inline = True

    def ensures_cb(self, result):
        return result == is_coinbase_tx(self.txs_in)


@contract(T + "_check_txs_out")
class check_txs_out:
    props = ["C20"]
    sig = dict(self=TX)

    def _bad(self):
        return not outs_ok(self.txs_out, self.MAX_MONEY)

    raises = [(ValidationFailureError, _bad, True)]
    canaries = [("tx_out.coin_value > self.MAX_MONEY", "tx_out.coin_value >= self.MAX_MONEY"), ("nValueOut > self.MAX_MONEY", "nValueOut > self.MAX_MONEY + 1"),
                ("tx_out.coin_value < 0 or ", "")]


@invariant(T + "_check_txs_out", 0)
def _inv_outs(self, nValueOut, _i):
    n = len(self.txs_out)
    if _i < n:
        outs_ok_prefix(self.txs_out, n, _i + 1, self.MAX_MONEY)
    return (nValueOut == value_sum_upto(self.txs_out, _i), outs_ok_upto(self.txs_out, _i, self.MAX_MONEY))


@contract(T + "_check_tx_inout_count")
class check_inout_count:
    props = ["C20"]
    sig = dict(self=TX)

    def _bad(self):
        return len(self.txs_out) == 0 or len(self.txs_in) == 0

    raises = [(ValidationFailureError, _bad, True)]
    canaries = [("not self.txs_out", "False")]


def _wf_tx(self):
    return (0 <= self.version and self.version < 2 ** 32 and 0 <= self.lock_time and self.lock_time < 2 ** 32
            and all_wf_txin(self.txs_in) and all_wf_txout(self.txs_out))


@contract("pycoin.coins.Tx:Tx.as_bin")
class tx_as_bin:
    props = ["C20", "C07"]
    sig = dict(self=TX)
    returns = Bytes()

    def requires(self):
        return _wf_tx(self)

    def ensures_bytes(self, result):
        return result == ser_tx(self.version, self.txs_in, self.txs_out, self.lock_time, False, any_witness(self.txs_in))


@contract(T + "_check_size_limit")
class check_size_limit:
    props = ["C20"]
    sig = dict(self=TX)

    def requires(self):
        return _wf_tx(self)

    def _bad(self):
        return len(ser_tx(self.version, self.txs_in, self.txs_out, self.lock_time, False, any_witness(self.txs_in))) > 1000000

    raises = [(ValidationFailureError, _bad, True)]
    canaries = [("size > self.MAX_TX_SIZE", "size >= self.MAX_TX_SIZE")]


# ---------------------------------------------------------------- _check_txs_in: duplicate outpoints, null prevouts, coinbase script
XS = SeqOf(TXIN)


@lemma(sig=dict(xs=XS, i=Int(0), h=Bytes(), n=Int()), induct=lambda xs, i, h, n: i, props=["C20"])
def among_iff_contains(xs, i, h, n):
    """(h, n) is the outpoint of one of the first i inputs iff it occurs in their outpoint list"""
    if i > 0:
        among_iff_contains(xs, i - 1, h, n)
    return outpoint_among(xs, i, h, n) == ((h, n) in outpoints_upto(xs, i))


@lemma(sig=dict(xs=XS, i=Int(0), n=Int(0)), induct=lambda xs, i, n: n, props=["C20"])
def dup_mono(xs, i, n):
    if i < n:
        dup_mono(xs, i, n - 1)
    return implies(i <= n and has_duplicate_outpoint(xs, i), has_duplicate_outpoint(xs, n))


@lemma(sig=dict(xs=XS, i=Int(0), n=Int(0)), induct=lambda xs, i, n: n, props=["C20"])
def null_mono(xs, i, n):
    if i < n:
        null_mono(xs, i, n - 1)
    return implies(i <= n and has_null_outpoint(xs, i), has_null_outpoint(xs, n))


@lemma(sig=dict(xs=XS, m=Int(0), i=Int(0)), induct=lambda xs, m, i: m, props=["C20"])
def among_self(xs, m, i):
    """the outpoint of input i is among the outpoints of the first m inputs, for i < m"""
    if i < m - 1:
        among_self(xs, m - 1, i)
    return implies(0 <= i and i < m and m <= len(xs), outpoint_among(xs, m, xs[i].previous_hash, xs[i].previous_index))


@lemma(sig=dict(xs=XS, m=Int(0), x=TXIN), induct=lambda xs, m, x: m, props=["C20"])
def count_among(xs, m, x):
    """an input equal to x among the first m gives x's outpoint among their outpoints"""
    if m > 0:
        count_among(xs, m - 1, x)
    return implies(m <= len(xs) and seq_count_TxIn(xs, m, x) >= 1, outpoint_among(xs, m, x.previous_hash, x.previous_index))


@lemma(sig=dict(xs=XS, n=Int(0), i=Int(0)), induct=lambda xs, n, i: n, props=["C20"])
def count_dup(xs, n, i):
    """an input that occurs twice (as a value) among the first n makes a duplicate outpoint"""
    if i < n - 1:
        count_dup(xs, n - 1, i)
        among_self(xs, n - 1, i)
    if i == n - 1:
        count_among(xs, n - 1, xs[i])
    return implies(0 <= i and i < n and n <= len(xs) and seq_count_TxIn(xs, n, xs[i]) > 1, has_duplicate_outpoint(xs, n))


@contract(T + "_check_txs_in")
class check_txs_in:
    """raises exactly when CheckTransaction's input rules reject.  list.count on TxIn objects (identity) is bounded above
    by the count of value-equal inputs; the set of seen outpoints is modelled by the sequence of its members."""
    props = ["C20"]
    sig = dict(self=TX)

    def requires(self):
        return len(self.txs_in) >= 1

    def _bad(self):
        return txs_in_bad(self.txs_in)

    raises = [(ValidationFailureError, _bad, True)]
    canaries = [("if pair in refs:", "if False:"), ("if tx_in.is_coinbase():", "if False:"), ("2 <= len(self.txs_in[0].script) <= 100", "2 <= len(self.txs_in[0].script) <= 101")]


@invariant(T + "_check_txs_in", 'comp0', modifies=['_r'], kinds={'_r': K_TXINS})
def _dup_objects_inv(self, _r, _i):
    xs = self.txs_in
    if _i > 0:
        count_dup(xs, len(xs), _i - 1)
    return implies(len(listval(_r)) > 0, has_duplicate_outpoint(xs, len(xs)))


@invariant(T + "_check_txs_in", 0, modifies=['refs'], kinds={'refs': K_PAIRS})
def _refs_inv(self, refs, _i):
    xs = self.txs_in
    n = len(xs)
    if _i < n:
        among_iff_contains(xs, _i, xs[_i].previous_hash, xs[_i].previous_index)
        dup_mono(xs, _i + 1, n)
        null_mono(xs, _i + 1, n)
    return (setseq(refs, K_PAIRS) == outpoints_upto(xs, _i), not has_duplicate_outpoint(xs, _i), not has_null_outpoint(xs, _i))


@contract(T + "check")
class tx_check:
    props = ["C20"]
    sig = dict(self=TX)

    def requires(self):
        return _wf_tx(self)

    def _bad(self):
        return check_transaction_rejects(self.version, self.txs_in, self.txs_out, self.lock_time, self.MAX_MONEY)

    raises = [(ValidationFailureError, _bad, True)]
    canaries = [("self._check_txs_out()", "pass"), ("self._check_size_limit()", "pass")]
