"""C20: context-free transaction checks (Tx.check and helpers) against Core's CheckTransaction."""
from pyvc.api import *
from spec.core import *
from spec.wire import *
from spec.txcheck import *
from contracts.c07_tx import TX, TXIN, TXOUT
from pycoin.coins.bitcoin.Tx import Tx
from pycoin.coins.exceptions import ValidationFailureError

T = "pycoin.coins.bitcoin.Tx:Tx."


@lemma(sig=dict(xs=SeqOf(TXOUT), n=Int(), i=Int(), mm=Int(0)), induct=lambda xs, n, i, mm: n, props=["C20"])
def outs_ok_prefix(xs, n, i, mm):
    """ok for the first n outputs implies ok for every shorter prefix"""
    if 0 <= i and i < n:
        outs_ok_prefix(xs, n - 1, i, mm)
    return implies(outs_ok_upto(xs, n, mm) and 0 <= i and i <= n, outs_ok_upto(xs, i, mm))


@contract("pycoin.coins.bitcoin.TxIn:TxIn.is_coinbase")
class txin_is_coinbase:
    props = ["C20"]
    sig = dict(self=TXIN)

    def ensures_null(self, result):
        return result == is_null_outpoint(self)

    canaries = [("self.previous_hash == ZERO", "self.previous_hash != ZERO")]


@contract(T + "is_coinbase")
class tx_is_coinbase:
    props = ["C20"]
    sig = dict(self=TX)
    inline = True

    def ensures_cb(self, result):
        return result == is_coinbase_tx(self.txs_in)


@contract(T + "_check_txs_out")
class check_txs_out:
    props = ["C20"]
    sig = dict(self=TX)

    def _bad(self):
        return not outs_ok(self.txs_out, self.MAX_MONEY)

    raises = [(ValidationFailureError, _bad, True)]
    canaries = [("tx_out.coin_value > self.MAX_MONEY", "tx_out.coin_value >= self.MAX_MONEY"), ("nValueOut > self.MAX_MONEY", "nValueOut > self.MAX_MONEY + 1"),
                ("tx_out.coin_value < 0 or ", "")]


@invariant(T + "_check_txs_out", 0)
def _inv_outs(self, nValueOut, _i):
    n = len(self.txs_out)
    if _i < n:
        outs_ok_prefix(self.txs_out, n, _i + 1, self.MAX_MONEY)
    return (nValueOut == value_sum_upto(self.txs_out, _i), outs_ok_upto(self.txs_out, _i, self.MAX_MONEY))


@contract(T + "_check_tx_inout_count")
class check_inout_count:
    props = ["C20"]
    sig = dict(self=TX)

    def _bad(self):
        return len(self.txs_out) == 0 or len(self.txs_in) == 0

    raises = [(ValidationFailureError, _bad, True)]
    canaries = [("not self.txs_out", "False")]


def _wf_tx(self):
    return (0 <= self.version and self.version < 2 ** 32 and 0 <= self.lock_time and self.lock_time < 2 ** 32
            and all_wf_txin(self.txs_in) and all_wf_txout(self.txs_out))


@contract("pycoin.coins.Tx:Tx.as_bin")
class tx_as_bin:
    props = ["C20", "C07"]
    sig = dict(self=TX)
    returns = Bytes()

    def requires(self):
        return _wf_tx(self)

    def ensures_bytes(self, result):
        return result == ser_tx(self.version, self.txs_in, self.txs_out, self.lock_time, False, any_witness(self.txs_in))


@contract(T + "_check_size_limit")
class check_size_limit:
    props = ["C20"]
    sig = dict(self=TX)

    def requires(self):
        return _wf_tx(self)

    def _bad(self):
        return len(ser_tx(self.version, self.txs_in, self.txs_out, self.lock_time, False, any_witness(self.txs_in))) > 1000000

    raises = [(ValidationFailureError, _bad, True)]
    canaries = [("size > self.MAX_TX_SIZE", "size >= self.MAX_TX_SIZE")]


@contract(T + "_check_txs_in")
class check_txs_in:
    props = ["C20"]
    verify = False
    assumed_reason = ("list comprehension with list.count (object identity) and a set of (hash, index) pairs over a collection of symbolic "
                      "length are outside the engine fragment; decided bounded by C20's Tier-B harness")
    sig = dict(self=TX)

    def _bad(self):
        return txs_in_bad(self.txs_in)

    raises = [(ValidationFailureError, _bad, True)]


@contract(T + "check")
class tx_check:
    props = ["C20"]
    sig = dict(self=TX)

    def requires(self):
        return _wf_tx(self)

    def _bad(self):
        return check_transaction_rejects(self.version, self.txs_in, self.txs_out, self.lock_time, self.MAX_MONEY)

    raises = [(ValidationFailureError, _bad, True)]
    canaries = [("self._check_txs_out()", "pass"), ("self._check_size_limit()", "pass")]
