"""C12/C03: data pushes -- compile_push_data and the instruction decoder of the real BitcoinScriptStreamer."""
from pyvc.api import *
from spec.core import *
from spec.script import *
from pycoin.coins.bitcoin.ScriptStreamer import BitcoinScriptStreamer
from pycoin.coins.SolutionChecker import ScriptError

T = "pycoin.vm.ScriptStreamer:ScriptStreamer."


@contract(T + "compile_push_data")
class compile_push_data:
    slow_canaries = True
    props = ["C12"]
    sig = dict(self=Const(BitcoinScriptStreamer), data=Bytes(sample_max=300, interesting=[b"", b"\x01", b"\x10", b"\x11", b"\x81", b"\x00", bytes(75), bytes(76), bytes(255), bytes(256)]))
    returns = Bytes()
    options = {'max_paths': 400}

    def requires(self, data):
        return len(data) < 2 ** 32

    def ensures_minimal(self, data, result):
        return result == push_minimal(data)

    canaries = [("size <= max_size", "size < max_size")]


@contract(T + "get_opcode")
class get_opcode:
    slow_canaries = True
    props = ["C12", "C03"]
    sig = dict(self=Const(BitcoinScriptStreamer), script=Bytes(minlen=1, sample_max=90), pc=Int(0), verify_minimal_data=Bool())
    returns = Tup(Int(), Opt(Bytes()), Int(), Bool())
    options = {'max_paths': 3000}
    # hybrid enumeration: one full-domain symbolic proof per opcode value (the decoder table is concrete)
    cases = [("op%d" % k, (lambda k: (lambda self, script, pc, verify_minimal_data: script[pc] == k))(k)) for k in range(256)]
    case_chunk = 16

    def requires(self, script, pc, verify_minimal_data):
        return 0 <= pc and pc < len(script)

    def ensures_decode(self, script, pc, verify_minimal_data, result):
        op = script[pc]
        ok = decode_ok(script, pc)
        return (result[0] == op, result[3] == ok,
                implies(ok, result[2] == decode_newpc(script, pc)),
                implies(ok and op_is_push_with_data(op), result[1] == decode_data(script, pc)),
                implies(op_is_const_push(op), result[1] == small_int_data(op)),
                implies(not op_is_push_with_data(op) and not op_is_const_push(op), result[1] is None))

    def _nonminimal(self, script, pc, verify_minimal_data):
        op = script[pc]
        return (verify_minimal_data and op_is_push_with_data(op) and decode_ok(script, pc)
                and not check_minimal_push(decode_data(script, pc), op))

    raises = [(ScriptError, _nonminimal, True)]
    canaries = [(lambda: BitcoinScriptStreamer.decoder[5], "len(data) < size", "len(data) < size - 1")]
