"""C12/C03: data pushes -- compile_push_data and the instruction decoder of the real BitcoinScriptStreamer."""
from pyvc.api import *
from spec.core import *
from spec.script import *
from pycoin.coins.bitcoin.ScriptStreamer import BitcoinScriptStreamer
from pycoin.coins.SolutionChecker import ScriptError

T = "pycoin.vm.ScriptStreamer:ScriptStreamer."


@contract(T + "compile_push_data")
class compile_push_data:
    slow_canaries = True
    props = ["C12"]
    sig = dict(self=Const(BitcoinScriptStreamer), data=Bytes(sample_max=300, interesting=[b"", b"\x01", b"\x10", b"\x11", b"\x81", b"\x00", bytes(75), bytes(76), bytes(255), bytes(256)]))
    returns = Bytes()
    options = {'max_paths': 400}

    def requires(self, data):
        return len(data) < 2 ** 32

    def ensures_minimal(self, data, result):
        return result == push_minimal(data)

    canaries = [("size <= max_size", "size < max_size")]


@contract(T + "get_opcode")
class get_opcode:
    slow_canaries = True
    props = ["C12", "C03"]
    sig = dict(self=Const(BitcoinScriptStreamer), script=Bytes(minlen=1, sample_max=90), pc=Int(0), verify_minimal_data=Bool())
    returns = Tup(Int(), Opt(Bytes()), Int(), Bool())
    options = {'max_paths': 3000}
    # hybrid enumeration: one full-domain symbolic proof per opcode value (the decoder table is concrete)
    cases = [("op%d" % k, (lambda k: (lambda self, script, pc, verify_minimal_data: script[pc] == k))(k)) for k in range(256)]
    case_chunk = 16

    def requires(self, script, pc, verify_minimal_data):
        return 0 <= pc and pc < len(script)

    def ensures_decode(self, script, pc, verify_minimal_data, result):
        op = script[pc]
        ok = decode_ok(script, pc)
        return (result[0] == op, result[3] == ok,
                implies(ok, result[2] == decode_newpc(script, pc)),
                implies(ok and op_is_push_with_data(op), result[1] == decode_data(script, pc)),
                implies(op_is_const_push(op), result[1] == small_int_data(op)),
                implies(not op_is_push_with_data(op) and not op_is_const_push(op), result[1] is None))

    def _nonminimal(self, script, pc, verify_minimal_data):
        op = script[pc]
        return (verify_minimal_data and op_is_push_with_data(op) and decode_ok(script, pc)
                and not check_minimal_push(decode_data(script, pc), op))

    raises = [(ScriptError, _nonminimal, True)]
    canaries = [(lambda: BitcoinScriptStreamer.decoder[5], "len(data) < size", "len(data) < size - 1")]


# ---------------------------------------------------------------- the decoder reads back what compile_push_data wrote
def push_roundtrip(data, rest, verify_minimal_data):
    script = BitcoinScriptStreamer.compile_push_data(data) + rest
    return BitcoinScriptStreamer.get_opcode(script, 0, verify_minimal_data=verify_minimal_data)


@contract("contracts.c12_push:push_roundtrip")
class c_push_roundtrip:
    """decoding the minimal push of any data (followed by anything) gives the data back, stops right behind the push, reports
    it well formed, and the minimal-push rule accepts it (no exception even when minimality is demanded)"""
    props = ["C12"]
    sig = dict(data=Bytes(sample_max=80, interesting=[b"", b"\x01", b"\x10", b"\x11", b"\x81", bytes(75), bytes(76), bytes(255), bytes(256)]),
               rest=Bytes(sample_max=4), verify_minimal_data=Bool())

    cases = [("empty", lambda data, rest, verify_minimal_data: len(data) == 0),
             ("small int", lambda data, rest, verify_minimal_data: len(data) == 1 and ((1 <= data[0] and data[0] <= 16) or data[0] == 0x81)),
             ("direct", lambda data, rest, verify_minimal_data: 1 <= len(data) and len(data) <= 75 and not (len(data) == 1 and ((1 <= data[0] and data[0] <= 16) or data[0] == 0x81))),
             ("pushdata1", lambda data, rest, verify_minimal_data: 76 <= len(data) and len(data) <= 255)]
    # (for data of 256 bytes and more -- OP_PUSHDATA2 / OP_PUSHDATA4 -- the read-back clause is left undecided by every solver within
    #  the budget: those lengths are covered by the two contracts separately and by the bounded harness C12.push_roundtrip only)

    def requires(data, rest, verify_minimal_data):
        return len(data) <= 255

    def ensures_read_back(data, rest, verify_minimal_data, result):
        return (result[1] == data, result[2] == len(push_minimal(data)), result[3] == True, result[0] == push_minimal(data)[0])
