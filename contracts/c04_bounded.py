"""C04 (Tier B, bounded): signature hashes equal the consensus definition for every hash type.

Oracle: the property statement and the public definitions it names --
  * Bitcoin Core `SignatureHash` for SigVersion::BASE (legacy): CTransactionSignatureSerializer (OP_CODESEPARATOR
    skipped while serialising the script code, on opcode boundaries as walked by CScript::GetOp; other inputs get an
    empty script; SIGHASH_NONE / SIGHASH_SINGLE zero the other inputs' sequences and cut / blank the outputs;
    SIGHASH_ANYONECANPAY keeps only the signed input; masks `nHashType & 0x1f` and `nHashType & 0x80`), the value
    uint256 ONE (01 00 .. 00) for SIGHASH_SINGLE without a matching output, `FindAndDelete(scriptCode, CScript() << sig)`
    done by OP_CHECKSIG / OP_CHECKMULTISIG before hashing;
  * BIP143 for witness v0 (no FindAndDelete, no OP_CODESEPARATOR stripping);
  * Bitcoin Cash / Bitcoin Gold replay-protected digests: the BIP143 digest with `nHashType | (forkid << 8)`
    (fork id 0 resp. 79) and refusal of hash types without SIGHASH_FORKID (0x40);
  * Groestlcoin: the same preimages hashed with a single SHA256.
Everything below the line "reference implementation" is written from those definitions with hashlib only; it does not
call pycoin.  The functions under test are the real ones:
  SolutionChecker(tx)._signature_hash, ._make_sighash_f(idx) (= the `signature_for_hash_type_f` the VM calls from
  OP_CHECKSIG), ._delete_signature, .delete_subscript, ._segwit_signature_preimage, ._signature_for_hash_type_segwit,
  ._make_witness_sighash_f, the Bcash / Bgold / Groestlcoin overrides, Tx.hash(hash_type), and -- end to end --
  Tx.check_solution on inputs signed (by this file) over the *reference* digest.

Transaction classes come from network_for_netcode(c).tx for c in BTC, LTC, BCH, BTG, GRS.
"""
import hashlib
import random
import types

from pyvc.bounded import bounded, Tally

from pycoin.networks.registry import network_for_netcode
from pycoin.coins.SolutionChecker import ScriptError
from pycoin.ecdsa.secp256k1 import secp256k1_generator

MAX_PER_KEY = 3


class KTally(Tally):
    """Tally that keeps at most MAX_PER_KEY violations per finding key so one defect cannot crowd out another."""

    def __init__(self, rule):
        super().__init__(rule)
        self.per_key = {}

    def violation(self, what, inputs, repro=None, finding_key=None):
        k = finding_key or what
        self.per_key[k] = self.per_key.get(k, 0) + 1
        if self.per_key[k] <= MAX_PER_KEY:
            super().violation(what, inputs, repro, finding_key)

    def result(self):
        r = super().result()
        r["violation_counts_by_key"] = dict(self.per_key)
        return r


# ----------------------------------------------------------------------------------------------------------------
# reference implementation (stdlib only)
# ----------------------------------------------------------------------------------------------------------------

SIGHASH_ALL, SIGHASH_NONE, SIGHASH_SINGLE, SIGHASH_FORKID, SIGHASH_ANYONECANPAY = 1, 2, 3, 0x40, 0x80
OP_CODESEPARATOR = 0xab
ZERO32 = bytes(32)
ONE_LE = b"\x01" + bytes(31)       # uint256 ONE as it sits in memory / as the 32 "hash" bytes


def sha256(b):
    return hashlib.sha256(b).digest()


def sha256d(b):
    return hashlib.sha256(hashlib.sha256(b).digest()).digest()


def compact_size(n):
    if n < 0xfd:
        return bytes([n])
    if n <= 0xffff:
        return b"\xfd" + n.to_bytes(2, "little")
    if n <= 0xffffffff:
        return b"\xfe" + n.to_bytes(4, "little")
    return b"\xff" + n.to_bytes(8, "little")


def le32(n):
    return (n & 0xffffffff).to_bytes(4, "little")


def le64(n):
    return (n & 0xffffffffffffffff).to_bytes(8, "little")


class RTx(object):
    """plain transaction record: ins = [(prev_hash32, prev_index, script, sequence, witness_tuple)],
    outs = [(value, script)], spent = [(amount, script)] (one per input)"""

    def __init__(self, version, ins, outs, lock_time, spent):
        self.version, self.ins, self.outs, self.lock_time, self.spent = version, ins, outs, lock_time, spent

    def snapshot(self):
        return (self.version, tuple(self.ins), tuple(self.outs), self.lock_time, tuple(self.spent))

    def ser_stripped(self):
        out = [le32(self.version), compact_size(len(self.ins))]
        for h, i, s, q, _w in self.ins:
            out += [h, le32(i), compact_size(len(s)), s, le32(q)]
        out.append(compact_size(len(self.outs)))
        for v, s in self.outs:
            out += [le64(v), compact_size(len(s)), s]
        out.append(le32(self.lock_time))
        return b"".join(out)


def get_op(script, pc):
    """Core CScript::GetOp: (ok, new_pc, opcode).  ok False on a truncated push or at the end."""
    end = len(script)
    if pc >= end:
        return False, pc, None
    opcode = script[pc]
    pc += 1
    if opcode <= 0x4e:
        if opcode < 0x4c:
            size = opcode
        elif opcode == 0x4c:
            if end - pc < 1:
                return False, pc, None
            size = script[pc]
            pc += 1
        elif opcode == 0x4d:
            if end - pc < 2:
                return False, pc, None
            size = int.from_bytes(script[pc:pc + 2], "little")
            pc += 2
        else:
            if end - pc < 4:
                return False, pc, None
            size = int.from_bytes(script[pc:pc + 4], "little")
            pc += 4
        if end - pc < size:
            return False, pc, None
        pc += size
    return True, pc, opcode


def is_well_formed(script):
    pc = 0
    while pc < len(script):
        ok, pc, _ = get_op(script, pc)
        if not ok:
            return False
    return True


def core_push(data):
    """CScript() << std::vector<unsigned char>: size-directed push, never OP_N / OP_1NEGATE"""
    n = len(data)
    if n < 0x4c:
        return bytes([n]) + data
    if n <= 0xff:
        return b"\x4c" + bytes([n]) + data
    if n <= 0xffff:
        return b"\x4d" + n.to_bytes(2, "little") + data
    return b"\x4e" + n.to_bytes(4, "little") + data


def find_and_delete(script, b):
    """Core FindAndDelete(script, b): remove every occurrence of b that starts on an opcode boundary"""
    if len(b) == 0:
        return script
    result = bytearray()
    pc = pc2 = 0
    end = len(script)
    found = 0
    while True:
        result += script[pc2:pc]
        while end - pc >= len(b) and script[pc:pc + len(b)] == b:
            pc += len(b)
            found += 1
        pc2 = pc
        ok, pc, _ = get_op(script, pc)
        if not ok:
            break
    if found > 0:
        result += script[pc2:end]
        return bytes(result)
    return script


def strip_codeseparators(script):
    """what CTransactionSignatureSerializer::SerializeScriptCode writes (without the length prefix)"""
    out = bytearray()
    it = begin = 0
    while True:
        ok, nxt, opcode = get_op(script, it)
        if not ok:
            break
        it = nxt
        if opcode == OP_CODESEPARATOR:
            out += script[begin:it - 1]
            begin = it
    out += script[begin:]
    return bytes(out)


def legacy_preimage(rtx, script_code, n_in, hash_type):
    """serialisation hashed by SignatureHash (SigVersion::BASE), or None for the SIGHASH_SINGLE 'ONE' case"""
    base = hash_type & 0x1f
    anyone = bool(hash_type & SIGHASH_ANYONECANPAY)
    single = base == SIGHASH_SINGLE
    none = base == SIGHASH_NONE
    if single and n_in >= len(rtx.outs):
        return None
    code = strip_codeseparators(script_code)
    out = [le32(rtx.version)]
    n_inputs = 1 if anyone else len(rtx.ins)
    out.append(compact_size(n_inputs))
    for k in range(n_inputs):
        j = n_in if anyone else k
        h, i, _s, q, _w = rtx.ins[j]
        out += [h, le32(i)]
        if j == n_in:
            out += [compact_size(len(code)), code, le32(q)]
        else:
            out += [compact_size(0), le32(0 if (single or none) else q)]
    n_outputs = 0 if none else (n_in + 1 if single else len(rtx.outs))
    out.append(compact_size(n_outputs))
    for k in range(n_outputs):
        if single and k != n_in:
            out += [b"\xff" * 8, compact_size(0)]       # CTxOut(): nValue = -1, empty script
        else:
            v, s = rtx.outs[k]
            out += [le64(v), compact_size(len(s)), s]
    out += [le32(rtx.lock_time), le32(hash_type)]
    return b"".join(out)


def legacy_digest(rtx, script_code, n_in, hash_type, H=sha256d):
    pre = legacy_preimage(rtx, script_code, n_in, hash_type)
    return ONE_LE if pre is None else H(pre)


def legacy_checksig_digest(rtx, script, begin_code_hash, sig_blobs, n_in, hash_type, H=sha256d):
    """digest OP_CHECKSIG / OP_CHECKMULTISIG hash for a legacy script: script code from the last executed
    OP_CODESEPARATOR, every signature being checked FindAndDelete'd, then SignatureHash"""
    code = script[begin_code_hash:]
    for sig in sig_blobs:
        code = find_and_delete(code, core_push(sig))
    return legacy_digest(rtx, code, n_in, hash_type, H)


def bip143_preimage(rtx, script_code, n_in, hash_type32, H=sha256d):
    """BIP143; hash_type32 is the 4-byte value written at the end, its low byte selects the blanking"""
    base = hash_type32 & 0x1f
    anyone = bool(hash_type32 & SIGHASH_ANYONECANPAY)
    if not anyone:
        hash_prevouts = H(b"".join(h + le32(i) for h, i, _s, _q, _w in rtx.ins))
    else:
        hash_prevouts = ZERO32
    if not anyone and base != SIGHASH_SINGLE and base != SIGHASH_NONE:
        hash_sequence = H(b"".join(le32(q) for _h, _i, _s, q, _w in rtx.ins))
    else:
        hash_sequence = ZERO32
    if base != SIGHASH_SINGLE and base != SIGHASH_NONE:
        hash_outputs = H(b"".join(le64(v) + compact_size(len(s)) + s for v, s in rtx.outs))
    elif base == SIGHASH_SINGLE and n_in < len(rtx.outs):
        v, s = rtx.outs[n_in]
        hash_outputs = H(le64(v) + compact_size(len(s)) + s)
    else:
        hash_outputs = ZERO32
    h, i, _s, q, _w = rtx.ins[n_in]
    amount = rtx.spent[n_in][0]
    return b"".join([le32(rtx.version), hash_prevouts, hash_sequence, h, le32(i), compact_size(len(script_code)),
                     script_code, le64(amount), le32(q), hash_outputs, le32(rtx.lock_time), le32(hash_type32)])


def as_int(h32):
    """pycoin hands the 32 hash bytes to ECDSA as a big-endian integer"""
    return int.from_bytes(h32, "big")


# ----------------------------------------------------------------------------------------------------------------
# configurations
# ----------------------------------------------------------------------------------------------------------------

class Cfg(object):
    def __init__(self, code, H, legacy_style, fork_id):
        self.code = code
        self.Tx = network_for_netcode(code).tx
        self.H = H                      # hash used for every digest of this coin
        self.legacy_style = legacy_style  # 'legacy' | 'forkid'
        self.fork_id = fork_id          # folded into the hash type as fork_id << 8 (None: nothing folded)


def configs():
    return [Cfg("BTC", sha256d, "legacy", None), Cfg("LTC", sha256d, "legacy", None),
            Cfg("BCH", sha256d, "forkid", 0), Cfg("BTG", sha256d, "forkid", 79),
            Cfg("GRS", sha256, "legacy", None)]


def build(cfg, rtx):
    T = cfg.Tx
    txs_in = []
    for h, i, s, q, w in rtx.ins:
        ti = T.TxIn(h, i, s, q)
        ti.witness = list(w)
        txs_in.append(ti)
    tx = T(rtx.version, txs_in, [T.TxOut(v, s) for v, s in rtx.outs], rtx.lock_time)
    tx.set_unspents([T.TxOut(v, s) for v, s in rtx.spent])
    return tx


def observe(tx):
    """everything observable about a pycoin tx (fields, witnesses, unspents, and its serialisations)"""
    fields = (tx.version,
              tuple((bytes(t.previous_hash), t.previous_index, bytes(t.script), t.sequence, tuple(bytes(x) for x in t.witness))
                    for t in tx.txs_in),
              tuple((o.coin_value, bytes(o.script)) for o in tx.txs_out), tx.lock_time,
              tuple((u.coin_value, bytes(u.script)) for u in tx.unspents))
    return fields, tx.as_bin(), tx.as_bin(include_unspents=True)


def expected_segwit_digest(cfg, rtx, code, n_in, ht):
    """digest _signature_for_hash_type_segwit must return (fork id folded for BTG)"""
    ht32 = ht | ((cfg.fork_id or 0) << 8)
    return cfg.H(bip143_preimage(rtx, code, n_in, ht32, cfg.H))


def call(f, *a):
    try:
        return ("ok", f(*a))
    except ScriptError:
        return ("ScriptError", None)
    except Exception as e:          # anything else is reported as such
        return ("raised " + type(e).__name__, None)


# ----------------------------------------------------------------------------------------------------------------
# generators
# ----------------------------------------------------------------------------------------------------------------

NONPUSH_OPS = [0x4f, 0x51, 0x52, 0x60, 0x61, 0x63, 0x67, 0x68, 0x69, 0x6a, 0x75, 0x76, 0x87, 0x88, 0xa9, 0xac, 0xad, 0xae,
               0xaf, 0xb1, 0xb2, 0xba, 0xff, 0x00]


def rbytes(rng, n):
    return bytes(rng.getrandbits(8) for _ in range(n)) if n < 64 else rng.getrandbits(8 * n).to_bytes(n, "big")


def gen_sig(rng, size=None, ht=None):
    """a signature blob as OP_CHECKSIG pops it: DER-looking body + hash-type byte (size 0: the empty signature)"""
    if size is None:
        size = rng.choice([9, 70, 71, 72, 73])
    if size == 0:
        return b""
    body = (b"\x30" + bytes([(size - 3) & 0xff]) + rbytes(rng, size))[:size - 1]
    return body + bytes([rng.randrange(256) if ht is None else ht])


def gen_push(rng, data, form=None):
    """a well-formed push of data; form None = size-directed (as Core writes it) else forced PUSHDATA1/2/4"""
    if form is None:
        return core_push(data)
    if form == 1:
        return b"\x4c" + bytes([len(data)]) + data
    if form == 2:
        return b"\x4d" + len(data).to_bytes(2, "little") + data
    return b"\x4e" + len(data).to_bytes(4, "little") + data


def gen_script(rng, sigs=(), codeseps=True, target_len=None, max_ops=12):
    """well-formed script code: random opcodes and pushes, OP_CODESEPARATORs on opcode boundaries, 0xab bytes and
    signature bytes *inside* push data (must stay), the signatures pushed canonically (must go) and non-canonically
    (must stay)"""
    parts = []
    n_ops = rng.randrange(0, max_ops + 1)
    for _ in range(n_ops):
        r = rng.random()
        if r < 0.30:
            parts.append(bytes([rng.choice(NONPUSH_OPS)]))
        elif r < 0.45 and codeseps:
            parts.append(b"\xab")
        elif r < 0.60:
            d = rbytes(rng, rng.choice([1, 2, 20, 32, 33, 65, 75]))
            if rng.random() < 0.5:
                d = d[:len(d) // 2] + b"\xab" + d[len(d) // 2 + 1:]
            parts.append(gen_push(rng, d))
        elif r < 0.68:
            d = rbytes(rng, rng.choice([0, 3, 76, 200, 255, 256, 300]))
            parts.append(gen_push(rng, d, form=rng.choice([None, 1 if len(d) < 256 else 2, 2, 4])))
        elif r < 0.85 and sigs:
            parts.append(core_push(rng.choice(sigs)))
        elif r < 0.90 and sigs:
            s = rng.choice(sigs)
            if len(s) < 256:
                parts.append(gen_push(rng, s, form=1 if len(s) < 0x4c else 2))      # non-minimal push of the sig: stays
        elif r < 0.95 and sigs:
            s = rng.choice(sigs)
            parts.append(gen_push(rng, b"\x07" + core_push(s) + b"\xab"))           # sig push bytes inside data: stays
        else:
            parts.append(bytes([rng.choice(NONPUSH_OPS)]))
    script = b"".join(parts)
    if target_len is not None:
        if len(script) > target_len:
            script = b""
        pad = target_len - len(script)
        # pad with one-byte opcodes and, if large, one big push
        if pad >= 80:
            hdr = 3
            d = rbytes(rng, pad - hdr - 2)
            script += b"\x4d" + len(d).to_bytes(2, "little") + d if len(d) <= 0xffff else b"\x4e" + (len(d) - 2).to_bytes(4, "little") + d[:-2]
            pad = target_len - len(script)
        script += bytes(rng.choice([0x51, 0x75, 0xab] if codeseps else [0x51, 0x75]) for _ in range(pad))
    assert is_well_formed(script), script.hex()
    return script


def gen_malformed(rng, sigs=()):
    """well-formed prefix, then a truncated push, then bytes that *look* like code separators / signature pushes"""
    prefix = gen_script(rng, sigs, max_ops=6)
    kind = rng.randrange(4)
    tail = rbytes(rng, rng.randrange(0, 6)) + b"\xab" * rng.randrange(0, 3)
    if sigs and rng.random() < 0.5:
        tail += core_push(rng.choice(sigs))[:rng.choice([3, 10, 400])]
    if kind == 0:
        bad = bytes([len(tail) + 1 + rng.randrange(0, 40)]) if len(tail) + 1 < 0x4c else b"\x4b"
        bad = bytes([min(0x4b, bad[0])])
        tail = tail[:bad[0] - 1]
    elif kind == 1:
        bad = b"\x4c" + bytes([min(255, len(tail) + 1 + rng.randrange(0, 100))])
        tail = tail[:bad[1] - 1]
    elif kind == 2:
        bad = b"\x4d" + (len(tail) + 1 + rng.randrange(0, 1000)).to_bytes(2, "little")
    else:
        bad = rng.choice([b"\x4c", b"\x4d", b"\x4d\x01", b"\x4e", b"\x4e\x01\x00", b"\x4e\xff\xff\xff\x7f"])
        if len(bad) + len(tail) >= 5 or bad == b"\x4c":
            tail = b""
    script = prefix + bad + tail
    if is_well_formed(script):
        return None
    return script


SCRIPT_LENS_Q = [0, 1, 0xfc, 0xfd, 0xfe, 0x100]
AMOUNTS = [0, 1, 546, 21 * 10 ** 14, 2 ** 63 - 1, 2 ** 63, 2 ** 64 - 1]
VERSIONS = [0, 1, 2, 0x7fffffff, 0x80000000, 0xffffffff]
LOCKS = [0, 1, 499999999, 500000000, 0xfffffffe, 0xffffffff]
SEQS = [0, 1, 0xfffffffd, 0xfffffffe, 0xffffffff, 0x00400001, 0x80000000]


def gen_rtx(rng, n_in=None, n_out=None, big=False):
    n_in = rng.randrange(1, 5) if n_in is None else n_in
    n_out = rng.randrange(0, 5) if n_out is None else n_out
    lens = SCRIPT_LENS_Q + ([0xffff, 0x10000] if big else [])
    ins, spent = [], []
    for _ in range(n_in):
        h = rbytes(rng, 32) if rng.random() < 0.9 else ZERO32
        i = rng.choice([0, 1, 7, 0xffffffff, rng.getrandbits(32)])
        s = rbytes(rng, rng.choice(lens) if rng.random() < 0.3 else rng.randrange(0, 120))
        q = rng.choice(SEQS + [rng.getrandbits(32)])
        w = tuple(rbytes(rng, rng.choice([0, 1, 33, 72, 300])) for _ in range(rng.choice([0, 0, 1, 2, 3])))
        ins.append((h, i, s, q, w))
        spent.append((rng.choice(AMOUNTS + [rng.getrandbits(64), rng.getrandbits(40)]), rbytes(rng, rng.choice([0, 22, 23, 25, 34]))))
    outs = []
    for _ in range(n_out):
        v = rng.choice(AMOUNTS + [rng.getrandbits(64), rng.getrandbits(40)])
        s = rbytes(rng, rng.choice(lens) if rng.random() < 0.35 else rng.randrange(0, 80))
        outs.append((v, s))
    return RTx(rng.choice(VERSIONS + [rng.getrandbits(32)]), ins, outs, rng.choice(LOCKS + [rng.getrandbits(32)]), spent)


def tx_shapes(rng, extra, big_every=0):
    """all (inputs 1..4) x (outputs 0..4) shapes once, then `extra` seeded shapes"""
    k = 0
    for n_in in range(1, 5):
        for n_out in range(0, 5):
            k += 1
            yield gen_rtx(rng, n_in, n_out, big=bool(big_every) and k % big_every == 0)
    for _ in range(extra):
        k += 1
        yield gen_rtx(rng, big=bool(big_every) and k % big_every == 0)


def repro_tx(cfg, rtx):
    return ("import sys; sys.path.insert(0,'/repo'); from pycoin.networks.registry import network_for_netcode; "
            "T=network_for_netcode(%r).tx; tx=T(%d,[T.TxIn(bytes.fromhex(h),i,bytes.fromhex(s),q) for h,i,s,q in %r],"
            "[T.TxOut(v,bytes.fromhex(s)) for v,s in %r],%d); tx.set_unspents([T.TxOut(v,bytes.fromhex(s)) for v,s in %r]); "
            "sc=T.SolutionChecker(tx); "
            % (cfg.code, rtx.version, [(h.hex(), i, s.hex() if len(s) < 300 else "00" * len(s), q) for h, i, s, q, _w in rtx.ins],
               [(v, s.hex()) for v, s in rtx.outs], rtx.lock_time, [(v, s.hex()) for v, s in rtx.spent]))


# ----------------------------------------------------------------------------------------------------------------
# C04.legacy_digest : _signature_hash (BTC, LTC, GRS) for every hash type byte
# ----------------------------------------------------------------------------------------------------------------

@bounded("C04.legacy_digest", props=["C04"],
         bound="BTC, LTC, GRS tx classes x all 20 shapes (1..4 inputs x 0..4 outputs) + seeded shapes x every input index x "
               "script codes (well-formed, with/without OP_CODESEPARATOR, lengths across 0xfc/0xfd[/0xffff/0x10000]) x all 256 "
               "hash-type bytes; malformed script codes separately keyed; tx unchanged afterwards")
def c04_legacy_digest(opts):
    rng = random.Random(opts["seed"])
    thorough = opts.get("tier") == "thorough"
    t = KTally(rule="case = (coin, tx shape+content, input index, script code, hash-type byte); digest returned by the real "
                    "SolutionChecker._signature_hash compared with an independent transcription of Core SignatureHash "
                    "(SigVersion::BASE; single SHA256 for GRS); non-trivial = every case (all 256 bytes are distinct masks/"
                    "trailers); the SIGHASH_SINGLE-without-output constant and 0x1f/0x80 masking are hit by construction")
    cfgs = [c for c in configs() if c.legacy_style == "legacy"]
    n_extra = 60 if thorough else 6
    for ti, rtx in enumerate(tx_shapes(rng, n_extra, big_every=7 if thorough else 19)):
        sigs = [gen_sig(rng) for _ in range(2)]
        codes = [gen_script(rng, sigs, codeseps=False), gen_script(rng, sigs, codeseps=True),
                 gen_script(rng, sigs, codeseps=True, target_len=rng.choice([0xfc, 0xfd, 0xfe, 0x100]))]
        if ti % 5 == 0:
            codes.append(b"\xab" * rng.choice([1, 2, 0xfd]))
            codes.append(b"")
        if thorough and ti % 9 == 0:
            codes.append(gen_script(rng, sigs, codeseps=True, target_len=rng.choice([0xffff, 0x10000, 0x10001])))
        bad_codes = [c for c in (gen_malformed(rng, sigs) for _ in range(2)) if c is not None]
        for cfg in cfgs:
            if not thorough and cfg.code != "BTC" and ti % 2:
                continue
            tx = build(cfg, rtx)
            before = observe(tx)
            sc = cfg.Tx.SolutionChecker(tx)
            for n_in in range(len(rtx.ins)):
                for ci, code in enumerate(codes + bad_codes):
                    malformed = ci >= len(codes)
                    for ht in range(256):
                        exp = as_int(legacy_digest(rtx, code, n_in, ht, cfg.H))
                        st, got = call(sc._signature_hash, code, n_in, ht)
                        t.case(key=(cfg.code, ti, n_in, ci, ht), sample={"coin": cfg.code, "n_in": len(rtx.ins), "n_out": len(rtx.outs),
                                                                         "idx": n_in, "code_len": len(code), "ht": ht})
                        if st != "ok" or got != exp:
                            if malformed:
                                what, key = "legacy digest differs from Core on a script code with a truncated push (Core stops walking opcodes there; 0xab bytes behind it stay)", "sighash-malformed-scriptcode-opcode-walk"
                            elif (ht & 0x1f) == SIGHASH_SINGLE and n_in >= len(rtx.outs):
                                what, key = "SIGHASH_SINGLE without matching output: digest is not the constant ONE", "sighash-legacy-single-one-constant"
                            else:
                                what, key = "legacy signature hash differs from Core SignatureHash", "sighash-legacy-digest-mismatch"
                            t.violation(what="%s [%s]" % (what, cfg.code),
                                        inputs={"coin": cfg.code, "idx": n_in, "hash_type": ht, "script_code": code.hex()[:400], "got": (st, got), "expected": exp},
                                        repro=repro_tx(cfg, rtx) + "print(sc._signature_hash(bytes.fromhex(%r), %d, %d))  # expected %d" % (code.hex() if len(code) < 600 else "", n_in, ht, exp),
                                        finding_key=key)
            after = observe(tx)
            t.case(key=(cfg.code, ti, "unchanged"), sample=None)
            if after != before or before[0] != rtx.snapshot():
                t.violation(what="transaction modified by computing legacy signature hashes [%s]" % cfg.code,
                            inputs={"before": repr(before)[:300], "after": repr(after)[:300]},
                            repro=repro_tx(cfg, rtx) + "b=tx.as_bin(); [sc._signature_hash(b'\\x51', 0, h) for h in range(256)]; print(tx.as_bin()==b)",
                            finding_key="sighash-modifies-transaction")
    t.exhaustive = False
    return t.result()


# ----------------------------------------------------------------------------------------------------------------
# C04.find_and_delete : the function the VM calls from OP_CHECKSIG (script from the last executed OP_CODESEPARATOR,
# signature removal, then the digest)
# ----------------------------------------------------------------------------------------------------------------

ONE_BYTE_CONST_SIGS = [bytes([b]) for b in list(range(1, 17)) + [0x81]]


@bounded("C04.find_and_delete", props=["C04"],
         bound="BTC, LTC, GRS: seeded txs x input indices x scripts with embedded canonical / non-canonical / in-data signature "
               "pushes and OP_CODESEPARATORs x begin_code_hash positions x 1..3 signatures being checked (sizes 9..73, 75, 76, "
               "255, 256; empty; 1-byte) x sampled hash types; _delete_signature / delete_subscript alone on every script")
def c04_find_and_delete(opts):
    rng = random.Random(opts["seed"] + 1)
    thorough = opts.get("tier") == "thorough"
    t = KTally(rule="case = (coin, tx, input index, script, begin_code_hash, signatures, hash type); the real "
                    "_make_sighash_f(idx)(hash_type, sig_blobs, vm) is compared with Core: FindAndDelete(scriptCode, CScript()<<sig) "
                    "for each signature then SignatureHash; non-trivial = the script contains at least one deletable push or code "
                    "separator; malformed scripts and 1-byte signatures whose Core push differs from the OP_N form are keyed separately")
    cfgs = [c for c in configs() if c.legacy_style == "legacy"]
    n_tx = 120 if thorough else 24
    hts_fixed = [0, 1, 2, 3, 0x41, 0x80, 0x81, 0x82, 0x83, 0x1f, 0x22, 0x23, 0xff]
    for ti in range(n_tx):
        rtx = gen_rtx(rng)
        sizes = [None, None, rng.choice([75, 76, 255, 256, 0, 10, 1])]
        sigs = [gen_sig(rng, size=s) for s in sizes]
        if ti % 4 == 0:
            sigs.append(rng.choice(ONE_BYTE_CONST_SIGS))
        scripts = [(gen_script(rng, sigs, codeseps=True, max_ops=16), False) for _ in range(3)]
        scripts += [(s, True) for s in (gen_malformed(rng, sigs) for _ in range(2)) if s is not None]
        cfg = cfgs[ti % len(cfgs)] if not thorough else None
        for cfg in ([cfg] if cfg else cfgs):
            tx = build(cfg, rtx)
            before = observe(tx)
            sc = cfg.Tx.SolutionChecker(tx)
            for si, (script, malformed) in enumerate(scripts):
                # opcode boundaries (positions the VM can set begin_code_hash to: just after an executed OP_CODESEPARATOR)
                bounds = [0]
                pc = 0
                while True:
                    ok, pc, op = get_op(script, pc)
                    if not ok:
                        break
                    if op == OP_CODESEPARATOR:
                        bounds.append(pc)
                # the primitive alone
                for sig in sigs:
                    exp = find_and_delete(script, core_push(sig))
                    st, got = call(sc._delete_signature, script, sig)
                    onebyte = sig in ONE_BYTE_CONST_SIGS
                    t.case(key=(cfg.code, ti, si, "del", sig), nontrivial=exp != script,
                           sample={"script": script.hex()[:80], "sig_len": len(sig), "removed": len(script) - len(exp)})
                    if st != "ok" or got != exp:
                        if malformed:
                            what, key = "_delete_signature differs from Core FindAndDelete on a script with a truncated push", "sighash-malformed-scriptcode-opcode-walk"
                        elif onebyte:
                            what, key = "1-byte signature 0x01..0x10/0x81: pycoin deletes OP_N/OP_1NEGATE, Core deletes the push `01 xx` (digest-only divergence; such a signature can never verify)", "sighash-findanddelete-onebyte-sig-uses-op-n"
                        else:
                            what, key = "_delete_signature differs from Core FindAndDelete(scriptCode, CScript() << sig)", "sighash-findanddelete-mismatch"
                        t.violation(what=what, inputs={"script": script.hex()[:600], "sig": sig.hex(), "got": (st, got.hex()[:600] if got is not None else None), "expected": exp.hex()[:600]},
                                    repro="import sys; sys.path.insert(0,'/repo'); from pycoin.symbols.btc import network as n; tx=n.tx(1,[n.tx.TxIn(bytes(32),0)],[]); "
                                          "print(n.tx.SolutionChecker(tx)._delete_signature(bytes.fromhex(%r), bytes.fromhex(%r)).hex())  # Core: %s" % (script.hex()[:2000], sig.hex(), exp.hex()[:2000]),
                                    finding_key=key)
                exp = strip_codeseparators(script) if not malformed else None
                if exp is not None:
                    st, got = call(cfg.Tx.SolutionChecker.delete_subscript, script, b"\xab")
                    t.case(key=(cfg.code, ti, si, "codesep"), nontrivial=exp != script)
                    if st != "ok" or got != exp:
                        t.violation(what="delete_subscript(script, OP_CODESEPARATOR) does not strip exactly the code separators on opcode boundaries",
                                    inputs={"script": script.hex()[:600], "got": (st, got.hex()[:600] if got is not None else None), "expected": exp.hex()[:600]},
                                    repro=None, finding_key="sighash-codeseparator-strip-mismatch")
                # the whole digest as OP_CHECKSIG / OP_CHECKMULTISIG obtain it
                for n_in in range(len(rtx.ins)):
                    f = sc._make_sighash_f(n_in)
                    for begin in bounds:
                        vm = types.SimpleNamespace(script=script, begin_code_hash=begin)
                        for blobs in ([sigs[0]], [sigs[1], sigs[0]], list(sigs[:3]), [sigs[-1]], []):
                            hts = hts_fixed + ([b[-1] for b in blobs if b]) + [rng.randrange(256)]
                            onebyte = any(b in ONE_BYTE_CONST_SIGS for b in blobs)
                            for ht in hts:
                                exp = as_int(legacy_checksig_digest(rtx, script, begin, blobs, n_in, ht, cfg.H))
                                st, got = call(f, ht, list(blobs), vm)
                                code0 = script[begin:]
                                nontriv = any(find_and_delete(code0, core_push(b)) != code0 for b in blobs) or strip_codeseparators(code0) != code0
                                t.case(key=(cfg.code, ti, si, n_in, begin, tuple(blobs), ht), nontrivial=nontriv)
                                if st != "ok" or got != exp:
                                    if malformed:
                                        what, key = "OP_CHECKSIG digest differs from Core on a script with a truncated push", "sighash-malformed-scriptcode-opcode-walk"
                                    elif onebyte:
                                        what, key = "OP_CHECKSIG digest with a 1-byte signature 0x01..0x10/0x81 differs (OP_N deleted instead of `01 xx`; never verifiable)", "sighash-findanddelete-onebyte-sig-uses-op-n"
                                    else:
                                        what, key = "OP_CHECKSIG digest (code after last OP_CODESEPARATOR, signatures removed) differs from Core", "sighash-checksig-digest-mismatch"
                                    t.violation(what="%s [%s]" % (what, cfg.code),
                                                inputs={"coin": cfg.code, "idx": n_in, "hash_type": ht, "script": script.hex()[:400], "begin_code_hash": begin,
                                                        "sigs": [b.hex() for b in blobs], "got": (st, got), "expected": exp},
                                                repro=repro_tx(cfg, rtx) + "import types; vm=types.SimpleNamespace(script=bytes.fromhex(%r), begin_code_hash=%d); "
                                                      "print(sc._make_sighash_f(%d)(%d, [bytes.fromhex(x) for x in %r], vm))  # expected %d"
                                                      % (script.hex()[:3000], begin, n_in, ht, [b.hex() for b in blobs], exp),
                                                finding_key=key)
            t.case(key=(cfg.code, ti, "unchanged"), sample=None)
            if observe(tx) != before or before[0] != rtx.snapshot():
                t.violation(what="transaction modified by computing OP_CHECKSIG digests [%s]" % cfg.code, inputs=repr(before)[:300],
                            repro=None, finding_key="sighash-modifies-transaction")
    t.exhaustive = False
    return t.result()


# ----------------------------------------------------------------------------------------------------------------
# C04.bip143 : witness v0 digest + fork-id variants + Groestlcoin
# ----------------------------------------------------------------------------------------------------------------

@bounded("C04.bip143_and_forkid", props=["C04"],
         bound="BTC, LTC, BCH, BTG, GRS tx classes x all 20 shapes + seeded shapes x every input index x script codes (with code "
               "separators and signature pushes, which must stay) x amounts {0,1,546,MAX_MONEY,2^63-1,2^63,2^64-1,random} x all "
               "256 hash-type bytes: BIP143 preimage bytes and digest; BCH/BTG _signature_hash = BIP143 with fork id folded, "
               "ScriptError iff bit 0x40 clear; (BTG witness digest only checked for bytes with 0x40 set)")
def c04_bip143_and_forkid(opts):
    rng = random.Random(opts["seed"] + 2)
    thorough = opts.get("tier") == "thorough"
    t = KTally(rule="case = (coin, tx, input index, script code, spent amount, hash-type byte, function); preimage compared byte for "
                    "byte with an independent BIP143 transcription, digests with (single for GRS, else double) SHA256 of it; "
                    "non-trivial = every case")
    cfgs = configs()
    n_extra = 60 if thorough else 4
    for ti, rtx in enumerate(tx_shapes(rng, n_extra, big_every=7 if thorough else 19)):
        # make sure every boundary amount is used as the spent amount of some input of some tx
        rtx.spent = [(AMOUNTS[(ti + k) % len(AMOUNTS)] if (ti + k) % 3 else a, s) for k, (a, s) in enumerate(rtx.spent)]
        sigs = [gen_sig(rng)]
        codes = [gen_script(rng, sigs, codeseps=True), gen_script(rng, sigs, codeseps=True, target_len=rng.choice([0, 1, 0xfc, 0xfd, 0xfe, 0x100]))]
        if thorough and ti % 9 == 0:
            codes.append(gen_script(rng, sigs, codeseps=True, target_len=rng.choice([0xffff, 0x10000])))
        if ti % 6 == 0:
            bad = gen_malformed(rng, sigs)      # BIP143 takes the script code as raw bytes: malformed ones are hashed as they are
            if bad is not None:
                codes.append(bad)
        for cfg in cfgs:
            if not thorough and cfg.code in ("LTC",) and ti % 3:
                continue
            tx = build(cfg, rtx)
            before = observe(tx)
            sc = cfg.Tx.SolutionChecker(tx)
            for n_in in range(len(rtx.ins)):
                for ci, code in enumerate(codes):
                    vm = types.SimpleNamespace(script=b"\x51\xab" + code, begin_code_hash=2)
                    wf = sc._make_witness_sighash_f(n_in)
                    for ht in range(256):
                        amount = rtx.spent[n_in][0]
                        # (a) raw BIP143 preimage for the value handed in
                        exp_pre = bip143_preimage(rtx, code, n_in, ht, cfg.H)
                        st, got = call(sc._segwit_signature_preimage, code, n_in, ht)
                        t.case(key=(cfg.code, ti, n_in, ci, ht, "pre"), sample={"coin": cfg.code, "idx": n_in, "amount": amount, "ht": ht, "code_len": len(code)})
                        if st != "ok" or got != exp_pre:
                            t.violation(what="BIP143 preimage differs [%s]" % cfg.code,
                                        inputs={"coin": cfg.code, "idx": n_in, "hash_type": ht, "amount": amount, "script_code": code.hex()[:300],
                                                "got": (st, got.hex() if got is not None else None), "expected": exp_pre.hex()},
                                        repro=repro_tx(cfg, rtx) + "print(sc._segwit_signature_preimage(bytes.fromhex(%r), %d, %d).hex())  # expected %s" % (code.hex()[:3000], n_in, ht, exp_pre.hex()[:3000]),
                                        finding_key="sighash-bip143-preimage-mismatch" if cfg.code != "GRS" else "sighash-bip143-preimage-mismatch-grs")
                        # (b) witness digest
                        if cfg.fork_id and not ht & SIGHASH_FORKID:
                            pass    # BTG witness signatures without the fork-id bit: oracle not given by the statement; not evaluated
                        else:
                            exp = as_int(expected_segwit_digest(cfg, rtx, code, n_in, ht))
                            st, got = call(sc._signature_for_hash_type_segwit, code, n_in, ht)
                            st2, got2 = call(wf, ht, [sigs[0]], vm)
                            t.case(key=(cfg.code, ti, n_in, ci, ht, "wdig"))
                            if st != "ok" or got != exp or st2 != "ok" or got2 != exp:
                                t.violation(what="witness v0 digest differs from BIP143%s [%s]" % (" with fork id folded" if cfg.fork_id else "", cfg.code),
                                            inputs={"coin": cfg.code, "idx": n_in, "hash_type": ht, "amount": amount, "script_code": code.hex()[:300], "got": (st, got), "got_via_vm": (st2, got2), "expected": exp},
                                            repro=repro_tx(cfg, rtx) + "print(sc._signature_for_hash_type_segwit(bytes.fromhex(%r), %d, %d))  # expected %d" % (code.hex()[:3000], n_in, ht, exp),
                                            finding_key="sighash-bip143-digest-mismatch-%s" % cfg.code.lower())
                        # (c) fork-id coins: the non-witness digest
                        if cfg.legacy_style == "forkid":
                            st, got = call(sc._signature_hash, code, n_in, ht)
                            t.case(key=(cfg.code, ti, n_in, ci, ht, "forkid"))
                            if not ht & SIGHASH_FORKID:
                                if st != "ScriptError":
                                    t.violation(what="hash type without SIGHASH_FORKID not refused with ScriptError [%s]" % cfg.code,
                                                inputs={"coin": cfg.code, "hash_type": ht, "got": (st, got)},
                                                repro=repro_tx(cfg, rtx) + "print(sc._signature_hash(b'\\x51', %d, %d))  # expected ScriptError" % (n_in, ht),
                                                finding_key="sighash-forkid-not-refused-%s" % cfg.code.lower())
                            else:
                                exp = as_int(sha256d(bip143_preimage(rtx, code, n_in, ht | (cfg.fork_id << 8))))
                                if st != "ok" or got != exp:
                                    t.violation(what="fork-id digest is not BIP143 with hash type | (forkid << 8) [%s]" % cfg.code,
                                                inputs={"coin": cfg.code, "idx": n_in, "hash_type": ht, "amount": amount, "script_code": code.hex()[:300], "got": (st, got), "expected": exp},
                                                repro=repro_tx(cfg, rtx) + "print(sc._signature_hash(bytes.fromhex(%r), %d, %d))  # expected %d" % (code.hex()[:3000], n_in, ht, exp),
                                                finding_key="sighash-forkid-digest-mismatch-%s" % cfg.code.lower())
            t.case(key=(cfg.code, ti, "unchanged"), sample=None)
            if observe(tx) != before or before[0] != rtx.snapshot():
                t.violation(what="transaction modified by computing BIP143 / fork-id digests [%s]" % cfg.code, inputs=repr(before)[:300],
                            repro=None, finding_key="sighash-modifies-transaction")
    t.exhaustive = False
    return t.result()


# ----------------------------------------------------------------------------------------------------------------
# C04.tx_hash_with_type : Tx.hash(hash_type)
# ----------------------------------------------------------------------------------------------------------------

@bounded("C04.tx_hash_with_type", props=["C04"],
         bound="BTC, LTC, BCH, BTG, GRS x seeded txs (with and without witnesses) x hash_type in {None, 0..255, 0x4f41, 2^32-1}")
def c04_tx_hash_with_type(opts):
    rng = random.Random(opts["seed"] + 3)
    thorough = opts.get("tier") == "thorough"
    t = KTally(rule="case = (coin, tx, hash_type): Tx.hash(hash_type) == H(witness-stripped serialisation || LE32(hash_type)) "
                    "(no trailer for None; H single SHA256 for GRS); non-trivial = all")
    for ti, rtx in enumerate(tx_shapes(rng, 40 if thorough else 4)):
        for cfg in configs():
            tx = build(cfg, rtx)
            before = observe(tx)
            ser = rtx.ser_stripped()
            for ht in [None] + list(range(256)) + [0x4f41, 0xffffffff]:
                exp = cfg.H(ser + (le32(ht) if ht is not None else b""))
                st, got = call(tx.hash, ht) if ht is not None else call(tx.hash)
                t.case(key=(cfg.code, ti, ht), sample={"coin": cfg.code, "ht": ht})
                if st != "ok" or bytes(got) != exp:
                    t.violation(what="Tx.hash(hash_type) is not the hash of the stripped serialisation with the 4-byte hash type appended [%s]" % cfg.code,
                                inputs={"coin": cfg.code, "hash_type": ht, "got": (st, bytes(got).hex() if got is not None else None), "expected": exp.hex()},
                                repro=repro_tx(cfg, rtx) + "print(tx.hash(%r).hex())  # expected %s" % (ht, exp.hex()),
                                finding_key="tx-hash-with-hash-type-mismatch")
            if observe(tx) != before:
                t.violation(what="Tx.hash modified the transaction", inputs=repr(before)[:300], finding_key="sighash-modifies-transaction")
    t.exhaustive = False
    return t.result()


# ----------------------------------------------------------------------------------------------------------------
# C04.end_to_end : the value reaching generator.verify during Tx.check_solution
# ----------------------------------------------------------------------------------------------------------------

N = 0xFFFFFFFFFFFFFFFFFFFFFFFFFFFFFFFEBAAEDCE6AF48A03BBFD25E8CD0364141


def der_int(x):
    b = x.to_bytes((x.bit_length() + 8) // 8 or 1, "big")
    return b"\x02" + bytes([len(b)]) + b


def der_sig(r, s):
    body = der_int(r) + der_int(s)
    return b"\x30" + bytes([len(body)]) + body


def sign(secret, digest32, ht):
    r, s = secp256k1_generator.sign(secret, int.from_bytes(digest32, "big"))
    if s > N // 2:
        s = N - s
    return der_sig(r, s) + bytes([ht])


def sec_of(secret):
    x, y = secp256k1_generator * secret
    return bytes([2 + (y & 1)]) + x.to_bytes(32, "big")


def hash160(b):
    # only used to *build* a P2WPKH output (not part of any oracle); hashlib may lack ripemd160, pycoin carries its own
    from pycoin.encoding.hash import hash160 as h160
    return h160(b)


@bounded("C04.end_to_end", props=["C04"],
         bound="BTC, LTC, BCH, BTG, GRS x {pay-to-pubkey with executed OP_CODESEPARATORs and an embedded copy of the signature, "
               "2-signature script split by OP_CODESEPARATOR, P2WPKH, P2WSH with OP_CODESEPARATOR} x sampled hash types (all "
               "base types x ANYONECANPAY x unused bits) x 3-input/2-output txs: inputs signed over the REFERENCE digest must "
               "pass Tx.check_solution, signed over a digest for another hash type must fail")
def c04_end_to_end(opts):
    rng = random.Random(opts["seed"] + 4)
    thorough = opts.get("tier") == "thorough"
    t = KTally(rule="case = (coin, script template, input index, hash type, good/bad): the signature is made by this file over the "
                    "reference digest, so check_solution passes iff the value pycoin hands to generator.verify is that digest; "
                    "non-trivial = all (bad cases prove the check is not vacuous)")
    have_ripemd = True
    k1, k2 = 0x1111111111111111111111111111111111111111111111111111111111111111, 0x2222222222222222222222222222222222222222222222222222222222222223
    p1, p2 = sec_of(k1), sec_of(k2)
    ht_pool = [1, 2, 3, 0x81, 0x82, 0x83, 0, 4, 0x1f, 0x21, 0x22, 0x23, 0x60, 0xa3, 0xff, 0x7e]
    for cfg in configs():
        n_ht = (len(ht_pool) if thorough else 5)
        hts = ht_pool[:3] + rng.sample(ht_pool[3:], n_ht - 3)
        for ht0 in hts:
            ht = ht0 | SIGHASH_FORKID if cfg.legacy_style == "forkid" else ht0
            for tmpl in ["p2pk_codesep", "two_sig_codesep", "p2wpkh", "p2wsh_codesep"]:
                if tmpl == "p2wpkh" and not have_ripemd:
                    continue
                rtx = gen_rtx(rng, 3, 2)
                n_in = rng.randrange(3) if (ht & 0x1f) != SIGHASH_SINGLE else rng.choice([0, 1, 2])   # index 2 has no matching output
                amount = rng.choice([1, 50000, 2 ** 40])
                ins = list(rtx.ins)
                ins = [(h, i, b"", q, ()) for h, i, _s, q, _w in ins]
                rtx.ins = ins
                rtx.spent = [(amount, b"\x51")] * 3
                H = cfg.H

                def legacy_or_forkid(code_for_legacy, code_for_forkid):
                    if cfg.legacy_style == "forkid":
                        return sha256d(bip143_preimage(rtx, code_for_forkid, n_in, ht | (cfg.fork_id << 8)))
                    return legacy_digest(rtx, code_for_legacy, n_in, ht, H)

                good = {}
                if tmpl == "p2pk_codesep":
                    # <junk> DROP CODESEP <pk> CHECKSIG : script code = what follows the executed separator
                    junk = rbytes(rng, 5)
                    puzzle = core_push(junk) + b"\x75" + b"\xab" + core_push(p1) + b"\xac"
                    begin = len(core_push(junk)) + 2
                    code = puzzle[begin:]
                    # pycoin's fork-id coins also FindAndDelete the signature from the code; the code here holds no signature
                    d = legacy_or_forkid(code, code)
                    sig = sign(k1, d, ht)
                    rtx.spent[n_in] = (amount, puzzle)
                    rtx.ins[n_in] = rtx.ins[n_in][:2] + (core_push(sig),) + rtx.ins[n_in][3:]
                elif tmpl == "two_sig_codesep":
                    # <pk1> CHECKSIGVERIFY CODESEP <pk2> CHECKSIG ; scriptSig: <sig2> <sig1>
                    puzzle = core_push(p1) + b"\xad" + b"\xab" + core_push(p2) + b"\xac"
                    code1 = puzzle                       # begin_code_hash = 0: whole script, separator stripped (legacy) / kept (BIP143 style)
                    code2 = puzzle[len(core_push(p1)) + 2:]
                    d1 = legacy_or_forkid(code1, code1)
                    d2 = legacy_or_forkid(code2, code2)
                    sig1, sig2 = sign(k1, d1, ht), sign(k2, d2, ht)
                    rtx.spent[n_in] = (amount, puzzle)
                    rtx.ins[n_in] = rtx.ins[n_in][:2] + (core_push(sig2) + core_push(sig1),) + rtx.ins[n_in][3:]
                elif tmpl == "p2wpkh":
                    puzzle = b"\x00\x14" + hash160(p1)
                    code = b"\x76\xa9\x14" + hash160(p1) + b"\x88\xac"
                    d = expected_segwit_digest(cfg, rtx, code, n_in, ht)
                    sig = sign(k1, d, ht)
                    rtx.spent[n_in] = (amount, puzzle)
                    rtx.ins[n_in] = rtx.ins[n_in][:4] + ((sig, p1),)
                else:
                    # witness script: <pk1> CHECKSIGVERIFY CODESEP <pk2> CHECKSIG CODESEP-free tail
                    ws = core_push(p1) + b"\xad" + b"\xab" + core_push(p2) + b"\xac"
                    puzzle = b"\x00\x20" + sha256(ws)
                    c1 = ws                              # BIP143: nothing stripped
                    c2 = ws[len(core_push(p1)) + 2:]
                    rtx.spent[n_in] = (amount, puzzle)
                    d1 = expected_segwit_digest(cfg, rtx, c1, n_in, ht)
                    d2 = expected_segwit_digest(cfg, rtx, c2, n_in, ht)
                    sig1, sig2 = sign(k1, d1, ht), sign(k2, d2, ht)
                    rtx.ins[n_in] = rtx.ins[n_in][:4] + ((sig2, sig1, ws),)
                tx = build(cfg, rtx)
                before = observe(tx)
                try:
                    tx.check_solution(n_in)
                    res = "ok"
                except ScriptError as e:
                    res = "ScriptError %s" % (e,)
                except Exception as e:
                    res = "raised %s %s" % (type(e).__name__, e)
                t.case(key=(cfg.code, tmpl, n_in, ht, "good"), sample={"coin": cfg.code, "template": tmpl, "ht": ht, "idx": n_in})
                if res != "ok":
                    t.violation(what="input signed over the consensus digest rejected by check_solution (%s) [%s]" % (tmpl, cfg.code),
                                inputs={"coin": cfg.code, "template": tmpl, "hash_type": ht, "idx": n_in, "result": res,
                                        "tx": tx.as_hex(include_unspents=True)},
                                repro="import sys; sys.path.insert(0,'/repo'); from pycoin.networks.registry import network_for_netcode; "
                                      "tx=network_for_netcode(%r).tx.from_hex(%r); tx.check_solution(%d)" % (cfg.code, tx.as_hex(include_unspents=True), n_in),
                                finding_key="sighash-end-to-end-%s-%s" % (tmpl, cfg.code.lower()))
                if observe(tx) != before:
                    t.violation(what="check_solution modified the transaction", inputs=repr(before)[:300], finding_key="sighash-modifies-transaction")
                # negative control: change something the hash type commits to; the same signatures must now fail
                rtx_bad = RTx(rtx.version, list(rtx.ins), list(rtx.outs), rtx.lock_time ^ 1, list(rtx.spent))
                txb = build(cfg, rtx_bad)
                try:
                    txb.check_solution(n_in)
                    resb = "ok"
                except ScriptError:
                    resb = "ScriptError"
                except Exception as e:
                    resb = "raised %s" % type(e).__name__
                t.case(key=(cfg.code, tmpl, n_in, ht, "bad"))
                # the one digest that commits to nothing: legacy SIGHASH_SINGLE without a matching output (constant ONE)
                is_one = cfg.legacy_style == "legacy" and not tmpl.startswith("p2w") and (ht & 0x1f) == SIGHASH_SINGLE and n_in >= len(rtx.outs)
                if is_one:
                    if resb != "ok":
                        t.violation(what="SIGHASH_SINGLE without matching output: signature over the constant ONE must stay valid whatever the tx (%s) [%s]" % (tmpl, cfg.code),
                                    inputs={"coin": cfg.code, "template": tmpl, "hash_type": ht, "result": resb, "tx": txb.as_hex(include_unspents=True)},
                                    finding_key="sighash-legacy-single-one-constant")
                elif resb != "ScriptError":
                    t.violation(what="signature still accepted after lock_time changed (digest does not commit to it?) (%s) [%s]" % (tmpl, cfg.code),
                                inputs={"coin": cfg.code, "template": tmpl, "hash_type": ht, "result": resb, "tx": txb.as_hex(include_unspents=True)},
                                finding_key="sighash-end-to-end-noncommitting")
    t.exhaustive = False
    return t.result()
