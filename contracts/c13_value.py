"""C13: value bookkeeping on transactions (Tier A parts): total_out is the sum of the output values."""
from pyvc.api import *
from spec.core import *
from spec.wire import *
from spec.txcheck import value_sum_upto
from contracts.c07_tx import TX


@contract("pycoin.coins.bitcoin.Tx:Tx.total_out")
class total_out:
    props = ["C13"]
    sig = dict(self=TX)
    returns = Int()

    def ensures_sum(self, result):
        return result == value_sum_upto(self.txs_out, len(self.txs_out))

    canaries = [("tx_out.coin_value for tx_out in self.txs_out", "tx_out.coin_value for tx_out in self.txs_out[1:]")]


@invariant("pycoin.coins.bitcoin.Tx:Tx.total_out", "comp0")
def _inv_total_out(self, _r, _i):
    return _r == value_sum_upto(self.txs_out, _i)


# ---------------------------------------------------------------- split_with_remainder
@spec(rec=True, args=['int', 'int'], ret=('seq', 'int'), post=lambda x, n, result: (implies(n >= 0, len(result) == n), implies(n <= 0, len(result) == 0)))
def repeat_int(x, n):
    if n <= 0:
        return ()
    return repeat_int(x, n - 1) + (x,)


@spec
def split_spec(total, count):
    """total = q * count + r: the first r shares are q + 1, the other count - r are q"""
    q = total // count
    r = total % count
    return repeat_int(q + 1, r) + repeat_int(q, count - r)


@contract("pycoin.coins.tx_utils:split_with_remainder")
class split_with_remainder:
    props = ["C13"]
    sig = dict(total_amount=Int(0, 21 * 10 ** 14), split_count=Int(1, 10 ** 6))
    returns = SeqOf(Int())

    def ensures_shares(total_amount, split_count, result):
        return result == split_spec(total_amount, split_count)

    canaries = [("value_each + 1", "value_each + 0"), ("range(split_count - extra_count)", "range(split_count - extra_count - 1)")]

    def samples(rng):
        c = rng.choice([1, 1, 2, 3, 5, 12, 40])
        return dict(total_amount=rng.choice([0, 1, c - 1, c, c + 1, 2 * c + 1, rng.randrange(21 * 10 ** 14)]), split_count=c)


@invariant("pycoin.coins.tx_utils:split_with_remainder", 0, modifies=["_yields"], kinds={"_yields": ('seq', 'int')})
def _inv_split0(_yields, value_each, extra_count, _i):
    return listval(_yields) == repeat_int(value_each + 1, _i)


@invariant("pycoin.coins.tx_utils:split_with_remainder", 1, modifies=["_yields"], kinds={"_yields": ('seq', 'int')})
def _inv_split1(_yields, value_each, extra_count, _i):
    return listval(_yields) == repeat_int(value_each + 1, extra_count) + repeat_int(value_each, _i)


@spec(rec=True, args=[('seq', 'int')], ret='int', fuel=2)
def seq_sum(s):
    if len(s) == 0:
        return 0
    return seq_sum(s[:len(s) - 1]) + s[len(s) - 1]


@lemma(sig=dict(x=Int(), n=Int(0)), induct=lambda x, n: n, props=["C13"])
def repeat_sum(x, n):
    """the n shares of size x add up to n * x; each share is x"""
    if n > 0:
        repeat_sum(x, n - 1)
    return seq_sum(repeat_int(x, n)) == n * x




@lemma(sig=dict(a=SeqOf(Int()), b=SeqOf(Int())), induct=lambda a, b: len(b), props=["C13"])
def seq_sum_concat(a, b):
    if len(b) > 0:
        seq_sum_concat(a, b[:len(b) - 1])
    return seq_sum(a + b) == seq_sum(a) + seq_sum(b)


@lemma(sig=dict(total=Int(0), count=Int(1)), props=["C13"])
def split_conserves(total, count):
    """the shares add up to the total exactly"""
    q = total // count
    r = total % count
    repeat_sum(q + 1, r)
    repeat_sum(q, count - r)
    seq_sum_concat(repeat_int(q + 1, r), repeat_int(q, count - r))
    return (seq_sum(split_spec(total, count)) == total, len(split_spec(total, count)) == count)
