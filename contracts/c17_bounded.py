"""C17 Tier B (bounded stand-in): signed text messages verify for the signer only and never crash the verifier.

Oracle: the property statement + Bitcoin Core's signmessage/verifymessage behaviour: digest = SHA256d(compactsize(len(magic))
|| magic || compactsize(len(msg)) || msg), 65-byte compact signature = header(27 + recid + 4*compressed) || r || s, recovery
with r, s in [1, n-1], nonce x = r + (recid >> 1) * n < p on the curve, y parity recid & 1; the address compared is the
P2PKH hash160 of the recovered key in the encoding given by the header.  All of it implemented here independently (own
secp256k1 arithmetic, own hash / compactsize / recovery); pycoin is only asked for key objects and their address strings.

Backends: OpenSSL-accelerated secp256k1 generator; libsecp256k1 NOT loadable in this sandbox.
"""
import base64
import hashlib
import random

from pyvc.bounded import bounded, Tally

REPO_HDR = "import sys; sys.path[:0]=['/repo']; "

P = 2 ** 256 - 2 ** 32 - 977
N = 0xFFFFFFFFFFFFFFFFFFFFFFFFFFFFFFFEBAAEDCE6AF48A03BBFD25E8CD0364141
G = (0x79BE667EF9DCBBAC55A06295CE870B07029BFCDB2DCE28D959F2815B16F81798,
     0x483ADA7726A3C4655DA4FBFC0E1108A8FD17B448A68554199C47D08FFB10D4B8)


def pt_add(A, B):
    if A is None:
        return B
    if B is None:
        return A
    x1, y1 = A
    x2, y2 = B
    if x1 == x2:
        if (y1 + y2) % P == 0:
            return None
        lam = 3 * x1 * x1 * pow(2 * y1, -1, P) % P
    else:
        lam = (y2 - y1) * pow(x2 - x1, -1, P) % P
    x3 = (lam * lam - x1 - x2) % P
    return (x3, (lam * (x1 - x3) - y1) % P)


def pt_neg(A):
    return None if A is None else (A[0], (-A[1]) % P)


def pt_mul(A, k):
    """Jacobian double-and-add (a = 0) with mixed addition"""
    k %= N
    if A is None or k == 0:
        return None
    px, py = A
    X, Y, Z = 0, 1, 0
    for bit in bin(k)[2:]:
        if Z:
            YY = Y * Y % P
            S = 4 * X * YY % P
            M = 3 * X * X % P
            X2 = (M * M - 2 * S) % P
            Z = 2 * Y * Z % P
            Y = (M * (S - X2) - 8 * YY * YY) % P
            X = X2
        if bit == "1":
            if not Z:
                X, Y, Z = px, py, 1
            else:
                ZZ = Z * Z % P
                H = (px * ZZ - X) % P
                R = (py * ZZ * Z - Y) % P
                if H == 0:
                    d = pt_add(_aff(X, Y, Z), A)
                    X, Y, Z = (0, 1, 0) if d is None else (d[0], d[1], 1)
                    continue
                HH = H * H % P
                HHH = H * HH % P
                V_ = X * HH % P
                X3 = (R * R - HHH - 2 * V_) % P
                Y = (R * (V_ - X3) - Y * HHH) % P
                Z = Z * H % P
                X = X3
    return _aff(X, Y, Z)


def _aff(X, Y, Z):
    if not Z:
        return None
    zi = pow(Z, -1, P)
    return (X * zi * zi % P, Y * zi * zi * zi % P)


assert pt_mul(G, N - 1) == pt_neg(G) and pt_mul(G, N) is None and pt_mul(G, 3) == pt_add(pt_add(G, G), G)


def lift_x(x, odd):
    if not 0 <= x < P:
        return None
    alpha = (x * x * x + 7) % P
    y = pow(alpha, (P + 1) // 4, P)
    if y * y % P != alpha:
        return None
    return (x, y if (y & 1) == odd else P - y)


def sec(Q, compressed):
    if compressed:
        return bytes([2 + (Q[1] & 1)]) + Q[0].to_bytes(32, "big")
    return b"\4" + Q[0].to_bytes(32, "big") + Q[1].to_bytes(32, "big")


def hash160(b):
    return hashlib.new("ripemd160", hashlib.sha256(b).digest()).digest()


def compact_size(n):
    if n < 253:
        return bytes([n])
    if n < 2 ** 16:
        return b"\xfd" + n.to_bytes(2, "little")
    if n < 2 ** 32:
        return b"\xfe" + n.to_bytes(4, "little")
    return b"\xff" + n.to_bytes(8, "little")


def msg_hash(magic, msg):
    m, b = magic.encode("utf8"), msg.encode("utf8")
    d = compact_size(len(m)) + m + compact_size(len(b)) + b
    return int.from_bytes(hashlib.sha256(hashlib.sha256(d).digest()).digest(), "big")


# strMessageMagic as in the respective reference clients
CORE_MAGIC = {"BTC": "Bitcoin Signed Message:\n", "XTN": "Bitcoin Signed Message:\n", "LTC": "Litecoin Signed Message:\n",
              "XLT": "Litecoin Signed Message:\n", "DOGE": "Dogecoin Signed Message:\n"}


def magic_for(net):
    return CORE_MAGIC.get(net.symbol, "%s Signed Message:\n" % net.network_name)


def ecdsa_ok(Q, z, r, s):
    if not (1 <= r < N and 1 <= s < N) or Q is None:
        return False
    w = pow(s, -1, N)
    X = pt_add(pt_mul(G, z * w % N), pt_mul(Q, r * w % N))
    return X is not None and X[0] % N == r


def core_recover(sig65, z):
    """Bitcoin Core CPubKey::RecoverCompact semantics -> (Q, compressed) or None"""
    if len(sig65) != 65:
        return None
    h = sig65[0]
    if not 27 <= h <= 34:
        return None
    recid, comp = (h - 27) & 3, bool((h - 27) & 4)
    r, s = int.from_bytes(sig65[1:33], "big"), int.from_bytes(sig65[33:], "big")
    if not (1 <= r < N and 1 <= s < N):
        return None
    x = r + (recid >> 1) * N
    R = lift_x(x, recid & 1)
    if R is None:
        return None
    Q = pt_mul(pt_add(pt_mul(R, s), pt_mul(G, -z % N)), pow(r, -1, N))
    if Q is None:
        return None
    return Q, comp


def strict_b64(text):
    """strict RFC 4648 decode (as Bitcoin Core's DecodeBase64): None if malformed"""
    if isinstance(text, bytes):
        try:
            text = text.decode("ascii")
        except UnicodeDecodeError:
            return None
    try:
        return base64.b64decode(text.encode("ascii"), validate=True)
    except Exception:  # noqa
        return None


def b64(b):
    return base64.b64encode(b).decode("ascii")


def make_sig(h, r, s):
    return b64(bytes([h]) + r.to_bytes(32, "big") + s.to_bytes(32, "big"))


class V(object):
    """one recorded violation per finding_key (Tally keeps 20 at most); occurrences are counted in .count"""

    def __init__(self, t):
        self.t = t
        self.count = {}

    def __call__(self, key, what, inputs, repro):
        c = self.count.get(key, 0)
        self.count[key] = c + 1
        if c < 1:
            self.t.violation(what=what, inputs=inputs, repro=repro, finding_key=key)


def classify_raise(exc, text):
    """stable finding_key per ROOT CAUSE of an exception escaping verify_message"""
    name = type(exc).__name__
    raw = strict_b64(text)
    hdr_ok = raw is not None and len(raw) == 65 and 27 <= raw[0] <= 34
    r = int.from_bytes(raw[1:33], "big") if hdr_ok else None
    recid = (raw[0] - 27) & 3 if hdr_ok else None
    if name == "Error":            # binascii.Error from a2b_base64
        return "verify-message-binascii-error-on-malformed-base64"
    if name in ("ValueError", "UnicodeEncodeError", "UnicodeDecodeError") and not hdr_ok:
        return "verify-message-valueerror-on-non-ascii-text"
    if hdr_ok and r % N == 0:
        # inverse(0): recovery yields nothing / the point at infinity (AttributeError, TypeError, AssertionError, IndexError)
        return "verify-message-raises-when-r-is-multiple-of-n"
    if name == "IndexError":       # possible_public_pairs_for_signature(...) == [] then [0]
        return "verify-message-indexerror-when-r-has-no-curve-point"
    if hdr_ok and recid >= 2:      # Point(q.x + order, q.y) on the recovered KEY instead of lifting r + n
        return "verify-message-recid-2-3-raises-%s" % name
    return "verify-message-raises-%s" % name


def networks(codes):
    from pycoin.networks.registry import network_for_netcode
    return [network_for_netcode(c) for c in codes]


def all_plain_networks():
    from pycoin.networks.registry import network_codes, network_for_netcode
    out = []
    for c in network_codes():
        try:
            n = network_for_netcode(c)
        except Exception:  # noqa
            continue
        if type(n.parse).__name__ != "ParseAPI":
            continue   # GRS family: groestlcoin_hash module absent in this sandbox
        out.append(n)
    return out


MESSAGES = ["", "a", "hello", "The quick brown fox jumps over the lazy dog.", " leading and trailing space ",
            "Grüße, 世界 — ☃ \U0001d518", "é", "é",
            "line one\nline two\nline three", "line one\r\nline two\r\nline three", "trailing newline\n", "trailing crlf\r\n",
            "\nleading newline", "tab\tand nul\x00inside", "Address: 1BoatSLRHtKNngkdXEeobR76b53LETtpyT", "-----", "x" * 252,
            "y" * 253, "z" * 254, "w" * 65535, "v" * 65536, "ü" * 127, "dash - colon: semi;"]


def verify_call(net, target, sig, msg):
    """-> ('bool', value) | ('nonbool', value) | ('raise', exc)"""
    try:
        r = net.msg.verify(target, sig, msg)
    except Exception as e:  # noqa
        return ("raise", e)
    return ("bool" if isinstance(r, bool) else "nonbool", r)


def sig_repro(net, target_src, sig, msg):
    return (REPO_HDR + "from pycoin.networks.registry import network_for_netcode as nf; N=nf(%r); print(N.msg.verify(%s, %r, %r))"
            % (net.symbol, target_src, sig, msg if len(msg) < 200 else msg[:1] + "...(%d chars)" % len(msg)))


def expect(v, net, target, target_src, sig, msg, want, key_false, key_true, label):
    """verify must return exactly the bool `want`"""
    kind, val = verify_call(net, target, sig, msg)
    repro = sig_repro(net, target_src, sig, msg)
    if kind == "raise":
        v(classify_raise(val, sig), "verify raises %s (%s) instead of returning %r [%s]" % (type(val).__name__, val, want, label),
          (net.symbol, target_src, sig if isinstance(sig, (str, bytes)) and len(sig) < 120 else repr(sig)[:120]), repro)
        return None
    if kind == "nonbool":
        v("verify-message-not-bool", "verify returns %r (not a bool) [%s]" % (val, label), (net.symbol, target_src, sig), repro)
        return None
    if val != want:
        v(key_true if val else key_false, "verify returns %r, expected %r [%s]" % (val, want, label), (net.symbol, target_src, sig, msg[:60]), repro)
    return val


# --------------------------------------------------------------------------------------- 1. sign / verify / recover
@bounded("C17.sign_verify_recover", props=["C17"],
         bound="networks BTC, XTN, LTC, DOGE (thorough: + every other registered network with a plain base58 checksum, 1 key "
               "each) x seeded private keys {1, 2, n-1, random} x {compressed, uncompressed} x 23 messages (empty, ascii, "
               "unicode incl. non-BMP and combining forms, multi-line LF and CRLF, leading/trailing newline, NUL, lengths 252/"
               "253/254/65535/65536): digest == Core digest; signature is 65 bytes base64, header 27+recid+4c, textbook-valid "
               "under d*G; Core recovery gives exactly (d*G, c); verify True for the key, its public-only copy, its address; "
               "pair_for_message_hash == (d*G, c); False for: 4 altered messages, another key, the negated key, another address, "
               "the same key's other-compression address, the same key on a network with another magic.  quick: 3 keys per "
               "network, 10 seeded messages each; thorough: 12 keys, all messages")
def c17_sign_verify(opts):
    rng = random.Random(opts["seed"])
    quick = opts.get("tier") == "quick"
    n_keys, n_msgs = (3, 10) if quick else (12, len(MESSAGES))
    t = Tally(rule="one case per (network, key, compressed, message); all non-trivial")
    v = V(t)
    main = networks(["BTC", "XTN", "LTC", "DOGE"])
    plan = [(net, n_keys) for net in main]
    if not quick:
        plan += [(net, 1) for net in all_plain_networks() if net.symbol not in ("BTC", "XTN", "LTC", "DOGE")]
    for (net, nk) in plan:
        ds = ([1, 2, N - 1] + [rng.randrange(1, N) for _ in range(nk)])[-nk:] if nk >= 3 else [rng.randrange(1, N) for _ in range(nk)]
        other_net = [o for o in main if magic_for(o) != magic_for(net)][0]
        for d in ds:
            Q = pt_mul(G, d)
            for comp in (True, False):
                key = net.keys.private(secret_exponent=d, is_compressed=comp)
                ksrc = "N.keys.private(secret_exponent=%d, is_compressed=%r)" % (d, comp)
                pub = net.keys.public((Q[0], Q[1]), is_compressed=comp)
                addr = key.address()
                other_comp_addr = net.keys.private(secret_exponent=d, is_compressed=not comp).address()
                d2 = rng.randrange(1, N)
                k2 = net.keys.private(secret_exponent=d2, is_compressed=comp)
                kneg = net.keys.public(pt_neg(Q), is_compressed=comp)
                msgs = MESSAGES if n_msgs >= len(MESSAGES) else rng.sample(MESSAGES, n_msgs)
                if nk == 1:
                    msgs = rng.sample(MESSAGES[:16], 4)
                for msg in msgs:
                    t.case(key=(net.symbol, d, comp, msg), sample={"network": net.symbol, "d": hex(d)[:18], "compressed": comp, "msg": msg[:30]})
                    z = msg_hash(magic_for(net), msg)
                    hdr = REPO_HDR + "from pycoin.networks.registry import network_for_netcode as nf; N=nf(%r); k=%s; " % (net.symbol, ksrc)
                    mrep = repr(msg) if len(msg) < 100 else "%r*%d" % (msg[0], len(msg))
                    try:
                        zz = net.msg.hash_for_signing(msg)
                        sig = net.msg.sign(key, msg)
                    except Exception as e:  # noqa
                        v("sign-message-raises", "sign raises %s: %s" % (type(e).__name__, e), (net.symbol, d, comp, msg[:40]), hdr + "print(N.msg.sign(k, %s))" % mrep)
                        continue
                    if zz != z:
                        v("message-digest-differs-from-core", "hash_for_signing differs from SHA256d(varstr(magic)||varstr(msg))", (net.symbol, msg[:40]),
                          hdr + "print(hex(N.msg.hash_for_signing(%s)))" % mrep)
                        z = zz   # keep checking the remaining clauses against the digest actually signed
                    raw = strict_b64(sig)
                    if not isinstance(sig, str) or raw is None or len(raw) != 65:
                        v("signature-not-65-byte-base64", "signature is not strict base64 of 65 bytes", (net.symbol, d, sig), hdr + "print(N.msg.sign(k, %s))" % mrep)
                        continue
                    h, r, s = raw[0], int.from_bytes(raw[1:33], "big"), int.from_bytes(raw[33:], "big")
                    rec = core_recover(raw, z)
                    if not (27 <= h <= 34 and bool((h - 27) & 4) == comp and ecdsa_ok(Q, z, r, s) and rec == (Q, comp)):
                        v("signature-not-recoverable-to-signer", "compact signature does not recover (Core rules) to exactly the signer's key and compression flag",
                          (net.symbol, d, comp, msg[:40], sig), hdr + "print(N.msg.sign(k, %s))" % mrep)
                    # positive clauses
                    for (tgt, tsrc, lbl) in ((key, "k", "key"), (pub, "N.keys.public((%d,%d), is_compressed=%r)" % (Q[0], Q[1], comp), "public key"),
                                             (addr, repr(addr), "address")):
                        expect(v, net, tgt, tsrc if tsrc != "k" else ksrc, sig, msg, True, "verify-message-rejects-signer", "-", "signer %s" % lbl)
                    try:
                        pr, pc = net.msg.pair_for_message_hash(sig, z)
                        ok = (pr[0], pr[1]) == Q and pc is comp
                    except Exception as e:  # noqa
                        ok = False
                    if not ok:
                        v("recovery-not-signer", "pair_for_message_hash does not return exactly the signer's (pair, compressed)", (net.symbol, d, comp, sig),
                          hdr + "print(N.msg.pair_for_message_hash(%r, %d))" % (sig, z))
                    # negative clauses
                    alts = [msg + " ", msg + "\n", " " + msg, msg.swapcase() if msg.swapcase() != msg else msg + "x", msg.replace("\n", "\r\n") if "\n" in msg and "\r" not in msg else msg + "\0"]
                    for am in alts[:4] if len(msg) < 1000 else alts[:1]:
                        if am != msg:
                            expect(v, net, key, ksrc, sig, am, False, "-", "verify-message-accepts-other-message", "other message")
                            expect(v, net, addr, repr(addr), sig, am, False, "-", "verify-message-accepts-other-message", "other message, address")
                    expect(v, net, k2, "N.keys.private(secret_exponent=%d)" % d2, sig, msg, False, "-", "verify-message-accepts-other-key", "other key")
                    expect(v, net, kneg, "N.keys.public((%d,%d))" % pt_neg(Q), sig, msg, False, "-", "verify-message-accepts-other-key", "negated key")
                    expect(v, net, k2.address(), repr(k2.address()), sig, msg, False, "-", "verify-message-accepts-other-address", "other address")
                    expect(v, net, other_comp_addr, repr(other_comp_addr), sig, msg, False, "-", "verify-message-accepts-other-address", "same key, other compression's address")
                    ko = other_net.keys.private(secret_exponent=d, is_compressed=comp)
                    expect(v, other_net, ko, ksrc, sig, msg, False, "-", "verify-message-accepts-other-network-magic", "same key, network %s" % other_net.symbol)
    t.exhaustive = False
    res = t.result()
    res["violation_counts"] = dict(v.count)
    return res


# ------------------------------------------------------------------------------------------------- 2. armour
def armour_ok_message(msg):
    """the property's precondition for the armoured form: one newline style (only LF or only CRLF, no stray CR), and
    no armour marker line inside the message"""
    stripped = msg.replace("\r\n", "")
    if "\r" in stripped:
        return False
    if "\r\n" in msg and "\n" in stripped:
        return False
    if "SIGNED MESSAGE-----" in msg or "-----BEGIN" in msg or "-----END" in msg:
        return False
    return True


@bounded("C17.armoured_roundtrip", props=["C17"],
         bound="networks BTC, XTN, LTC, DOGE (thorough: all plain-checksum networks) x 2 seeded keys x {compressed, not} x "
               "messages meeting the stated precondition (one newline style, no armour marker line): the fixed list (23) + "
               "seeded multi-line texts (LF-only or CRLF-only, blank lines, leading/trailing newlines, ':' and 'Address:' "
               "lines, unicode): sign(verbose=True) parses back to exactly (message, address, signature); the parsed triple "
               "verifies; the verbose text embeds the network's name.  quick: 30 seeded texts; thorough: 400")
def c17_armour(opts):
    rng = random.Random(opts["seed"])
    quick = opts.get("tier") == "quick"
    n_rand = 30 if quick else 400
    t = Tally(rule="one case per (network, key, compressed, message); nontrivial = message has a newline")
    v = V(t)
    nets = networks(["BTC", "XTN", "LTC", "DOGE"]) if quick else all_plain_networks()
    words = ["alpha", "Address: x", "Version: 1", "k: v", "", " ", "世界", "-----", "- dash", "BEGIN", "end.", "::", "\t", "a" * 70]
    texts = [m for m in MESSAGES if armour_ok_message(m)]
    for _ in range(n_rand):
        nl = rng.choice(["\n", "\r\n"])
        lines = [rng.choice(words) for _ in range(rng.randrange(1, 7))]
        m = nl.join(lines)
        if rng.random() < 0.3:
            m += nl
        if rng.random() < 0.2:
            m = nl + m
        if armour_ok_message(m):
            texts.append(m)
    for ni, net in enumerate(nets):
        for ki in range(2):
            d = rng.randrange(1, N)
            comp = bool(ki)
            key = net.keys.private(secret_exponent=d, is_compressed=comp)
            ksrc = "N.keys.private(secret_exponent=%d, is_compressed=%r)" % (d, comp)
            addr = key.address()
            sel = texts if (ni < 4) else rng.sample(texts, 12)
            for msg in sel:
                if len(msg) > 1000 and ni >= 2:
                    continue
                t.case(key=(net.symbol, d, comp, msg), nontrivial="\n" in msg, sample={"network": net.symbol, "msg": msg[:40]})
                mrep = repr(msg) if len(msg) < 200 else "%r*%d" % (msg[0], len(msg))
                repro = (REPO_HDR + "from pycoin.networks.registry import network_for_netcode as nf; N=nf(%r); k=%s; m=%s; t=N.msg.sign(k, m, verbose=True); print(N.msg.parse_signed(t) == (m, k.address(), N.msg.sign(k, m)))"
                         % (net.symbol, ksrc, mrep))
                try:
                    sig = net.msg.sign(key, msg)
                    text = net.msg.sign(key, msg, verbose=True)
                    m2, a2, s2 = net.msg.parse_signed(text)
                    bad = []
                    if m2 != msg:
                        bad.append("message %r != %r" % (m2[:40], msg[:40]))
                    if a2 != addr:
                        bad.append("address %r != %r" % (a2, addr))
                    if s2 != sig:
                        bad.append("signature differs")
                    if net.network_name.upper() not in text.split("\n")[0]:
                        bad.append("first line lacks the network name")
                    if not bad and net.msg.verify(a2, s2, m2) is not True:
                        bad.append("parsed triple does not verify")
                except Exception as e:  # noqa
                    bad = ["raises %s: %s" % (type(e).__name__, e)]
                if bad:
                    v("armour-roundtrip", "armoured form does not parse back: %s" % bad[:2], (net.symbol, msg[:60]), repro)
    t.exhaustive = False
    res = t.result()
    res["violation_counts"] = dict(v.count)
    return res


# ----------------------------------------------------------------------------------------------- 3. totality
@bounded("C17.verify_totality", props=["C17"],
         bound="verify(key | address, text, msg) returns a bool - and the value Core's verifymessage would - for: a real "
               "signature with its header byte replaced by each of the 256 values; r or s in {0, n, n+1, 2^256-1}; s+n (when "
               "< 2^256, crafted small s); r = x-coordinates without a curve point (seeded, ~half of all x) under all 8 headers; "
               "r with a point under all 8 headers (recid 2/3 variants: r+n >= p, unrecoverable); decoded lengths {0,1,32,64,66,"
               "97,130} and the genuine signature with bytes appended / prepended / cut; malformed base64 (bad padding, 1 mod 4 length, illegal characters, whitespace, embedded newline); non-"
               "ASCII text; bytes instead of str.  Targets: private key object, public key object, address; networks BTC, XTN, "
               "LTC, DOGE.  quick: 1 key per network x 12 seeded r per class; thorough: 4 keys x 150")
def c17_totality(opts):
    rng = random.Random(opts["seed"])
    quick = opts.get("tier") == "quick"
    n_keys, n_r = (1, 12) if quick else (4, 150)
    t = Tally(rule="one case per (network, key, target kind, signature text); nontrivial = text decodes (strict base64) to 65 bytes "
                   "with header in 27..34 (the recovery arithmetic is reached)")
    v = V(t)
    for net in networks(["BTC", "XTN", "LTC", "DOGE"]):
        for ki in range(n_keys):
            d = rng.randrange(1, N)
            comp = bool((ki + rng.randrange(2)) % 2)
            Q = pt_mul(G, d)
            key = net.keys.private(secret_exponent=d, is_compressed=comp)
            ksrc = "N.keys.private(secret_exponent=%d, is_compressed=%r)" % (d, comp)
            pub = net.keys.public((Q[0], Q[1]), is_compressed=comp)
            psrc = "N.keys.public((%d,%d), is_compressed=%r)" % (Q[0], Q[1], comp)
            addr = key.address()
            my_h160 = hash160(sec(Q, comp))
            msg = rng.choice(["totality", "", "☃ msg", "two\nlines"])
            z = msg_hash(magic_for(net), msg)
            good = strict_b64(net.msg.sign(key, msg))
            gh, gr, gs = good[0], int.from_bytes(good[1:33], "big"), int.from_bytes(good[33:], "big")

            def core_verdict(text, for_address):
                raw = strict_b64(text)
                if raw is None:
                    return False
                rec = core_recover(raw, z)
                if rec is None:
                    return False
                if for_address:
                    return hash160(sec(rec[0], rec[1])) == my_h160
                return rec[0] == Q

            inputs = []   # (label-class, text)
            for h in range(256):
                inputs.append(("header-%s" % ("27-34" if 27 <= h <= 34 else "out-of-range"), make_sig(h, gr, gs)))
            for rr in (0, N, N + 1, 2 ** 256 - 1):
                for hh in (27, 28, 31, 32, 29, 34):
                    inputs.append(("r-out-of-range", make_sig(hh, rr, gs)))
            for ss in (0, N, N + 1, 2 ** 256 - 1):
                inputs.append(("s-out-of-range", make_sig(gh, gr, ss)))
                inputs.append(("s-out-of-range", make_sig(27 + ((gh - 27) ^ 1), gr, ss)))
            got_nopoint = got_point = 0
            while got_nopoint < n_r or got_point < n_r:
                x = rng.randrange(1, N)
                has = lift_x(x, 0) is not None
                if has and got_point < n_r:
                    got_point += 1
                    for hh in range(27, 35):
                        inputs.append(("r-on-curve-recid-%d" % ((hh - 27) & 3) if (hh - 27) & 2 else "r-on-curve-random", make_sig(hh, x, rng.randrange(1, N))))
                elif not has and got_nopoint < n_r:
                    got_nopoint += 1
                    for hh in range(27, 35):
                        inputs.append(("r-no-curve-point", make_sig(hh, x, rng.randrange(1, N))))
            # recid 2/3 on the genuine signature
            inputs.append(("genuine-with-recid+2", make_sig(gh + 2 if (gh - 27) & 3 < 2 else gh, gr, gs)))
            for ln in (0, 1, 32, 64, 66, 97, 130):
                inputs.append(("wrong-length", b64(bytes([gh]) + bytes(rng.getrandbits(8) for _ in range(max(0, ln - 1))) if ln else b"")))
            # the genuine 65 bytes followed / preceded by extra bytes, or cut short: not a signature
            for extra in (good + b"\0", good + good, good[:64], b"\0" + good, good + bytes([gh])):
                inputs.append(("wrong-length", b64(extra)))
            good_text = b64(good)
            inputs += [("malformed-base64", x) for x in
                       ["abc", "a", "ab", "abcde", good_text[:-1], good_text[:-2], good_text + "=", good_text + "A", "!!!!", "====", "=" + good_text,
                        good_text.replace("=", ""), "%%%" + good_text, good_text[:40] + "*" + good_text[41:], good_text[:10] + " " + good_text[10:],
                        good_text[:10] + "\n" + good_text[10:], " " + good_text, good_text + "\n", good_text + "\r\n", "\t", "-----END BITCOIN SIGNED MESSAGE-----",
                        addr, good_text * 2]]
            inputs += [("non-ascii", x) for x in ["é", "☃" * 88, good_text[:20] + "é" + good_text[21:], good_text + "​", "А" + good_text[1:],
                                                  "\U0001d518", "\udcff" if False else "ÿ" * 4]]
            inputs += [("bytes-input", good_text.encode("ascii")), ("bytes-input", b"\xff\xfe"), ("bytes-input", b"abc"), ("bytes-input", make_sig(27, 5, 5).encode())]
            for (cls, text) in inputs:
                raw = strict_b64(text)
                reaches = raw is not None and len(raw) == 65 and 27 <= raw[0] <= 34
                lenient_ambiguous = cls in ("malformed-base64", "non-ascii", "bytes-input") and raw is None
                for (tk, tgt, tsrc) in (("key", key, ksrc), ("pub", pub, psrc), ("address", addr, repr(addr))):
                    if tk == "pub" and not reaches:
                        continue
                    t.case(key=(net.symbol, d, tk, text), nontrivial=reaches, sample={"class": cls, "network": net.symbol, "target": tk, "text": text[:30] if isinstance(text, str) else repr(text[:30])})
                    want = core_verdict(text, tk == "address")
                    kind, val = verify_call(net, tgt, text, msg)
                    repro = sig_repro(net, tsrc, text, msg)
                    if kind == "raise":
                        v(classify_raise(val, text), "verify raises %s (%s) instead of returning a bool (Core: %r); input class %s" % (type(val).__name__, str(val)[:80], want, cls),
                          (net.symbol, tk, text if len(text) < 100 else text[:100]), repro)
                    elif kind == "nonbool":
                        v("verify-message-not-bool", "verify returns %r, not a bool; class %s" % (val, cls), (net.symbol, tk, text), repro)
                    elif val != want:
                        # a lenient base64 decoder may still extract the genuine 65 bytes from text that a strict decoder rejects
                        # (embedded whitespace / junk characters): either answer is tolerated there, only bool-ness is required
                        if lenient_ambiguous:
                            continue
                        v("verify-message-accepts-%s" % cls if val else "verify-message-rejects-valid-%s" % cls,
                          "verify returns %r where Core's rules give %r; class %s" % (val, want, cls), (net.symbol, tk, text), repro)
    t.exhaustive = False
    res = t.result()
    res["violation_counts"] = dict(v.count)
    return res


# ------------------------------------------------------------------------------- 4. crafted valid / invalid
@bounded("C17.crafted_signatures", props=["C17"],
         bound="signatures built from a chosen nonce point R and chosen s (no private key; Q := r^-1 (sR - zG)), networks BTC, "
               "LTC: (i) R = kG, s seeded: valid for Q -> True for Q's key object and both-compression addresses as per header, "
               "recovery == Q; (ii) same with s small and the non-canonical twin s+n -> False; s = 0 -> False even for the key "
               "-(z/r)G that the bare recovery formula yields; (iii) nonce x in [n, p): canonical form r = x-n with recid 2/3 -> "
               "valid under Core (True), and the non-canonical r = x (>= n) with recid 0/1 -> False; (iv) wrong parity bit -> "
               "False for Q.  quick: 8 per class; thorough: 120")
def c17_crafted(opts):
    rng = random.Random(opts["seed"])
    quick = opts.get("tier") == "quick"
    cnt = 8 if quick else 120
    t = Tally(rule="one case per (network, class, R, s, message); all non-trivial")
    v = V(t)
    for net in networks(["BTC", "LTC"]):
        for i in range(cnt):
            msg = rng.choice(MESSAGES[:16])
            z = msg_hash(magic_for(net), msg)

            def targets(Q, comp):
                kobj = net.keys.public((Q[0], Q[1]), is_compressed=comp)
                return [("key", kobj, "N.keys.public((%d,%d), is_compressed=%r)" % (Q[0], Q[1], comp)), ("address", kobj.address(), repr(kobj.address()))]

            def run(cls, sig, Q, comp, want, key_t, key_f):
                for (tk, tgt, tsrc) in targets(Q, comp):
                    t.case(key=(net.symbol, cls, sig, tk), sample={"class": cls, "network": net.symbol, "sig": sig[:24]})
                    kind, val = verify_call(net, tgt, sig, msg)
                    repro = sig_repro(net, tsrc, sig, msg)
                    if kind == "raise":
                        kk = classify_raise(val, sig)
                        if want and cls == "valid-recid-2-3":
                            kk = "verify-message-valid-recid-2-3-not-accepted"
                        v(kk, "verify raises %s (%s) where Core's rules give %r; class %s" % (type(val).__name__, str(val)[:80], want, cls),
                          (net.symbol, tk, sig), repro)
                    elif kind == "nonbool":
                        v("verify-message-not-bool", "verify returns %r" % (val,), (net.symbol, sig), repro)
                    elif val != want:
                        v(key_t if val else key_f, "verify returns %r where Core's rules give %r; class %s" % (val, want, cls), (net.symbol, tk, sig, msg[:40]), repro)

            # (i) ordinary forged-valid
            k = rng.randrange(1, N)
            R = pt_mul(G, k)
            if R[0] >= N:
                continue
            r, s = R[0], rng.randrange(1, N)
            comp = bool(i % 2)
            Q = pt_mul(pt_add(pt_mul(R, s), pt_mul(G, -z % N)), pow(r, -1, N))
            if Q is None:
                continue
            h = 27 + (R[1] & 1) + (4 if comp else 0)
            sig = make_sig(h, r, s)
            assert core_recover(strict_b64(sig), z) == (Q, comp) and ecdsa_ok(Q, z, r, s)
            run("crafted-valid", sig, Q, comp, True, "-", "verify-message-rejects-valid-crafted")
            try:
                pr, pc = net.msg.pair_for_message_hash(sig, z)
                ok = (pr[0], pr[1]) == Q and pc is comp
            except Exception:  # noqa
                ok = False
            t.case(key=(net.symbol, "recover", sig))
            if not ok:
                v("recovery-not-signer", "pair_for_message_hash does not return the key the signature is valid for", (net.symbol, sig),
                  REPO_HDR + "from pycoin.networks.registry import network_for_netcode as nf; N=nf(%r); print(N.msg.pair_for_message_hash(%r, %d))" % (net.symbol, sig, z))
            # (iv) wrong parity: recovers another key -> False for Q
            run("wrong-parity", make_sig(27 + ((h - 27) ^ 1), r, s), Q, comp, False, "verify-message-accepts-wrong-parity", "-")
            # (ii) small s and its non-canonical twin s + n; s = 0
            s0 = rng.randrange(1, 2 ** 256 - N)
            Q0 = pt_mul(pt_add(pt_mul(R, s0), pt_mul(G, -z % N)), pow(r, -1, N))
            if Q0 is not None:
                run("crafted-valid-small-s", make_sig(h, r, s0), Q0, comp, True, "-", "verify-message-rejects-valid-crafted")
                run("s-plus-n", make_sig(h, r, s0 + N), Q0, comp, False, "verify-message-accepts-s-ge-n", "-")
            Qz = pt_mul(G, (-z * pow(r, -1, N)) % N)
            if Qz is not None:
                run("s-zero", make_sig(h, r, 0), Qz, comp, False, "verify-message-accepts-s-zero", "-")
            # (iii) nonce x >= n
            x = N + rng.randrange(0, P - N)
            Rb = None
            while Rb is None:
                x += 1
                Rb = lift_x(x, i % 2) if x < P else None
                if x >= P:
                    x = N
            rb = x - N
            if rb == 0:
                continue
            sb = rng.randrange(1, N)
            Qb = pt_mul(pt_add(pt_mul(Rb, sb), pt_mul(G, -z % N)), pow(rb, -1, N))
            if Qb is None:
                continue
            hb = 27 + 2 + (Rb[1] & 1) + (4 if comp else 0)
            sigb = make_sig(hb, rb, sb)
            assert core_recover(strict_b64(sigb), z) == (Qb, comp) and ecdsa_ok(Qb, z, rb, sb)
            run("valid-recid-2-3", sigb, Qb, comp, True, "-", "verify-message-valid-recid-2-3-not-accepted")
            # non-canonical: r = x itself (>= n), recid 0/1; the bare recovery formula yields Qb again (r = x-n mod n)
            run("r-ge-n-noncanonical", make_sig(hb - 2, x, sb), Qb, comp, False, "verify-message-accepts-r-ge-n", "-")
    t.exhaustive = False
    res = t.result()
    res["violation_counts"] = dict(v.count)
    return res
