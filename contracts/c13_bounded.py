"""C13 (Tier B, bounded): transaction construction conserves value to the satoshi.

Oracle = the property statement.  Reference computations (expected split, scripts for the pay-to addresses, source
transaction database contents, decimal conversions) are done here independently of pycoin.
"""
import decimal
import hashlib
import itertools
import random

from pyvc.bounded import bounded, Tally

from pycoin.coins.exceptions import BadSpendableError
from pycoin.coins.tx_utils import distribute_from_split_pool, split_with_remainder
from pycoin import convention
from pycoin.symbols.btc import network as N

MAX_SAT = 21 * 10 ** 14
MAX_PER_KEY = 3


class KTally(Tally):
    """Tally keeping at most MAX_PER_KEY violations per finding key (one defect cannot crowd out another)."""

    def __init__(self, rule):
        super().__init__(rule)
        self.per_key = {}

    def violation(self, what, inputs, repro=None, finding_key=None):
        k = finding_key or what
        self.per_key[k] = self.per_key.get(k, 0) + 1
        if self.per_key[k] <= MAX_PER_KEY:
            super().violation(what, inputs, repro, finding_key)

    def result(self):
        r = super().result()
        r["violation_counts_by_key"] = dict(self.per_key)
        return r


# ----------------------------------------------------------------------------------------------------------------
# fixtures: pay-to addresses with independently known scripts
# ----------------------------------------------------------------------------------------------------------------

def _h(n, tag):
    return hashlib.sha256(b"c13/%s/%d" % (tag, n)).digest()


_ADDR = []


def addresses():
    """[(address, expected script)] - p2pkh, p2sh, p2wpkh, p2wsh"""
    if not _ADDR:
        for i in range(24):
            h20, h32 = _h(i, b"a")[:20], _h(i, b"w")
            kind = i % 4
            if kind == 0:
                _ADDR.append((N.address.for_p2pkh(h20), b"\x76\xa9\x14" + h20 + b"\x88\xac"))
            elif kind == 1:
                _ADDR.append((N.address.for_p2sh(h20), b"\xa9\x14" + h20 + b"\x87"))
            elif kind == 2:
                _ADDR.append((N.address.for_p2pkh_wit(h20), b"\x00\x14" + h20))
            else:
                _ADDR.append((N.address.for_p2sh_wit(h32), b"\x00\x20" + h32))
    return _ADDR


Spendable = N.tx.Spendable
VALUE_EDGES = [1, 2, 3, 9, 10, 11, 545, 546, 547, 99999, 100000, 100001, 10 ** 8 - 1, 10 ** 8, 10 ** 8 + 1,
               MAX_SAT - 1, MAX_SAT]


def rand_value(rng):
    r = rng.random()
    if r < 0.3:
        return rng.choice(VALUE_EDGES)
    if r < 0.6:
        return rng.randrange(1, 200)
    if r < 0.8:
        return rng.randrange(1, 10 ** 9)
    return rng.randrange(1, MAX_SAT + 1)


def make_spendables(rng, values):
    addrs = addresses()
    out = []
    for j, v in enumerate(values):
        script = rng.choice(addrs)[1]
        out.append(Spendable(v, script, _h(rng.getrandbits(30), b"txh"), rng.choice([0, 1, 2, 7, 0xfffffffe])))
    return out


def expected_split(remaining, z):
    q, r = divmod(remaining, z)
    return [q + 1] * r + [q] * (z - r)


def describe(values, payables, fee):
    return {"spendable_values": values, "payables": [p if isinstance(p, str) else list(p) for p in payables],
            "fee": fee}


def repro_create(values, payables, fee):
    return ("from pycoin.symbols.btc import network as N; S=N.tx.Spendable; sp=[S(v, b'\\x51', bytes([i+1])*32, 0) "
            "for i,v in enumerate(%r)]; tx=N.tx_utils.create_tx(sp, %r, fee=%r); print([o.coin_value for o in "
            "tx.txs_out], tx.fee())" % (values, payables, fee))


def check_create_tx(t, rng, values, pay_spec, fee, as_kind="obj"):
    """pay_spec: list of amounts, 0 = unspecified.  Evaluates the whole create_tx contract for one input."""
    addrs = addresses()
    spendables = make_spendables(rng, values)
    payables, want_scripts = [], []
    for j, amt in enumerate(pay_spec):
        addr, script = addrs[(j * 5 + len(values)) % len(addrs)]
        want_scripts.append(script)
        if amt == 0:
            payables.append(addr if (j + fee) % 2 == 0 else (addr, 0))
        else:
            payables.append((addr, amt))
    total_in = sum(values)
    fixed = sum(pay_spec)
    z = sum(1 for a in pay_spec if a == 0)
    remaining = total_in - fixed - fee
    must_raise = z > 0 and remaining < z
    key = (tuple(values), tuple(pay_spec), fee, as_kind)
    nontrivial = z > 0
    t.case(key=key, nontrivial=nontrivial,
           sample={"in": values, "pay": pay_spec, "fee": fee, "remaining": remaining, "must_raise": must_raise})
    inputs = describe(values, payables, fee)
    repro = repro_create(values, payables, fee)
    if as_kind == "text":
        arg = [s.as_text() for s in spendables]
    elif as_kind == "dict":
        arg = [s.as_dict() for s in spendables]
    else:
        arg = list(spendables)
    try:
        tx = N.tx_utils.create_tx(arg, payables, fee=fee)
    except ValueError as e:
        if not must_raise:
            t.violation("create_tx raised ValueError although funds suffice (remaining %d >= %d unspecified outputs)"
                        % (remaining, z), inputs, repro, "create-tx-spurious-error")
        return None
    except Exception as e:  # noqa
        if must_raise:
            t.violation("insufficient funds raised %s instead of ValueError" % type(e).__name__, inputs, repro,
                        "create-tx-insufficient-wrong-exception")
        else:
            t.violation("create_tx raised %s: %s" % (type(e).__name__, e), inputs, repro,
                        "create-tx-exception-" + type(e).__name__)
        return None
    if must_raise:
        t.violation("insufficient funds (remaining %d for %d unspecified outputs) produced a transaction with outputs "
                    "%s" % (remaining, z, [o.coin_value for o in tx.txs_out]), inputs, repro,
                    "create-tx-insufficient-funds-not-raised")
        return tx
    outs = [o.coin_value for o in tx.txs_out]
    if len(outs) != len(pay_spec):
        t.violation("number of outputs differs from number of payables", inputs, repro, "create-tx-output-count")
        return tx
    # fixed outputs untouched; each output pays its own payable
    for j, amt in enumerate(pay_spec):
        if amt and outs[j] != amt:
            t.violation("fixed output %d changed from %d to %d" % (j, amt, outs[j]), inputs, repro,
                        "create-tx-fixed-output-changed")
        if bytes(tx.txs_out[j].script) != want_scripts[j]:
            t.violation("output %d does not pay to its payable's address" % j, inputs, repro,
                        "create-tx-output-script")
    if z > 0:
        if sum(outs) + fee != total_in:
            t.violation("outputs (%d) + fee (%d) != inputs (%d): %+d satoshi" % (sum(outs), fee, total_in,
                                                                                sum(outs) + fee - total_in),
                        inputs, repro, "create-tx-value-not-conserved")
        unspec = [outs[j] for j, a in enumerate(pay_spec) if a == 0]
        if any(v <= 0 for v in unspec):
            t.violation("an unspecified output is not positive: %s" % unspec, inputs, repro,
                        "create-tx-nonpositive-split-output")
        if max(unspec) - min(unspec) > 1:
            t.violation("unspecified outputs differ by more than one satoshi: %s" % unspec, inputs, repro,
                        "create-tx-split-uneven")
        if any(unspec[i] < unspec[i + 1] for i in range(len(unspec) - 1)):
            t.violation("a later unspecified output got the remainder before an earlier one: %s" % unspec, inputs,
                        repro, "create-tx-remainder-order")
        if unspec != expected_split(remaining, z):
            t.violation("unspecified outputs %s != expected %s" % (unspec, expected_split(remaining, z)), inputs,
                        repro, "create-tx-split-values")
    # reported fee
    try:
        if tx.total_in() != total_in or tx.total_out() != sum(outs) or tx.fee() != total_in - sum(outs):
            t.violation("tx.fee()/total_in()/total_out() != inputs - outputs", inputs, repro, "tx-fee-arithmetic")
        if z > 0 and tx.fee() != fee:
            t.violation("tx.fee() %d != requested fee %d" % (tx.fee(), fee), inputs, repro, "tx-fee-not-requested")
    except Exception as e:  # noqa
        t.violation("tx.fee() raised %s" % type(e).__name__, inputs, repro, "tx-fee-exception")
    # pairing
    if len(tx.txs_in) != len(spendables) or len(tx.unspents) != len(spendables):
        t.violation("inputs/unspents count differs from spendables", inputs, repro, "create-tx-input-pairing")
    else:
        for i, s in enumerate(spendables):
            ti, u = tx.txs_in[i], tx.unspents[i]
            ok = bytes(ti.previous_hash) == s.tx_hash and ti.previous_index == s.tx_out_index
            ok = ok and u.coin_value == s.coin_value and bytes(u.script) == s.script
            ok = ok and bytes(getattr(u, "tx_hash", b"")) == s.tx_hash and getattr(u, "tx_out_index", None) == s.tx_out_index
            if as_kind == "obj":
                ok = ok and u is s
            if not ok:
                t.violation("input %d is not paired with spendable %d" % (i, i), inputs, repro,
                            "create-tx-input-pairing")
                break
    return tx


def pay_specs_with_target(rng, total_in, z, n_fixed, remaining):
    """choose fixed amounts (>=1 each) and a fee >= 0 so that total_in - fixed - fee == remaining; None if impossible"""
    budget = total_in - remaining
    if budget < n_fixed:
        return None
    fixed = []
    left = budget
    for k in range(n_fixed):
        hi = left - (n_fixed - k - 1)
        v = rng.choice([1, hi, rng.randrange(1, hi + 1), max(1, min(hi, rng.choice(VALUE_EDGES)))])
        v = max(1, min(hi, v))
        fixed.append(v)
        left -= v
    fee = left
    spec = fixed + [0] * z
    rng.shuffle(spec)
    return spec, fee


# ----------------------------------------------------------------------------------------------------------------
# 1. split_with_remainder exhaustive
# ----------------------------------------------------------------------------------------------------------------

def _check_split(t, tot, c):
    t.case(key=(tot, c), nontrivial=c >= 2, sample={"total": tot, "count": c})
    repro = "from pycoin.coins.tx_utils import split_with_remainder as s; print(list(s(%d, %d)))" % (tot, c)
    try:
        got = list(N.tx_utils.split_with_remainder(tot, c))
        got2 = list(split_with_remainder(tot, c))
    except Exception as e:  # noqa
        t.violation("split_with_remainder raised %s" % type(e).__name__, (tot, c), repro, "split-exception")
        return
    q, r = tot // c, tot % c
    ok = (len(got) == c and sum(got) == tot and all(type(v) is int for v in got) and all(v in (q, q + 1) for v in got)
          and all(got[i] >= got[i + 1] for i in range(c - 1)) and sum(1 for v in got if v == q + 1) == r
          and got == got2)
    if not ok:
        what = ("sum != total" if sum(got) != tot else "count wrong" if len(got) != c else
                "remainder not on the earlier items / uneven")
        t.violation("split_with_remainder: " + what, {"total": tot, "count": c, "got": got[:20]}, repro,
                    "split-with-remainder-" + what.split(" ")[0])


SPLIT_RULE = ("one case = (total, count); result must have `count` items summing exactly to total, every item floor or "
              "floor+1, non-increasing (earlier items carry the remainder), exactly total%count items carry the extra "
              "satoshi; non-trivial iff count>=2")


@bounded("C13.split_with_remainder_exhaustive", props=["C13"],
         bound="exhaustive: all totals 0..60 x all counts 1..12 (thorough 0..400 x 1..40)")
def c13_split_exhaustive(opts):
    quick = opts["tier"] == "quick"
    t = KTally(rule=SPLIT_RULE)
    for tot in range(0, 61 if quick else 401):
        for c in range(1, 13 if quick else 41):
            _check_split(t, tot, c)
    t.exhaustive = True
    return t.result()


@bounded("C13.split_with_remainder_large", props=["C13"],
         bound="boundary totals (1..3, 546, 1e5, 1e8, 21e14-1, 21e14, 63e14, 2^63-1, 2^64+1) x counts {1,2,3,7,10,12,13,"
               "100,999,1000} + 2000 (thorough 30000) seeded (total <= 21e14, count < 50)")
def c13_split_large(opts):
    rng = random.Random(opts["seed"] * 1000003 + 1301)
    quick = opts["tier"] == "quick"
    t = KTally(rule=SPLIT_RULE)
    for tot in VALUE_EDGES + [MAX_SAT * 3, 2 ** 63 - 1, 2 ** 64 + 1]:
        for c in (1, 2, 3, 7, 10, 12, 13, 100, 999, 1000):
            _check_split(t, tot, c)
    for _ in range(2000 if quick else 30000):
        _check_split(t, rng.randrange(0, MAX_SAT + 1) if rng.random() < 0.5 else rng.randrange(0, 5000),
                     rng.randrange(1, 50))
    t.exhaustive = False
    return t.result()


# ----------------------------------------------------------------------------------------------------------------
# 2. create_tx: exhaustive small space
# ----------------------------------------------------------------------------------------------------------------

@bounded("C13.create_tx_small_exhaustive", props=["C13"],
         bound="all (total_in 1..16 as one or two spendables, fixed-amount patterns {[],[1],[3],[2,2]}, 1..5 (thorough "
               "total_in 1..30, 1..7) unspecified outputs, every fee 0..total_in+1): every remainder class and both "
               "error boundaries (remaining<0, 0<=remaining<count)")
def c13_create_small(opts):
    rng = random.Random(opts["seed"] * 1000003 + 1302)
    quick = opts["tier"] == "quick"
    t = KTally(rule="one case = (spendable values, payable amounts with 0=unspecified, fee, spendable form).  If "
                    "inputs - fixed - fee >= number of unspecified outputs: create_tx must return a tx with outputs+fee=="
                    "inputs, fixed outputs untouched, unspecified outputs positive / within 1 satoshi / earlier ones "
                    "larger, tx.fee()==inputs-outputs==fee, input i and unspents[i] == spendable i, output j pays "
                    "payable j; otherwise it must raise ValueError")
    max_total = 16 if quick else 30
    max_z = 5 if quick else 7
    for total in range(1, max_total + 1):
        for values in ([total], [1, total - 1] if total >= 2 else None, [total - 2, 1, 1] if total >= 3 and not quick else None):
            if values is None:
                continue
            for fixed in ([], [1], [3], [2, 2]):
                for z in range(1, max_z + 1):
                    # interleave fixed outputs between the unspecified ones
                    spec = [0] * z
                    for k, f in enumerate(fixed):
                        spec.insert(min(len(spec), 1 + 2 * k), f)
                    for fee in range(0, total + 2):
                        check_create_tx(t, rng, values, spec, fee)
    t.exhaustive = True
    return t.result()


# ----------------------------------------------------------------------------------------------------------------
# 3. create_tx: boundary + seeded
# ----------------------------------------------------------------------------------------------------------------

@bounded("C13.create_tx_boundary_seeded", props=["C13"],
         bound="1..8 spendables with values from {1,2,3,..,546,1e5,1e8,21e14-1,21e14} + seeded 1..21e14; 0..6 fixed + "
               "1..12 unspecified payables in shuffled positions; fees >= 0 chosen so that remaining hits {-1,0,z-1,z,"
               "z+1,2z-1,2z,qz+every remainder class,seeded}; spendables as objects / as_text / as_dict; also all-"
               "fixed payables and fee='standard'; quick 6000 / thorough 120000 seeded cases")
def c13_create_seeded(opts):
    rng = random.Random(opts["seed"] * 1000003 + 1303)
    quick = opts["tier"] == "quick"
    t = KTally(rule="as C13.create_tx_small_exhaustive; distinct by (values, payable spec, fee, form); non-trivial iff "
                    "at least one output is unspecified")
    n_cases = 6000 if quick else 120000
    made = 0
    # systematic remainder classes
    plans = []
    for z in range(1, 13):
        for rem in range(z):
            for q in (1, 2, rng.randrange(3, 10 ** 6), rng.randrange(10 ** 6, MAX_SAT // 13)):
                plans.append((z, q * z + rem))
        for r in (-1, 0, z - 1, z, z + 1, 2 * z - 1, 2 * z):
            plans.append((z, r))
    while made < n_cases:
        if plans:
            z, remaining = plans.pop()
        else:
            z = rng.choice([1, 1, 2, 3, 4, 5, 7, 12])
            remaining = rng.choice([-1, 0, z - 1, z, z + 1, 2 * z - 1, 2 * z, rng.randrange(0, 5 * z + 1),
                                    rng.randrange(0, 10 ** 6), None])
        k = rng.choice([1, 1, 2, 3, 5, 8])
        values = [rand_value(rng) for _ in range(k)]
        total_in = sum(values)
        if remaining is None or remaining > total_in:
            remaining = rng.randrange(0, total_in + 1)
        n_fixed = rng.choice([0, 0, 1, 2, 3, 6])
        got = pay_specs_with_target(rng, total_in, z, n_fixed, remaining)
        if got is None:
            got = pay_specs_with_target(rng, total_in, z, 0, remaining)
            if got is None:
                continue
        spec, fee = got
        check_create_tx(t, rng, values, spec, fee, as_kind=rng.choice(["obj", "obj", "text", "dict"]))
        made += 1
    # all-fixed payables: no split pool, only the fee report and pairing are constrained by the property
    for _ in range(300 if quick else 5000):
        values = [rand_value(rng) for _ in range(rng.randrange(1, 5))]
        total_in = sum(values)
        n_fixed = rng.randrange(1, 5)
        got = pay_specs_with_target(rng, total_in, 0, n_fixed, 0)
        if got:
            spec, fee = got
            check_create_tx(t, rng, values, spec, fee)
    # fee="standard": fee is the documented 10000 per started 1000 bytes of the (unsigned) tx
    for _ in range(100 if quick else 2000):
        k = rng.randrange(1, 30)
        values = [rng.randrange(20000, 10 ** 9) for _ in range(k)]
        z = rng.randrange(1, 6)
        spendables = make_spendables(rng, values)
        payables = [addresses()[j][0] for j in range(z)]
        t.case(key=("standard", tuple(values), z), sample=None)
        try:
            tx = N.tx_utils.create_tx(spendables, payables)
            size = len(tx.as_bin())
            want_fee = 10000 * ((size + 999) // 1000)
            outs = [o.coin_value for o in tx.txs_out]
            if tx.fee() != sum(values) - sum(outs) or tx.fee() != want_fee or outs != expected_split(sum(values) - want_fee, z):
                t.violation("fee='standard': value not conserved or fee != 10000/kB", {"values": values, "z": z, "outs": outs},
                            None, "create-tx-standard-fee")
        except Exception as e:  # noqa
            t.violation("fee='standard' raised %s" % type(e).__name__, {"values": values, "z": z}, None,
                        "create-tx-standard-fee")
    t.exhaustive = False
    return t.result()


# ----------------------------------------------------------------------------------------------------------------
# 4. distribute_from_split_pool called directly on hand-built transactions
# ----------------------------------------------------------------------------------------------------------------

@bounded("C13.distribute_from_split_pool", props=["C13"],
         bound="hand-built Tx objects (unspents as plain TxOut or Spendable): 1..6 inputs, outputs with 0..5 fixed and "
               "0..12 zero-valued in seeded positions, fee over the same boundary set as create_tx; quick 4000 / "
               "thorough 60000 cases")
def c13_distribute(opts):
    rng = random.Random(opts["seed"] * 1000003 + 1304)
    quick = opts["tier"] == "quick"
    Tx = N.tx
    t = KTally(rule="one case = (unspent values, output values before, fee).  With z>0 zero-valued outputs and "
                    "remaining=inputs-fixed-fee: remaining>=z -> returns z, zero outputs become the expected split (in "
                    "output order), fixed outputs and scripts untouched, outputs+fee==inputs; remaining<z -> raises "
                    "ValueError.  z==0 -> returns 0 and changes nothing")
    for _ in range(4000 if quick else 60000):
        k = rng.randrange(1, 7)
        values = [rand_value(rng) for _ in range(k)]
        total_in = sum(values)
        z = rng.choice([0, 1, 1, 2, 3, 5, 12])
        if z:
            remaining = rng.choice([-1, 0, z - 1, z, z + 1, 2 * z - 1, rng.randrange(0, 4 * z + 1), rng.randrange(0, total_in + 1)])
            remaining = min(remaining, total_in)
        else:
            remaining = 0
        got = pay_specs_with_target(rng, total_in, z, rng.choice([0, 1, 2, 5]), remaining) or \
            pay_specs_with_target(rng, total_in, z, 0, remaining)
        if got is None:
            continue
        spec, fee = got
        scripts = [bytes([0x51 + (j % 16)]) * (1 + j % 3) for j in range(len(spec))]
        txs_in = [Tx.TxIn(_h(i, b"d"), i) for i in range(k)]
        txs_out = [Tx.TxOut(v, s) for v, s in zip(spec, scripts)]
        tx = Tx(1, txs_in, txs_out)
        if rng.random() < 0.5:
            tx.set_unspents([Tx.TxOut(v, b"\x51") for v in values])
        else:
            tx.set_unspents([Spendable(v, b"\x51", _h(i, b"d"), i) for i, v in enumerate(values)])
        t.case(key=(tuple(values), tuple(spec), fee), nontrivial=z > 0,
               sample={"in": values, "outs": spec, "fee": fee})
        inputs = {"unspent_values": values, "outputs_before": spec, "fee": fee}
        repro = ("from pycoin.symbols.btc import network as N; from pycoin.coins.tx_utils import distribute_from_split_"
                 "pool as d; T=N.tx; tx=T(1,[T.TxIn(bytes([i+1])*32,0) for i in range(%d)],[T.TxOut(v,b'\\x51') for v "
                 "in %r]); tx.set_unspents([T.TxOut(v,b'\\x51') for v in %r]); print(d(tx,%d), [o.coin_value for o in "
                 "tx.txs_out])" % (k, spec, values, fee))
        must_raise = z > 0 and total_in - sum(spec) - fee < z
        try:
            ret = distribute_from_split_pool(tx, fee)
        except ValueError:
            if not must_raise:
                t.violation("distribute_from_split_pool raised although funds suffice", inputs, repro,
                            "distribute-spurious-error")
            continue
        except Exception as e:  # noqa
            t.violation("distribute_from_split_pool raised %s" % type(e).__name__, inputs, repro,
                        "distribute-exception-" + type(e).__name__)
            continue
        outs = [o.coin_value for o in tx.txs_out]
        if must_raise:
            t.violation("insufficient funds not raised; outputs now %s" % outs, inputs, repro,
                        "create-tx-insufficient-funds-not-raised")
            continue
        want = list(spec)
        if z:
            it = iter(expected_split(total_in - sum(spec) - fee, z))
            want = [v if v else next(it) for v in spec]
        if ret != z:
            t.violation("return value %r != number of split outputs %d" % (ret, z), inputs, repro, "distribute-return")
        if outs != want or [bytes(o.script) for o in tx.txs_out] != scripts:
            t.violation("outputs after distribution %s != expected %s" % (outs, want), inputs, repro,
                        "create-tx-split-values")
        if z and sum(outs) + fee != total_in:
            t.violation("outputs + fee != inputs", inputs, repro, "create-tx-value-not-conserved")
        if tx.fee() != total_in - sum(outs):
            t.violation("tx.fee() != inputs - outputs", inputs, repro, "tx-fee-arithmetic")
    t.exhaustive = False
    return t.result()


# ----------------------------------------------------------------------------------------------------------------
# 5. validate_unspents
# ----------------------------------------------------------------------------------------------------------------

def build_sources(rng, n_src):
    """source transactions (hand-built, unsigned - validate_unspents only looks at ids, amounts and scripts)"""
    Tx = N.tx
    srcs = []
    for s in range(n_src):
        n_out = rng.randrange(1, 5)
        outs = [Tx.TxOut(rand_value(rng), rng.choice(addresses())[1]) for _ in range(n_out)]
        ins = [Tx.TxIn(_h(rng.getrandbits(40), b"src"), rng.randrange(0, 4), bytes([0x51]) * rng.randrange(0, 5))
               for _ in range(rng.randrange(1, 3))]
        srcs.append(Tx(rng.choice([1, 2]), ins, outs, rng.choice([0, 5])))
    return srcs


@bounded("C13.validate_unspents", props=["C13"],
         bound="seeded spending txs over 1..4 source txs x 1..6 inputs; honest db accepted; every single discrepancy at "
               "every input: amount +-1/+-large/0/swapped with a sibling output, script changed/truncated/emptied/"
               "swapped, tampering before create_tx and after (set_unspents), source tx in db replaced by one with a "
               "different amount/script (with the recorded value honest, or lying in agreement with the forged source), compensating double amount changes; quick 250 / thorough 5000 base txs")
def c13_validate_unspents(opts):
    rng = random.Random(opts["seed"] * 1000003 + 1305)
    quick = opts["tier"] == "quick"
    Tx = N.tx
    t = KTally(rule="honest case = (spending tx id): validate_unspents(db) must return tx.fee() == inputs-outputs.  "
                    "discrepancy case = (spending tx id, input index, kind): recorded amount or script of one non-"
                    "coinbase input differs from output `previous_index` of the source tx in the db -> the call must "
                    "not return normally (any exception)")
    exc_types = {}
    for base in range(250 if quick else 5000):
        srcs = build_sources(rng, rng.randrange(1, 5))
        db = dict((tx.hash(), tx) for tx in srcs)
        # independent snapshot of the truth
        truth = {}
        for tx in srcs:
            for i, o in enumerate(tx.txs_out):
                truth[(tx.hash(), i)] = (o.coin_value, bytes(o.script))
        pool = list(truth)
        rng.shuffle(pool)
        picked = pool[:rng.randrange(1, min(6, len(pool)) + 1)]

        def honest_spendables():
            return [Spendable(truth[p][0], truth[p][1], p[0], p[1]) for p in picked]

        total_in = sum(truth[p][0] for p in picked)
        z = rng.randrange(1, 4)
        fee = rng.choice([0, 1, min(10000, total_in - z), rng.randrange(0, total_in - z + 1)]) if total_in > z else 0
        fee = max(0, fee)
        payables = [addresses()[j][0] for j in range(z)]
        if total_in - fee < z:
            continue
        tx = N.tx_utils.create_tx(honest_spendables(), payables, fee=fee)
        tid = tx.hash()
        t.case(key=("honest", tid), sample={"inputs": len(picked), "fee": fee})
        try:
            r = tx.validate_unspents(db)
            if r != fee or r != total_in - sum(o.coin_value for o in tx.txs_out):
                t.violation("validate_unspents returned %r, expected the fee %d" % (r, fee), {"fee": fee}, None,
                            "validate-unspents-wrong-fee")
        except Exception as e:  # noqa
            t.violation("honest spendables rejected by validate_unspents: %s" % type(e).__name__, {"fee": fee}, None,
                        "validate-unspents-honest-rejected")

        def expect_reject(kind, idx, tx2, db2):
            t.case(key=("bad", tid, idx, kind), sample=None)
            try:
                r2 = tx2.validate_unspents(db2)
            except Exception as e2:  # noqa
                exc_types[type(e2).__name__] = exc_types.get(type(e2).__name__, 0) + 1
                return
            src = db2.get(tx2.txs_in[idx].previous_hash)
            t.violation("validate_unspents returned normally (%r) although input %d's recorded %s differs from the "
                        "source tx" % (r2, idx, kind.split("-")[0]),
                        {"kind": kind, "input": idx, "recorded": (tx2.unspents[idx].coin_value, tx2.unspents[idx].script.hex()),
                         "source": truth.get(picked[idx])},
                        "build tx spending output %d of a db tx, set tx.unspents[%d] to a TxOut with a different %s, "
                        "call tx.validate_unspents(db)" % (picked[idx][1], idx, kind.split("-")[0]),
                        "validate-unspents-accepts-wrong-" + kind.split("-")[0])

        for idx, p in enumerate(picked):
            val, script = truth[p]
            sibling = [q for q in truth if q[0] == p[0] and q != p]
            amount_variants = {"amount-plus1": val + 1, "amount-minus1": val - 1, "amount-zero": 0,
                               "amount-double": val * 2, "amount-big": val + rng.randrange(2, 10 ** 9)}
            if sibling and truth[sibling[0]][0] != val:
                amount_variants["amount-sibling"] = truth[sibling[0]][0]
            script_variants = {"script-flipbit": bytes([script[0] ^ 1]) + script[1:], "script-truncated": script[:-1],
                               "script-empty": b"", "script-extended": script + b"\x00"}
            if sibling and truth[sibling[0]][1] != script:
                script_variants["script-sibling"] = truth[sibling[0]][1]
            for kind, v2 in amount_variants.items():
                if v2 == val or v2 < 0:
                    continue
                # (a) lie before building
                sp = honest_spendables()
                sp[idx] = Spendable(v2, script, p[0], p[1])
                try:
                    tx2 = N.tx_utils.create_tx(sp, payables, fee=0)
                except ValueError:
                    tx2 = None
                if tx2 is not None:
                    expect_reject(kind + "/pre", idx, tx2, db)
                # (b) tamper the recorded unspents afterwards with a plain TxOut
                tx3 = N.tx_utils.create_tx(honest_spendables(), payables, fee=fee)
                us = list(tx3.unspents)
                us[idx] = Tx.TxOut(v2, script)
                tx3.set_unspents(us)
                expect_reject(kind + "/post", idx, tx3, db)
            for kind, s2 in script_variants.items():
                if s2 == script:
                    continue
                sp = honest_spendables()
                sp[idx] = Spendable(val, s2, p[0], p[1])
                expect_reject(kind + "/pre", idx, N.tx_utils.create_tx(sp, payables, fee=fee), db)
            # (c) the db hands back a source tx whose output differs (so its id no longer matches)
            src = db[p[0]]
            outs2 = [Tx.TxOut(o.coin_value, o.script) for o in src.txs_out]
            if rng.random() < 0.5:
                outs2[p[1]] = Tx.TxOut(val + 1, script)
                kind = "amount-db-source-replaced"
            else:
                outs2[p[1]] = Tx.TxOut(val, script + b"\x51")
                kind = "script-db-source-replaced"
            fake = Tx(src.version, list(src.txs_in), outs2, src.lock_time)
            db2 = dict(db)
            db2[p[0]] = fake
            expect_reject(kind, idx, N.tx_utils.create_tx(honest_spendables(), payables, fee=fee), db2)
            # (d) the recorded amount/script is wrong AND the db hands back a forged source tx that agrees with the
            #     lie: the forged tx does not hash to the outpoint's tx id, so it cannot authenticate anything
            sp = honest_spendables()
            lie = outs2[p[1]]
            sp[idx] = Spendable(lie.coin_value, lie.script, p[0], p[1])
            expect_reject(kind.split("-")[0] + "-db-source-forged-to-match", idx,
                          N.tx_utils.create_tx(sp, payables, fee=fee), db2)
        # compensating double discrepancy (total unchanged)
        if len(picked) >= 2 and truth[picked[0]][0] > 1:
            sp = honest_spendables()
            sp[0] = Spendable(truth[picked[0]][0] - 1, truth[picked[0]][1], picked[0][0], picked[0][1])
            sp[1] = Spendable(truth[picked[1]][0] + 1, truth[picked[1]][1], picked[1][0], picked[1][1])
            expect_reject("amount-compensating-pair", 0, N.tx_utils.create_tx(sp, payables, fee=fee), db)
    t.exhaustive = False
    res = t.result()
    res["rejection_exception_types"] = exc_types
    return res


# ----------------------------------------------------------------------------------------------------------------
# 6. satoshi <-> BTC / mBTC
# ----------------------------------------------------------------------------------------------------------------

def amounts(rng, quick):
    s = set()
    w = 300 if quick else 3000
    for k in range(0, 16):
        p = 10 ** k
        for m in (1, 2, 5, 9):
            for d in range(-w, w + 1):
                v = m * p + d
                if 0 <= v <= MAX_SAT:
                    s.add(v)
    for d in range(0, 3 * w):
        s.add(d)
        s.add(MAX_SAT - d)
    for k in range(0, 51):
        for d in (-1, 0, 1):
            v = 2 ** k + d
            if 0 <= v <= MAX_SAT:
                s.add(v)
    out = sorted(s)
    for _ in range(20000 if quick else 600000):
        r = rng.random()
        if r < 0.5:
            out.append(rng.randrange(0, MAX_SAT + 1))
        elif r < 0.8:
            out.append(rng.randrange(0, 10 ** rng.randrange(1, 16)))
        else:
            # many trailing zeros / nines
            k = rng.randrange(0, 15)
            out.append(min(MAX_SAT, rng.randrange(0, 10 ** (15 - k) + 1) * 10 ** k))
    return out


def plain(n, places):
    """independent exact decimal string of n / 10**places"""
    q, r = divmod(n, 10 ** places)
    return "%d.%0*d" % (q, places, r)


@bounded("C13.satoshi_decimal_conversions", props=["C13"],
         bound="every amount within +-300 (thorough +-3000) of m*10^k (m in 1,2,5,9; k=0..15), 0..900, 21e14-900..21e14, "
               "2^k+-1, plus 20000 (thorough 600000) seeded amounts in 0..21e14; each as int -> Decimal and as decimal "
               "strings (fixed-point, stripped, str(Decimal), Decimal object) -> int, for BTC and mBTC")
def c13_conversions(opts):
    rng = random.Random(opts["seed"] * 1000003 + 1306)
    quick = opts["tier"] == "quick"
    D = decimal.Decimal
    t = KTally(rule="one case = one satoshi amount n.  satoshi_to_btc(n) must equal the exact rational n/10^8 (compared as "
                    "Decimal built from an independent fixed-point string) and satoshi_to_mbtc(n) == n/10^5; "
                    "btc_to_satoshi / mbtc_to_satoshi of the Decimal, of its str(), of the fixed-point string, and of the "
                    "string with trailing zeros stripped must give back exactly n (type int)")
    seen = set()
    for n in amounts(rng, quick):
        if n in seen:
            continue
        seen.add(n)
        t.case(key=n, nontrivial=True, sample=n)
        for unit, places, fwd, back in (("btc", 8, convention.satoshi_to_btc, convention.btc_to_satoshi),
                                        ("mbtc", 5, convention.satoshi_to_mbtc, convention.mbtc_to_satoshi)):
            repro = ("from pycoin.convention import *; print(repr(satoshi_to_%s(%d)), %s_to_satoshi('%s'))"
                     % (unit, n, unit, plain(n, places)))
            try:
                s = plain(n, places)
                d = fwd(n)
                if not isinstance(d, D) or d != D(s):
                    t.violation("satoshi_to_%s(n) != n/10^%d exactly" % (unit, places), {"n": n, "got": repr(d)},
                                repro, "satoshi-to-%s-inexact" % unit)
                stripped = s.rstrip("0").rstrip(".")
                forms = [d, str(d), format(d, "f"), s, stripped, D(s), D(stripped)]
                if places == 8 and n % 10 ** 8 == 0:
                    forms.append(n // 10 ** 8)  # whole coins as int
                for f in forms:
                    r = back(f)
                    if r != n or type(r) is not int:
                        t.violation("%s_to_satoshi(%r) == %r, expected %d" % (unit, f, r, n), {"n": n, "form": repr(f)},
                                    repro, "%s-to-satoshi-inexact" % unit)
                        break
            except Exception as e:  # noqa
                t.violation("conversion raised %s: %s" % (type(e).__name__, e), {"n": n, "unit": unit}, repro,
                            "conversion-exception-" + type(e).__name__)
    t.exhaustive = False
    return t.result()


# ----------------------------------------------------------------------------------------------------------------
# totals must follow the object's current outputs / unspents (no stale state across calls)
# ----------------------------------------------------------------------------------------------------------------
@bounded("C13.totals_track_current_state", props=["C13"],
         bound="seeded histories on one Tx object: query total_out / total_in / fee, then change an output value, append or "
               "remove an output, replace the unspents, and query again; quick 600 / thorough 6000 histories of 2..5 steps")
def c13_totals_history(opts):
    rng = random.Random(opts["seed"] * 1000003 + 1399)
    quick = opts["tier"] == "quick"
    Tx = N.tx
    t = KTally(rule="one case = one history.  After every step total_out() == sum of the current output values, total_in() == sum "
                    "of the current unspent values and fee() == their difference, computed here from the fields")
    for h in range(600 if quick else 6000):
        k = rng.randrange(1, 4)
        ins = [Tx.TxIn(_h(h * 7 + i, b"in"), i) for i in range(k)]
        outs = [Tx.TxOut(rand_value(rng), b"\x51") for _ in range(rng.randrange(1, 4))]
        tx = Tx(1, ins, outs)
        tx.set_unspents([Tx.TxOut(rand_value(rng), b"\x51") for _ in range(k)])
        steps = []
        ok = True
        for step in range(rng.randrange(2, 6)):
            want_out = sum(o.coin_value for o in tx.txs_out)
            want_in = sum(u.coin_value for u in tx.unspents)
            try:
                got = (tx.total_out(), tx.total_in(), tx.fee())
            except Exception as ex:
                got = repr(ex)
            if got != (want_out, want_in, want_in - want_out):
                t.violation("total_out/total_in/fee do not reflect the transaction's current outputs and unspents",
                            {"history": steps, "outputs": [o.coin_value for o in tx.txs_out], "unspents": [u.coin_value for u in tx.unspents],
                             "got": got, "want": (want_out, want_in, want_in - want_out)}, finding_key="totals-stale-or-wrong")
                ok = False
                break
            op = rng.choice(["set", "append", "pop", "unspents"])
            if op == "set":
                j = rng.randrange(len(tx.txs_out))
                tx.txs_out[j].coin_value = rand_value(rng)
            elif op == "append":
                tx.txs_out.append(Tx.TxOut(rand_value(rng), b"\x51"))
            elif op == "pop" and len(tx.txs_out) > 1:
                tx.txs_out.pop()
            else:
                tx.set_unspents([Tx.TxOut(rand_value(rng), b"\x51") for _ in range(k)])
            steps.append(op)
        t.case(("hist", h), nontrivial=ok and len(steps) >= 2, sample={"steps": steps})
    return t.result()
