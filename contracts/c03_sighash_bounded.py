"""C03 (Tier B, bounded): several signature checks inside ONE script evaluation.

Consensus computes the legacy signature hash afresh for every OP_CHECKSIG / OP_CHECKMULTISIG: script code from the last executed
OP_CODESEPARATOR, with the push of each signature being checked removed (FindAndDelete).  Scripts in which a later check
uses a different script code (a signature pushed by the script itself, a code separator in between, another hash type) are
built here with the independent reference signer of spec/consensus_script.py, and pycoin's verdict is compared with the
reference interpreter's on the valid spend and on spends with a signature replaced."""
import random

from pyvc.bounded import bounded, Tally
import spec.consensus_script as cs

from pycoin.symbols.btc import network
from pycoin.coins.SolutionChecker import ScriptError

Tx = network.tx
OP_CHECKSIG, OP_CHECKSIGVERIFY, OP_CODESEPARATOR, OP_DROP, OP_1 = 0xAC, 0xAD, 0xAB, 0x75, 0x51


def _push(b):
    return cs.push_data(b)


def _sign(secret, script_code, spec_tx, hash_type, k):
    z = int.from_bytes(cs.legacy_signature_hash(script_code, spec_tx, 0, hash_type), "big")
    r, s = cs.ecdsa_sign(secret, z, k)
    return cs.der_encode_sig(r, s) + bytes([hash_type])


def _verdict_pycoin(script_sig, script_pubkey, f):
    tx = Tx(f['version'], [Tx.TxIn(f['prev'], f['idx'], script_sig, f['seq'])], [Tx.TxOut(v, s) for v, s in f['outs']], f['lock'])
    tx.set_unspents([Tx.TxOut(100000, script_pubkey)])
    try:
        tx.check_solution(0)
        return True
    except ScriptError:
        return False
    except Exception as ex:
        return "raises %s" % type(ex).__name__


def _verdict_reference(script_sig, script_pubkey, f):
    stx = cs.SpecTx(f['version'], [cs.SpecTxIn(f['prev'], f['idx'], script_sig, f['seq'])], [cs.SpecTxOut(v, s) for v, s in f['outs']], f['lock'])
    ok, _err = cs.verify_script(script_sig, script_pubkey, [], "P2SH,WITNESS", cs.TransactionChecker(stx, 0, 100000))
    return bool(ok)


@bounded("C03.several_checksigs_one_script", props=["C03", "C04"],
         bound="seeded spends (quick 60 / thorough 600) of bare scripts with two signature checks whose script codes differ: a signature "
               "pushed by the script itself (FindAndDelete), an OP_CODESEPARATOR between the checks, different hash types; each with "
               "the valid unlocking data and with each signature replaced by one over another message")
def c03_several_checksigs(opts):
    rng = random.Random(opts["seed"] * 1000003 + 399)
    t = Tally(rule="one case = (script shape, hash types, which signature is replaced); pycoin's verdict must equal the reference "
                   "interpreter's (which recomputes the signature hash for every check)")
    for h in range(60 if opts["tier"] == "quick" else 600):
        f = dict(version=rng.choice([1, 2]), prev=bytes(rng.getrandbits(8) for _ in range(32)), idx=rng.randrange(3), seq=rng.getrandbits(32),
                 outs=[(rng.getrandbits(36), bytes([OP_1]))] * rng.randrange(1, 3), lock=rng.getrandbits(31))
        secret1, secret2 = rng.randrange(1, 2 ** 200), rng.randrange(1, 2 ** 200)
        pk1 = cs.pubkey_bytes(cs.ec_mul(secret1), rng.random() < 0.7)
        pk2 = pk1 if rng.random() < 0.5 else cs.pubkey_bytes(cs.ec_mul(secret2), True)
        sk2 = secret1 if pk2 == pk1 else secret2
        ht_a, ht_b = rng.choice([1, 2, 3, 0x81, 0x82, 0x83]), rng.choice([1, 2, 3, 0x81])
        shape = rng.choice(["embedded-sig", "codeseparator", "embedded+codesep"])
        spec_tx = cs.SpecTx(f['version'], [cs.SpecTxIn(f['prev'], f['idx'], b"", f['seq'])], [cs.SpecTxOut(v, s) for v, s in f['outs']], f['lock'])
        if shape == "codeseparator":
            # <sigB> <sigA> | <pk1> CHECKSIGVERIFY CODESEPARATOR <pk2> CHECKSIG : the second check signs the code behind the separator
            tail = _push(pk2) + bytes([OP_CHECKSIG])
            spk = _push(pk1) + bytes([OP_CHECKSIGVERIFY, OP_CODESEPARATOR]) + tail
            sig_a = _sign(secret1, spk, spec_tx, ht_a, 2 * h + 3)
            sig_b = _sign(sk2, tail, spec_tx, ht_b, 2 * h + 4)
            good = _push(sig_b) + _push(sig_a)
            bad_a = _push(sig_b) + _push(_sign(secret1, tail, spec_tx, ht_a, 2 * h + 3))
            bad_b = _push(_sign(sk2, spk, spec_tx, ht_b, 2 * h + 4)) + _push(sig_a)
        else:
            sep = bytes([OP_CODESEPARATOR]) if shape == "embedded+codesep" else b""
            # <sigA> | <pk1> CHECKSIGVERIFY [CODESEPARATOR] <sigB> <pk2> CHECKSIG : the second check signs the code without <sigB>
            code_b = (b"" if sep else _push(pk1) + bytes([OP_CHECKSIGVERIFY])) + _push(pk2) + bytes([OP_CHECKSIG])
            sig_b = _sign(sk2, code_b, spec_tx, ht_b, 2 * h + 4)
            spk = _push(pk1) + bytes([OP_CHECKSIGVERIFY]) + sep + _push(sig_b) + _push(pk2) + bytes([OP_CHECKSIG])
            sig_a = _sign(secret1, spk, spec_tx, ht_a, 2 * h + 3)
            good = _push(sig_a)
            bad_a = _push(_sign(secret1, code_b, spec_tx, ht_a, 2 * h + 3))
            wrong_b = _sign(sk2, spk, spec_tx, ht_b, 2 * h + 4)
            spk_wrong = _push(pk1) + bytes([OP_CHECKSIGVERIFY]) + sep + _push(wrong_b) + _push(pk2) + bytes([OP_CHECKSIG])
            bad_b = None
        for label, ssig, the_spk in (("valid", good, spk), ("first signature over another message", bad_a, spk),
                                     ("second signature over another message", bad_b, spk) if bad_b is not None else
                                     ("second signature over another message", _push(_sign(secret1, spk_wrong, spec_tx, ht_a, 2 * h + 3)), spk_wrong)):
            want = _verdict_reference(ssig, the_spk, f)
            got = _verdict_pycoin(ssig, the_spk, f)
            t.case((h, shape, label), nontrivial=True, sample={"shape": shape, "hash_types": [ht_a, ht_b], "case": label, "reference": want} if h < 3 else None)
            if got != want:
                t.violation("script with two signature checks (%s, %s): pycoin says %s, the reference interpreter %s" % (shape, label, got, want),
                            {"shape": shape, "case": label, "hash_types": [ht_a, ht_b], "script_sig": ssig.hex(), "script_pubkey": the_spk.hex(),
                             "tx": f['prev'].hex() + ":%d seq=%d lock=%d version=%d outs=%s" % (f['idx'], f['seq'], f['lock'], f['version'], [(v, s.hex()) for v, s in f['outs']])},
                            finding_key="several-checksigs-verdict-differs")
    return t.result()
