"""C10 (Tier B, bounded): key and signature encodings (WIF, SEC, DER) are lossless and strict.

Oracle: the property statement + SEC1 2.3.3/2.3.4 (octet-string <-> point; coordinates are field elements, i.e.
integers in [0, p-1]), the WIF convention (Base58Check(prefix || e32 [|| 01])) and X.690 TLV structure for DER.
Everything the real code is compared with is computed here independently: affine secp256k1 arithmetic, square and
cube roots, Base58Check, hash160 (hashlib), a DER encoder and a structural TLV parser.  pycoin is only ever the
system under test (and the source of the per-network prefix constants, which are network parameters).

GRS / GRSRT / TGRS are skipped explicitly: they need the C extension groestlcoin_hash which is not installed.
"""
import hashlib
import random

from pyvc.bounded import bounded, Tally

SKIPPED = ("GRS", "GRSRT", "TGRS")
MAX_PER_KEY = 3

P = 2 ** 256 - 2 ** 32 - 977
N = 0xFFFFFFFFFFFFFFFFFFFFFFFFFFFFFFFEBAAEDCE6AF48A03BBFD25E8CD0364141
GX = 0x79BE667EF9DCBBAC55A06295CE870B07029BFCDB2DCE28D959F2815B16F81798
GY = 0x483ADA7726A3C4655DA4FBFC0E1108A8FD17B448A68554199C47D08FFB10D4B8


class KTally(Tally):
    """Tally that keeps at most MAX_PER_KEY violations per finding key so one defect cannot crowd out another."""

    def __init__(self, rule):
        super().__init__(rule)
        self.per_key = {}

    def violation(self, what, inputs, repro=None, finding_key=None):
        k = finding_key or what
        self.per_key[k] = self.per_key.get(k, 0) + 1
        if self.per_key[k] <= MAX_PER_KEY:
            super().violation(what, inputs, repro, finding_key)

    def result(self):
        r = super().result()
        r["violation_counts_by_key"] = dict(self.per_key)
        return r


# ----------------------------------------------------------------------------------------------------------------
# independent references
# ----------------------------------------------------------------------------------------------------------------

def ref_add(a, b):
    if a is None:
        return b
    if b is None:
        return a
    (x1, y1), (x2, y2) = a, b
    if x1 == x2:
        if (y1 + y2) % P == 0:
            return None
        lam = 3 * x1 * x1 * pow(2 * y1, -1, P) % P
    else:
        lam = (y2 - y1) * pow(x2 - x1, -1, P) % P
    x3 = (lam * lam - x1 - x2) % P
    return (x3, (lam * (x1 - x3) - y1) % P)


def ref_mul(k, pt=(GX, GY)):
    acc = None
    while k:
        if k & 1:
            acc = ref_add(acc, pt)
        pt = ref_add(pt, pt)
        k >>= 1
    return acc


def on_curve(x, y):
    return 0 <= x < P and 0 <= y < P and (y * y - x * x * x - 7) % P == 0


def ref_sqrt(a):
    """square root mod P (P = 3 mod 4) or None"""
    r = pow(a % P, (P + 1) // 4, P)
    return r if r * r % P == a % P else None


def ref_cbrt(a):
    """a cube root mod P (P = 7 mod 9) or None"""
    r = pow(a % P, (P + 2) // 9, P)
    return r if pow(r, 3, P) == a % P else None


def ref_sec(pt, compressed):
    x, y = pt
    if compressed:
        return bytes([2 + (y & 1)]) + x.to_bytes(32, "big")
    return b"\x04" + x.to_bytes(32, "big") + y.to_bytes(32, "big")


def ref_sec_decode(blob):
    """SEC1 2.3.4 restricted to the forms the property allows (02/03/04): the point, or None if the blob is not
    the unique encoding of a curve point."""
    if len(blob) == 33 and blob[0] in (2, 3):
        x = int.from_bytes(blob[1:], "big")
        if x >= P:
            return None
        y = ref_sqrt(x * x * x + 7)
        if y is None or y == 0:
            return None
        if (y & 1) != (blob[0] & 1):
            y = P - y
        return (x, y)
    if len(blob) == 65 and blob[0] == 4:
        x = int.from_bytes(blob[1:33], "big")
        y = int.from_bytes(blob[33:], "big")
        return (x, y) if on_curve(x, y) else None
    return None


B58 = "123456789ABCDEFGHJKLMNPQRSTUVWXYZabcdefghijkmnopqrstuvwxyz"


def sha256d(b):
    return hashlib.sha256(hashlib.sha256(b).digest()).digest()


def ref_b58(b):
    n = int.from_bytes(b, "big")
    out = ""
    while n:
        n, r = divmod(n, 58)
        out = B58[r] + out
    return "1" * (len(b) - len(b.lstrip(b"\0"))) + out


def ref_b58check(b):
    return ref_b58(b + sha256d(b)[:4])


def ref_b58check_decode(s):
    n = 0
    for c in s:
        n = n * 58 + B58.index(c)
    z = len(s) - len(s.lstrip("1"))
    raw = b"\0" * z + (n.to_bytes((n.bit_length() + 7) // 8, "big") if n else b"")
    if len(raw) < 4 or sha256d(raw[:-4])[:4] != raw[-4:]:
        return None
    return raw[:-4]


def ref_hash160(b):
    return hashlib.new("ripemd160", hashlib.sha256(b).digest()).digest()


def ref_der_int(v):
    b = v.to_bytes(max(1, (v.bit_length() + 7) // 8), "big")
    if b[0] & 0x80:
        b = b"\0" + b
    return b"\x02" + ref_der_len(len(b)) + b


def ref_der_len(n):
    if n < 0x80:
        return bytes([n])
    b = n.to_bytes((n.bit_length() + 7) // 8, "big")
    return bytes([0x80 | len(b)]) + b


def ref_der_sig(r, s):
    body = ref_der_int(r) + ref_der_int(s)
    return b"\x30" + ref_der_len(len(body)) + body


class Malformed(Exception):
    pass


def _tlv(buf, tag):
    """read one TLV with the given tag from the front of buf; definite lengths in short or long form; the content
    must be entirely present.  Returns (content, rest)."""
    if len(buf) < 2 or buf[0] != tag:
        raise Malformed("tag")
    l0 = buf[1]
    if l0 < 0x80:
        ln, off = l0, 2
    else:
        k = l0 & 0x7F
        if k == 0 or len(buf) < 2 + k:
            raise Malformed("length")
        ln, off = int.from_bytes(buf[2:2 + k], "big"), 2 + k
    if len(buf) < off + ln:
        raise Malformed("truncated")
    return buf[off:off + ln], buf[off + ln:]


def ref_structural_sig_parse(blob, signed=True):
    """the most lenient defensible reading of `SEQUENCE { INTEGER r, INTEGER s }`: complete TLVs, nothing after the
    sequence, nothing after s, integers non-empty (two's complement when signed, X.690 8.3).  Minimality of lengths and
    integers is NOT required here (the property only demands refusal of trailing bytes / malformed input)."""
    body, rest = _tlv(blob, 0x30)
    if rest:
        raise Malformed("trailing-after-sequence")
    rb, rest = _tlv(body, 0x02)
    sb, rest = _tlv(rest, 0x02)
    if rest:
        raise Malformed("trailing-after-s")
    if not rb or not sb:
        raise Malformed("empty-integer")
    return int.from_bytes(rb, "big", signed=signed), int.from_bytes(sb, "big", signed=signed)


# ----------------------------------------------------------------------------------------------------------------
# system under test
# ----------------------------------------------------------------------------------------------------------------

_NETS = None


def nets():
    global _NETS
    if _NETS is None:
        from pycoin.networks.registry import network_codes, network_for_netcode
        _NETS = [(c, network_for_netcode(c)) for c in sorted(set(network_codes())) if c not in SKIPPED]
    return _NETS


def _btc():
    from pycoin.symbols.btc import network
    return network


def _netrepro(code):
    return "from pycoin.networks.registry import network_for_netcode as N; n = N(%r); " % code


_PUB = {}


def ref_pub(e):
    if e not in _PUB:
        _PUB[e] = ref_mul(e)
    return _PUB[e]


# ----------------------------------------------------------------------------------------------------------------
# 1. WIF round trip on every network
# ----------------------------------------------------------------------------------------------------------------

@bounded("C10.wif_roundtrip", props=["C10"],
         bound="every network except GRS/GRSRT/TGRS x secret exponents {1,2,n-1,n-2,2^255,seeded} x {compressed,"
               "uncompressed}; BTC pinned to published vectors; WIF of out-of-range exponents refused")
def c10_wif_roundtrip(opts):
    rng = random.Random(opts["seed"])
    thorough = opts.get("tier") == "thorough"
    t = KTally(rule="case = (network, secret exponent, compression flag); the WIF text, hash160, SEC and address "
                    "payload are compared with independent secp256k1 / Base58Check / hash160 computations and the "
                    "re-parsed key must reproduce exponent, flag, hash160, address, SEC and WIF. "
                    "GRS/GRSRT/TGRS skipped (groestlcoin_hash extension missing)")
    exps = [1, 2, 3, N - 1, N - 2, 2 ** 255, 2 ** 128 + 1, 0xFF, 0x100]
    exps += [rng.randrange(1, N) for _ in range(12 if thorough else 3)]
    exps += [rng.randrange(1, 2 ** rng.choice((8, 16, 64, 200))) for _ in range(6 if thorough else 2)]
    # published vectors (Bitcoin wiki / BIP test data) pin the BTC constants independently of pycoin
    btc = _btc()
    pinned = [
        (1, True, "KwDiBf89QgGbjEhKnhXJuH7LrciVrZi3qYjgd9M7rFU73sVHnoWn", "1BgGZ9tcN4rm9KBzDn7KprQz87SZ26SAMH"),
        (1, False, "5HpHagT65TZzG1PH3CSu63k8DbpvD8s5ip4nEB3kEsreAnchuDf", "1EHNa6Q4Jz2uvNExL497mE43ikXhwF6kZm"),
    ]
    for e, comp, wif, addr in pinned:
        k = btc.keys.private(e, is_compressed=comp)
        t.case(key=("pinned", e, comp), sample={"pinned": wif})
        if k.wif() != wif or k.address() != addr:
            t.violation("BTC key does not give the published WIF / address", (e, comp, k.wif(), k.address()),
                        repro="from pycoin.symbols.btc import network as n; k = n.keys.private(%d, is_compressed=%r); "
                              "print(k.wif(), k.address())" % (e, comp), finding_key="wif-published-vector-mismatch")
        k2 = btc.parse.wif(wif)
        if k2 is None or k2.secret_exponent() != e or k2.is_compressed() != comp or k2.address() != addr:
            t.violation("published BTC WIF does not parse to the published key", wif,
                        repro="from pycoin.symbols.btc import network as n; print(n.parse.wif(%r))" % wif,
                        finding_key="wif-published-vector-mismatch")
    for code, n in nets():
        wif_prefix = n.parse._wif_prefix
        for e in exps:
            pub = ref_pub(e)
            for comp in (True, False):
                rp = _netrepro(code) + "k = n.keys.private(%d, is_compressed=%r); w = k.wif(); k2 = n.parse.wif(w); " \
                    "print(w, k2, k2.secret_exponent() == %d, k2.is_compressed(), k2.address(), k.address())" % (e, comp, e)
                t.case(key=(code, e, comp), sample={"net": code, "e": hex(e), "compressed": comp})
                try:
                    k = n.keys.private(e, is_compressed=comp)
                    w = k.wif()
                    sec = ref_sec(pub, comp)
                    h160 = ref_hash160(sec)
                    if k.public_pair() != pub or k.sec() != sec:
                        t.violation("public pair / SEC of a private key differs from the reference e*G", (code, e, comp),
                                    repro=rp, finding_key="key-public-point-wrong")
                    if w != ref_b58check(wif_prefix + e.to_bytes(32, "big") + (b"\x01" if comp else b"")):
                        t.violation("WIF text is not Base58Check(prefix || e32 [|| 01])", (code, e, comp, w),
                                    repro=rp, finding_key="wif-encoding-wrong")
                    if k.hash160() != h160:
                        t.violation("hash160 differs from ripemd160(sha256(SEC))", (code, e, comp), repro=rp,
                                    finding_key="key-hash160-wrong")
                    addr = k.address()
                    payload = ref_b58check_decode(addr)
                    if payload is None or payload[-20:] != h160:
                        t.violation("address is not Base58Check(prefix || hash160)", (code, e, comp, addr), repro=rp,
                                    finding_key="key-address-wrong")
                    k2 = n.parse.wif(w)
                    if k2 is None:
                        t.violation("own WIF not parsed back", (code, e, comp, w), repro=rp,
                                    finding_key="wif-roundtrip-lost")
                        continue
                    same = (k2.secret_exponent() == e and k2.is_compressed() == comp and k2.hash160() == h160
                            and k2.address() == addr and k2.sec() == sec and k2.wif() == w
                            and k2.public_pair() == pub)
                    if not same:
                        t.violation("WIF round trip changes exponent / compression flag / hash160 / address",
                                    (code, e, comp, w), repro=rp, finding_key="wif-roundtrip-lost")
                    # the other compression flag must give the other hash160 (flag really carried by the WIF)
                    if k.hash160(is_compressed=not comp) != ref_hash160(ref_sec(pub, not comp)):
                        t.violation("hash160(is_compressed=...) override wrong", (code, e, comp), repro=rp,
                                    finding_key="key-hash160-wrong")
                except Exception as ex:
                    t.violation("WIF round trip raises %s" % type(ex).__name__, (code, e, comp, repr(ex)), repro=rp,
                                finding_key="wif-roundtrip-raises")
        # WIF strings carrying an exponent outside [1, n-1] must not produce a key
        for e in (0, N, N + 1, 2 ** 256 - 1):
            for comp in (True, False):
                w = ref_b58check(wif_prefix + e.to_bytes(32, "big") + (b"\x01" if comp else b""))
                t.case(key=(code, "bad", e, comp))
                rp = _netrepro(code) + "print(n.parse.wif(%r))" % w
                try:
                    k2 = n.parse.wif(w)
                    if k2 is not None:
                        t.violation("WIF with secret exponent outside [1, n-1] accepted", (code, e, comp, w), repro=rp,
                                    finding_key="wif-out-of-range-exponent-accepted")
                except n.keys.InvalidSecretExponentError:
                    pass
                except Exception as ex:
                    t.violation("WIF with out-of-range exponent raises undocumented %s" % type(ex).__name__,
                                (code, e, comp, repr(ex)), repro=rp, finding_key="wif-out-of-range-exponent-raises")
    t.exhaustive = False
    return t.result()


# ----------------------------------------------------------------------------------------------------------------
# 2. SEC round trip and decoder strictness
# ----------------------------------------------------------------------------------------------------------------

def small_x_points(limit):
    """curve points with x < 2^256 - p (so that x + p still fits in 32 bytes), by brute force over small x"""
    out = []
    x = 0
    while len(out) < limit:
        y = ref_sqrt(x * x * x + 7)
        if y:
            out.append((x, y))
        x += 1
    return out


def small_y_points(limit):
    """curve points with small y (so that y + p still fits in 32 bytes): x = cbrt(y^2 - 7)"""
    out = []
    y = 1
    while len(out) < limit:
        x = ref_cbrt(y * y - 7)
        if x is not None and on_curve(x, y):
            out.append((x, y))
        y += 1
    return out


def _sec_candidates(rng, thorough):
    """yield (label, blob) candidate SEC strings"""
    pts = [(GX, GY), ref_mul(2), ref_mul(3), ref_mul(N - 1)]
    pts += [ref_mul(rng.randrange(1, N)) for _ in range(20 if thorough else 6)]
    # canonical encodings
    for pt in pts:
        yield "valid-c", ref_sec(pt, True)
        yield "valid-u", ref_sec(pt, False)
        # the other parity byte is the (unique) encoding of the negated point: still valid
        yield "valid-c-neg", bytes([ref_sec(pt, True)[0] ^ 1]) + ref_sec(pt, True)[1:]
    xy = GX.to_bytes(32, "big") + GY.to_bytes(32, "big")
    # every length 0..70 x every prefix 0..7 (+ a few high ones); body = leading bytes of x||y, zero padded
    for ln in range(0, 71):
        if ln == 0:
            yield "len-prefix", b""
            continue
        body = (xy + b"\0" * 8)[:ln - 1]
        for pre in (0, 1, 2, 3, 4, 5, 6, 7, 0x80, 0xFF):
            yield "len-prefix", bytes([pre]) + body
    # 33/65 byte blobs with every prefix value and a real point (hybrid 06/07 with right AND wrong parity included)
    for pt in pts[:4]:
        x32, y32 = pt[0].to_bytes(32, "big"), pt[1].to_bytes(32, "big")
        for pre in range(256) if thorough else list(range(16)) + [0x42, 0x80, 0xFE, 0xFF]:
            yield "prefix33", bytes([pre]) + x32
            yield "prefix65", bytes([pre]) + x32 + y32
        yield "hybrid-right", bytes([6 + (pt[1] & 1)]) + x32 + y32
        yield "hybrid-wrong", bytes([7 - (pt[1] & 1)]) + x32 + y32
        # off curve
        yield "off-curve", b"\x04" + x32 + ((pt[1] + 1) % P).to_bytes(32, "big")
        yield "off-curve", b"\x04" + ((pt[0] + 1) % P).to_bytes(32, "big") + y32
        yield "off-curve", b"\x04" + y32 + x32
        yield "off-curve", b"\x04" + x32 + (P - pt[1] ^ 1).to_bytes(32, "big")
    yield "off-curve", b"\x04" + b"\0" * 64
    yield "off-curve", b"\x04" + b"\xff" * 64
    # x coordinates without a point (compressed)
    cnt = 0
    x = 0
    while cnt < 12:
        if ref_sqrt(x * x * x + 7) is None:
            cnt += 1
            yield "no-point", b"\x02" + x.to_bytes(32, "big")
            yield "no-point", b"\x03" + x.to_bytes(32, "big")
        x += 1
    for _ in range(40 if thorough else 10):
        x = rng.randrange(P)
        yield "random-x", bytes([rng.choice((2, 3))]) + x.to_bytes(32, "big")
    # coordinates >= p: x + p fits in 32 bytes only for x < 2^256 - p = 2^32 + 977
    for (x, y) in small_x_points(12 if thorough else 6):
        for yy in (y, P - y):
            yield "x>=p", bytes([2 + (yy & 1)]) + (x + P).to_bytes(32, "big")
            yield "x>=p", b"\x04" + (x + P).to_bytes(32, "big") + yy.to_bytes(32, "big")
    for (x, y) in small_y_points(6 if thorough else 3):
        yield "y>=p", b"\x04" + x.to_bytes(32, "big") + (y + P).to_bytes(32, "big")
        yield "valid-u", b"\x04" + x.to_bytes(32, "big") + y.to_bytes(32, "big")
    for x in (P, P + 1, P + 5, 2 ** 256 - 1, 2 ** 256 - 2):
        for pre in (2, 3):
            yield "x>=p", bytes([pre]) + x.to_bytes(32, "big")
        yield "x>=p", b"\x04" + x.to_bytes(32, "big") + GY.to_bytes(32, "big")
    yield "y>=p", b"\x04" + GX.to_bytes(32, "big") + (2 ** 256 - 1).to_bytes(32, "big")
    yield "y>=p", b"\x04" + GX.to_bytes(32, "big") + P.to_bytes(32, "big")
    # random byte strings of every length 0..70
    for ln in range(0, 71):
        for _ in range(6 if thorough else 2):
            b = bytes(rng.randrange(256) for _ in range(ln))
            if b and rng.random() < 0.7:
                b = bytes([rng.choice((2, 3, 4, 6, 7))]) + b[1:]
            yield "random", b
    # single-byte damage of valid encodings (truncate / extend)
    for pt in pts[:3]:
        for comp in (True, False):
            s = ref_sec(pt, comp)
            yield "trunc", s[:-1]
            yield "ext", s + b"\0"
            yield "ext", s + s[-1:]
            yield "trunc", s[1:]


@bounded("C10.sec_strict", props=["C10"],
         bound="seeded curve points round trip (compressed+uncompressed); candidate blobs: every length 0..70 x "
               "prefixes 0..7/80/ff, every prefix byte on 33/65-byte bodies, hybrids, off-curve, x without point, "
               "x>=p / y>=p (brute-forced small-coordinate points), seeded random strings of every length 0..70")
def c10_sec_strict(opts):
    rng = random.Random(opts["seed"] + 1)
    thorough = opts.get("tier") == "thorough"
    from pycoin.encoding.sec import sec_to_public_pair, public_pair_to_sec
    t = KTally(rule="case = one candidate byte string, decoded by network.keys.public(blob), network.parse.sec(hex) and "
                    "sec_to_public_pair(blob, generator); accepted iff the independent SEC1 decoder (02/03/04 only, "
                    "coordinates < p, on curve) accepts, and then point, re-encoding and compression flag must agree. "
                    "On-curve checking of 04 blobs is Key's job, so sec_to_public_pair alone is not blamed for it")
    btc = _btc()
    g = btc.generator
    seen = set()
    for label, blob in _sec_candidates(rng, thorough):
        if blob in seen:
            continue
        seen.add(blob)
        ref = ref_sec_decode(blob)
        t.case(key=blob, nontrivial=True, sample={"label": label, "blob": blob.hex(), "valid": ref is not None})
        hx = blob.hex()
        rp = ("from pycoin.symbols.btc import network as n; b = bytes.fromhex(%r); k = n.keys.public(b); "
              "print(k.public_pair(), k.sec().hex(), k.address())" % hx)
        # --- observation 1: network.keys.public(sec) (== Key.from_sec)
        key = None
        try:
            key = btc.keys.public(blob)
        except ValueError:
            pass      # EncodingError, InvalidPublicPairError, NoSuchPointError are all ValueErrors: documented refusals
        except Exception as ex:
            t.violation("SEC blob refused with undocumented %s" % type(ex).__name__, (label, hx, repr(ex)), repro=rp,
                        finding_key="sec-refusal-undocumented-exception")
        if ref is None and key is not None:
            if label in ("x>=p", "y>=p") or (len(blob) in (33, 65) and blob[0] in (2, 3, 4)
                                             and (int.from_bytes(blob[1:33], "big") >= P
                                                  or (len(blob) == 65 and int.from_bytes(blob[33:], "big") >= P))):
                t.violation("SEC blob with a coordinate >= p accepted by keys.public (second encoding of a point: "
                            "different SEC, hash160 and address for the same point)", (label, hx), repro=rp,
                            finding_key="sec-coordinate-ge-p-accepted")
            elif blob[:1] in (b"\x06", b"\x07"):
                t.violation("hybrid SEC form accepted in strict mode", (label, hx), repro=rp,
                            finding_key="sec-hybrid-accepted-strict")
            elif len(blob) not in (33, 65) or blob[:1] not in (b"\x02", b"\x03", b"\x04") \
                    or (len(blob) == 33) != (blob[0] in (2, 3)):
                t.violation("SEC blob with wrong length / prefix accepted", (label, hx), repro=rp,
                            finding_key="sec-bad-length-or-prefix-accepted")
            else:
                t.violation("SEC blob that is not a curve point accepted", (label, hx), repro=rp,
                            finding_key="sec-off-curve-accepted")
        if ref is not None:
            if key is None:
                t.violation("canonical SEC encoding of a curve point refused", (label, hx), repro=rp,
                            finding_key="sec-valid-refused")
            else:
                comp = len(blob) == 33
                try:
                    ok = (tuple(key.public_pair()) == ref and key.sec() == blob and key.is_compressed() == comp
                          and key.hash160() == ref_hash160(blob)
                          and key.sec(is_compressed=not comp) == ref_sec(ref, not comp)
                          and btc.keys.public(key.sec(is_compressed=not comp)).public_pair() == key.public_pair())
                except Exception as ex:
                    ok = False
                if not ok:
                    t.violation("SEC round trip changes point / compression flag / hash160", (label, hx), repro=rp,
                                finding_key="sec-roundtrip-lost")
        # --- observation 2: the text parser
        try:
            k3 = btc.parse.sec(hx)
        except Exception as ex:
            k3 = None
            t.violation("parse.sec raises %s" % type(ex).__name__, (label, hx),
                        repro="from pycoin.symbols.btc import network as n; n.parse.sec(%r)" % hx,
                        finding_key="parse-sec-raises")
        if (k3 is None) != (key is None):
            t.violation("parse.sec and keys.public disagree on acceptance", (label, hx),
                        repro="from pycoin.symbols.btc import network as n; print(n.parse.sec(%r))" % hx,
                        finding_key="parse-sec-differs-from-keys-public")
        # --- observation 3: the bare decoder (strict is the default)
        rp2 = ("from pycoin.encoding.sec import sec_to_public_pair; from pycoin.symbols.btc import network as n; "
               "print(sec_to_public_pair(bytes.fromhex(%r), n.generator))" % hx)
        pair = None
        try:
            pair = sec_to_public_pair(blob, g)
        except ValueError:
            pass
        except Exception as ex:
            t.violation("sec_to_public_pair refuses with undocumented %s" % type(ex).__name__, (label, hx, repr(ex)),
                        repro=rp2, finding_key="sec-refusal-undocumented-exception")
        if pair is not None:
            px, py = pair
            wellformed = (len(blob) == 33 and blob[0] in (2, 3)) or (len(blob) == 65 and blob[0] == 4)
            if not wellformed:
                t.violation("sec_to_public_pair(strict) accepts a wrong length / prefix", (label, hx), repro=rp2,
                            finding_key="sec-bad-length-or-prefix-accepted"
                            if blob[:1] not in (b"\x06", b"\x07") else "sec-hybrid-accepted-strict")
            elif not (0 <= px < P and 0 <= py < P):
                t.violation("sec_to_public_pair(strict) returns a coordinate >= p (non-unique encoding accepted)",
                            (label, hx, (px, py)), repro=rp2, finding_key="sec-coordinate-ge-p-accepted")
            elif len(blob) == 33 and (ref is None or (px, py) != ref):
                t.violation("sec_to_public_pair decompresses to a wrong point", (label, hx, (px, py)), repro=rp2,
                            finding_key="sec-decompression-wrong")
            elif public_pair_to_sec((px, py), compressed=len(blob) == 33) != blob:
                t.violation("public_pair_to_sec(sec_to_public_pair(b)) != b", (label, hx), repro=rp2,
                            finding_key="sec-roundtrip-lost")
        elif ref is not None:
            t.violation("sec_to_public_pair refuses a canonical encoding", (label, hx), repro=rp2,
                        finding_key="sec-valid-refused")
    t.exhaustive = False
    return t.result()


# ----------------------------------------------------------------------------------------------------------------
# 3. key construction validates its arguments
# ----------------------------------------------------------------------------------------------------------------

@bounded("C10.key_validation", props=["C10"],
         bound="secret exponents {-1,0,1,2,n-2,n-1,n,n+1,2n,2^256-1,2^256,-n,seeded outside/inside} on BTC, XTN, LTC, "
               "DOGE; public pairs: on curve (accepted), off curve, coordinates outside [0,p), None / infinity")
def c10_key_validation(opts):
    rng = random.Random(opts["seed"] + 2)
    thorough = opts.get("tier") == "thorough"
    t = KTally(rule="case = (network, constructor argument); exponents in [1,n-1] accepted with public point e*G, all "
                    "others refused with InvalidSecretExponentError; pairs accepted iff 0<=x,y<p and on the curve, "
                    "others refused with InvalidPublicPairError")
    chosen = [(c, n) for c, n in nets() if c in ("BTC", "XTN", "LTC", "DOGE")]
    bad_e = [-1, 0, N, N + 1, 2 * N, 2 ** 256 - 1, 2 ** 256, -N, -(N - 1), N + 2 ** 128]
    bad_e += [rng.randrange(N, 2 ** 256) for _ in range(6 if thorough else 2)]
    bad_e += [-rng.randrange(1, 2 ** 256) for _ in range(6 if thorough else 2)]
    good_e = [1, 2, N - 2, N - 1] + [rng.randrange(1, N) for _ in range(6 if thorough else 2)]
    for code, n in chosen:
        for e in bad_e:
            t.case(key=(code, "bad-e", e), sample={"net": code, "e": e})
            rp = _netrepro(code) + "n.keys.private(%d)" % e
            for comp in (True, False):
                try:
                    k = n.keys.private(e, is_compressed=comp)
                    t.violation("secret exponent outside [1, n-1] accepted", (code, e), repro=rp,
                                finding_key="secret-exponent-out-of-range-accepted")
                except n.keys.InvalidSecretExponentError:
                    pass
                except Exception as ex:
                    t.violation("secret exponent outside [1, n-1] refused with undocumented %s" % type(ex).__name__,
                                (code, e, repr(ex)), repro=rp, finding_key="secret-exponent-wrong-error")
        for e in good_e:
            t.case(key=(code, "good-e", e))
            rp = _netrepro(code) + "print(n.keys.private(%d).public_pair())" % e
            try:
                k = n.keys.private(e)
                if tuple(k.public_pair()) != ref_pub(e) or k.secret_exponent() != e:
                    t.violation("Key(secret_exponent=e).public_pair() != e*G", (code, e), repro=rp,
                                finding_key="key-public-point-wrong")
            except Exception as ex:
                t.violation("secret exponent in [1, n-1] refused (%s)" % type(ex).__name__, (code, e), repro=rp,
                            finding_key="secret-exponent-valid-refused")
        pts = [ref_pub(e) for e in good_e]
        pairs = []
        for (x, y) in pts:
            pairs.append(("on-curve", (x, y)))
            pairs.append(("on-curve", (x, P - y)))
            pairs.append(("off-curve", (x, (y + 1) % P)))
            pairs.append(("off-curve", ((x + 1) % P, y)))
            pairs.append(("off-curve", (y, x)))
        pairs += [("off-curve", (0, 0)), ("off-curve", (1, 1)), ("off-curve", (P - 1, P - 1)), ("off-curve", (0, 7)),
                  ("none", (None, None)), ("none", (GX, None)), ("none", (None, GY))]
        sx, sy = small_x_points(1)[0]
        for (x, y) in pts[:3] + [(sx, sy)]:
            pairs += [("out-of-range", (x + P, y)), ("out-of-range", (x, y + P)), ("out-of-range", (x, -y)),
                      ("out-of-range", (x - P, y)), ("out-of-range", (x + P, y + P)), ("out-of-range", (x, y - P)),
                      ("out-of-range", (x + 2 * P, y))]
        for label, pair in pairs:
            t.case(key=(code, label, pair), sample={"net": code, "label": label, "pair": str(pair)[:80]})
            rp = _netrepro(code) + "k = n.keys.public(%r); print(k.public_pair())" % (pair,)
            want = label == "on-curve"
            for comp in (True, False):
                try:
                    k = n.keys.public(pair, is_compressed=comp)
                    got = True
                except n.keys.InvalidPublicPairError:
                    got = False
                except Exception as ex:
                    got = False
                    t.violation("invalid public pair refused with undocumented %s" % type(ex).__name__,
                                (code, label, pair, repr(ex)), repro=rp, finding_key="public-pair-wrong-error")
                if got and not want:
                    if label == "out-of-range":
                        t.violation("public pair with a coordinate outside [0, p) accepted as a key (congruent to a curve "
                                    "point mod p, but not a field element: second representation of one point)",
                                    (code, pair), repro=rp,
                                    finding_key="public-pair-coordinate-out-of-range-accepted")
                    else:
                        t.violation("off-curve / undefined public pair accepted", (code, label, pair), repro=rp,
                                    finding_key="public-pair-off-curve-accepted")
                if want and not got:
                    t.violation("valid public pair refused", (code, pair), repro=rp,
                                finding_key="public-pair-valid-refused")
                if want and got:
                    if tuple(k.public_pair()) != pair or k.sec() != ref_sec(pair, comp) or k.is_compressed() != comp \
                            or k.hash160() != ref_hash160(ref_sec(pair, comp)):
                        t.violation("public key built from a pair reports wrong SEC / hash160", (code, pair, comp),
                                    repro=rp, finding_key="key-hash160-wrong")
        # the point at infinity is not a public key
        t.case(key=(code, "infinity"))
        try:
            inf = n.generator.infinity()
            try:
                n.keys.public(tuple(inf))
                t.violation("point at infinity accepted as public key", code,
                            repro=_netrepro(code) + "n.keys.public(tuple(n.generator.infinity()))",
                            finding_key="public-pair-off-curve-accepted")
            except n.keys.InvalidPublicPairError:
                pass
        except AttributeError:
            pass
    t.exhaustive = False
    return t.result()


# ----------------------------------------------------------------------------------------------------------------
# 4. DER
# ----------------------------------------------------------------------------------------------------------------

def _der_strict(blob):
    from pycoin.satoshi.der import sigdecode_der
    return sigdecode_der(blob, use_broken_open_ssl_mechanism=False)


@bounded("C10.der", props=["C10"],
         bound="(r,s) in {0,1,127,128,255,256,2^255-1,2^255,n-1,n,2^256-1,seeded}^2 round trip in both decoder modes; "
               "trailing bytes after the sequence and inside it after s; every truncation of valid signatures; "
               "single-byte substitutions in the header bytes; seeded random strings of length 0..70")
def c10_der(opts):
    rng = random.Random(opts["seed"] + 3)
    thorough = opts.get("tier") == "thorough"
    from pycoin.satoshi.der import sigencode_der, sigdecode_der, UnexpectedDER
    t = KTally(rule="case = one (r,s) pair or one candidate byte string.  Round trip: sigencode_der equals the "
                    "independent minimal DER encoder and decodes back in strict (use_broken_open_ssl_mechanism=False) "
                    "and lenient mode.  Strictness: strict decoding must refuse (UnexpectedDER, or ValueError which "
                    "Key.verify documents) everything the lenient structural TLV parser refuses (trailing bytes at "
                    "either level, truncated TLVs, empty integers) and must agree with it on the value otherwise")
    vals = [0, 1, 127, 128, 255, 256, 2 ** 255 - 1, 2 ** 255, N - 1, N, 2 ** 256 - 1, 0x7FFF, 0x8000, 2 ** 64,
            2 ** 248 - 1, 2 ** 248, 2 ** 247]
    vals += [rng.randrange(1, 2 ** 256) for _ in range(8 if thorough else 3)]
    vals += [rng.randrange(1, 2 ** rng.randrange(1, 256)) for _ in range(8 if thorough else 3)]
    encs = []
    for r in vals:
        for s in vals:
            t.case(key=("rt", r, s), sample={"r": hex(r), "s": hex(s)})
            rp = ("from pycoin.satoshi.der import *; e = sigencode_der(%d, %d); print(e.hex(), "
                  "sigdecode_der(e, use_broken_open_ssl_mechanism=False), sigdecode_der(e))" % (r, s))
            try:
                e = sigencode_der(r, s)
                if e != ref_der_sig(r, s):
                    t.violation("sigencode_der is not the minimal DER encoding", (r, s, e.hex()), repro=rp,
                                finding_key="der-encoding-not-canonical")
                if _der_strict(e) != (r, s) or sigdecode_der(e) != (r, s) \
                        or sigdecode_der(e, use_broken_open_ssl_mechanism=True) != (r, s):
                    t.violation("sigdecode_der(sigencode_der(r, s)) != (r, s)", (r, s), repro=rp,
                                finding_key="der-roundtrip-lost")
                encs.append(e)
            except Exception as ex:
                t.violation("DER round trip raises %s" % type(ex).__name__, (r, s, repr(ex)), repro=rp,
                            finding_key="der-roundtrip-raises")

    def expect_refused(blob, why, fk):
        t.case(key=("bad", blob), sample={"why": why, "blob": blob.hex()})
        rp = ("from pycoin.satoshi.der import sigdecode_der; print(sigdecode_der(bytes.fromhex(%r), "
              "use_broken_open_ssl_mechanism=False))" % blob.hex())
        try:
            v = _der_strict(blob)
            t.violation("strict DER decoding accepts %s" % why, (blob.hex(), v), repro=rp, finding_key=fk)
        except (UnexpectedDER, ValueError):
            pass
        except Exception as ex:
            t.violation("strict DER decoding refuses malformed input with undocumented %s (escapes Key.verify, which "
                        "only handles UnexpectedDER / ValueError)" % type(ex).__name__, (why, blob.hex(), repr(ex)),
                        repro=rp, finding_key="der-malformed-raises-%s" % type(ex).__name__.lower())

    sel = encs if thorough else rng.sample(encs, min(len(encs), 120))
    for e in sel:
        body = e[2:] if e[1] < 0x80 else e[3:]
        for trail in (b"\x00", b"\xff", b"\x02\x01\x01", e[-1:]):
            expect_refused(e + trail, "trailing bytes after the sequence", "der-strict-accepts-trailing-after-sequence")
            b2 = body + trail
            expect_refused(b"\x30" + ref_der_len(len(b2)) + b2, "trailing bytes inside the sequence after s",
                           "der-strict-accepts-trailing-inside-sequence")
    # every proper prefix of a valid signature is malformed (truncated)
    for e in (sel if thorough else sel[:25]):
        for cut in range(len(e)):
            expect_refused(e[:cut], "a truncated signature (declared lengths exceed the data)",
                           "der-strict-accepts-truncated")
        # sequence length larger than what is present
        body = e[2:] if e[1] < 0x80 else e[3:]
        for extra in (1, 2, 64):
            if len(body) + extra < 0x80:
                expect_refused(b"\x30" + bytes([len(body) + extra]) + body,
                               "a sequence whose declared length exceeds the data", "der-strict-accepts-truncated")
    expect_refused(b"\x30\x06\x02\x00\x02\x01\x01\x00"[:7], "an empty INTEGER", "der-strict-accepts-empty-integer")
    expect_refused(bytes.fromhex("30060201010200") + b"", "an empty INTEGER", "der-strict-accepts-empty-integer")

    # general candidates: compared with the structural parser
    cands = []
    for e in (sel if thorough else sel[:40]):
        for pos in range(min(len(e), 8)):
            for v in (0, 1, 2, 0x30, 0x7F, 0x80, 0x81, 0x82, 0xFF, (e[pos] + 1) & 0xFF, (e[pos] - 1) & 0xFF):
                cands.append(e[:pos] + bytes([v]) + e[pos + 1:])
        pos = 4 + e[3]          # header of s
        for d in (0, 1):
            for v in (0, 1, 2, 3, 0x21, 0x80, 0x81, 0xFF):
                if pos + d < len(e):
                    cands.append(e[:pos + d] + bytes([v]) + e[pos + d + 1:])
    for ln in range(0, 71):
        for _ in range(10 if thorough else 3):
            b = bytearray(rng.randrange(256) for _ in range(ln))
            if ln >= 1 and rng.random() < 0.8:
                b[0] = 0x30
            if ln >= 2 and rng.random() < 0.6:
                b[1] = ln - 2
            if ln >= 4 and rng.random() < 0.6:
                b[2] = 2
                b[3] = rng.choice((1, 2, max(0, (ln - 6) // 2), ln - 6 if ln > 6 else 1, 0x20, 0x21))
                nxt = 4 + b[3]
                if nxt + 1 < ln and rng.random() < 0.8:
                    b[nxt] = 2
                    b[nxt + 1] = rng.choice((ln - nxt - 2, 1, 0x20, 0x21, 0))
            cands.append(bytes(b))
    cands += [b"", b"\x30", b"\x30\x00", b"\x30\x01", b"\x30\x80", b"\x30\x81", b"\x30\x82\x00", b"\x30\x02\x02",
              b"\x30\x02\x02\x00", b"\x30\x03\x02\x01", b"\x30\x04\x02\x01\x01\x02", b"\x30\x05\x02\x01\x01\x02\x01",
              b"\x30\x05\x02\x01\x01\x02\x00", b"\x30\x06\x02\x01\x01\x02\x81\x01", b"\x30\x07\x02\x01\x01\x02\x81\x01\x01",
              b"\x30\x81\x06\x02\x01\x01\x02\x01\x01", b"\x31\x06\x02\x01\x01\x02\x01\x01",
              b"\x30\x06\x02\x01\x01\x03\x01\x01", b"\x30\x06\x02\x01\x81\x02\x01\x80"]
    seen = set()
    for blob in cands:
        if blob in seen or len(blob) > 80:
            continue
        seen.add(blob)
        try:
            ref = ref_structural_sig_parse(blob, signed=True)
            why = None
        except Malformed as m:
            ref, why = None, str(m)
        t.case(key=("cand", blob), nontrivial=True, sample={"blob": blob.hex(), "structurally_valid": ref is not None})
        rp = ("from pycoin.satoshi.der import sigdecode_der; print(sigdecode_der(bytes.fromhex(%r), "
              "use_broken_open_ssl_mechanism=False))" % blob.hex())
        try:
            got = _der_strict(blob)
        except (UnexpectedDER, ValueError):
            got = None
        except Exception as ex:
            got = None
            if ref is None:
                t.violation("strict DER decoding refuses malformed input with undocumented %s (escapes Key.verify, "
                            "which only handles UnexpectedDER / ValueError)" % type(ex).__name__,
                            (blob.hex(), repr(ex)), repro=rp,
                            finding_key="der-malformed-raises-%s" % type(ex).__name__.lower())
            else:
                t.violation("strict DER decoding crashes on a well-formed signature", (blob.hex(), repr(ex)), repro=rp,
                            finding_key="der-wellformed-raises")
        if got is not None:
            if ref is None:
                fk = {"trailing-after-sequence": "der-strict-accepts-trailing-after-sequence",
                      "trailing-after-s": "der-strict-accepts-trailing-inside-sequence",
                      "truncated": "der-strict-accepts-truncated",
                      "empty-integer": "der-strict-accepts-empty-integer"}.get(why, "der-strict-accepts-malformed")
                t.violation("strict DER decoding accepts a malformed signature (%s)" % why, (blob.hex(), got), repro=rp,
                            finding_key=fk)
            elif tuple(got) != ref:
                t.violation("strict DER decoding returns a wrong value", (blob.hex(), got, ref), repro=rp,
                            finding_key="der-strict-wrong-value")
        # lenient mode: documented to read the integers as unsigned and to tolerate trailing bytes; it must still agree
        # with the structural parser (unsigned) on structurally valid input
        if ref is not None:
            try:
                lg = sigdecode_der(blob, use_broken_open_ssl_mechanism=True)
                if tuple(lg) != ref_structural_sig_parse(blob, signed=False):
                    t.violation("lenient DER decoding returns a wrong value", (blob.hex(), lg), repro=rp,
                                finding_key="der-lenient-wrong-value")
            except Exception as ex:
                t.violation("lenient DER decoding refuses a well-formed signature", (blob.hex(), repr(ex)), repro=rp,
                            finding_key="der-wellformed-raises")
    # Key.verify must answer False (never raise) on malformed signatures
    btc = _btc()
    k = btc.keys.private(7)
    h = b"\x11" * 32
    sig = k.sign(h)
    t.case(key="verify-good")
    if not k.verify(h, sig):
        t.violation("Key.verify rejects its own signature", sig.hex(), finding_key="key-verify-own-signature")
    t.case(key="verify-trailing")
    if k.verify(h, sig + b"\x00"):
        t.violation("Key.verify accepts a signature with trailing bytes", sig.hex() + "00",
                    repro="from pycoin.symbols.btc import network as n; k = n.keys.private(7); h = bytes([17])*32; "
                          "print(k.verify(h, k.sign(h) + bytes(1)))",
                    finding_key="der-strict-accepts-trailing-after-sequence")
    # a third party must not be able to re-encode a valid signature: declared sequence length larger than the data
    for extra in (1, 5, 0x20):
        blob = sig[:1] + bytes([sig[1] + extra]) + sig[2:]
        t.case(key=("verify-overlong", extra))
        if sig[1] + extra < 0x80 and k.verify(h, blob):
            t.violation("Key.verify accepts a signature whose SEQUENCE length exceeds the data (malleable encoding)",
                        blob.hex(),
                        repro="from pycoin.symbols.btc import network as n; k = n.keys.private(7); h = bytes([17])*32; "
                              "s = k.sign(h); print(k.verify(h, s[:1] + bytes([s[1] + %d]) + s[2:]))" % extra,
                        finding_key="der-strict-accepts-truncated")
    for blob in [sig[:i] for i in range(len(sig))] + [b"\x30\x06\x02\x00\x02\x01\x01"]:
        t.case(key=("verify", blob))
        rp = ("from pycoin.symbols.btc import network as n; k = n.keys.private(7); "
              "print(k.verify(bytes([17])*32, bytes.fromhex(%r)))" % blob.hex())
        try:
            if k.verify(h, blob):
                t.violation("Key.verify accepts a truncated signature", blob.hex(), repro=rp,
                            finding_key="der-strict-accepts-truncated")
        except Exception as ex:
            t.violation("Key.verify raises %s on a malformed signature instead of returning False"
                        % type(ex).__name__, (blob.hex(), repr(ex)), repro=rp,
                        finding_key="der-malformed-raises-%s" % type(ex).__name__.lower())
    t.exhaustive = False
    return t.result()
