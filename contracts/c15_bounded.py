"""C15 (Tier B, bounded): header-chain tracking reports a heaviest chain whatever the arrival order.

Run-time contract check of the REAL pycoin.blockchain.BlockChain / ChainFinder over enumerated histories:
forests of headers (forks, orphans whose parent never arrives, duplicates) x delivery orders x batchings x lock
schedules x weights.  The oracle is the property statement (independent reference computations below), not the code.

Why sub-processes: ChainFinder.meld_new_hashes pops from a *set*; the order depends on the keys.  With small int
keys (what tests/blockchain_test.py uses) the pop order is ascending key order, so enumerating all *labelled* forests
enumerates all pop priorities deterministically.  With 32-byte hashes (what the network code sees) the order depends
on PYTHONHASHSEED, so the bytes-keyed enumeration is repeated in child interpreters with several PYTHONHASHSEEDs.
The same file is the worker (``python c15_bounded.py --worker <json>``).
"""
import hashlib
import itertools
import json
import os
import random
import subprocess
import sys
import time

_HERE = os.path.dirname(os.path.abspath(__file__))

A, M = -1, -2          # parent codes: the anchor given to BlockChain / a parent that never arrives

# stable finding keys ----------------------------------------------------------------------------------------------
KEY_MELD = "chainfinder-meld-strands-orphan-subtree-when-missing-parent-arrives-with-another-descendant"
KEY_STALE_OTHER = "chainfinder-known-node-still-listed-as-missing-parent-unexplained"
KEY_RELOCKED = "blockchain-redelivered-locked-header-detaches-unlocked-chain"
KEY_LOCK_TIE = "blockchain-lock-to-index-silently-switches-between-equal-weight-tips"


# =====================================================================================================================
# enumeration helpers (pure, deterministic)
# =====================================================================================================================
def acyclic(par):
    n = len(par)
    for i in range(n):
        j, steps = i, 0
        while j >= 0:
            j = par[j]
            steps += 1
            if steps > n:
                return False
    return True


def labelled_forests(n):
    """all parent functions on n labelled headers that form a forest; roots hang off the anchor (A) or off a
    parent that is never delivered (M)"""
    choices = [[A, M] + [j for j in range(n) if j != i] for i in range(n)]
    for par in itertools.product(*choices):
        if acyclic(par):
            yield par


def _canon(par):
    n = len(par)
    kids = {}
    for i, p in enumerate(par):
        kids.setdefault(p, []).append(i)

    def c(i):
        return tuple(sorted(c(k) for k in kids.get(i, ())))
    return (tuple(sorted(c(k) for k in kids.get(A, ()))), tuple(sorted(c(k) for k in kids.get(M, ()))))


def shapes(n):
    """one representative (an increasing parent vector) per isomorphism class of forests with two root kinds"""
    seen = {}
    for par in itertools.product(*[[A, M] + list(range(i)) for i in range(n)]):
        k = _canon(par)
        if k not in seen:
            seen[k] = par
    return list(seen.values())


def ordered_partitions(items):
    """all ordered set partitions (sequence of non-empty batches; inside a batch ascending)"""
    items = list(items)
    if not items:
        yield []
        return
    n = len(items)
    for mask in range(1, 1 << n):
        first = [items[i] for i in range(n) if mask >> i & 1]
        rest = [items[i] for i in range(n) if not mask >> i & 1]
        for tail in ordered_partitions(rest):
            yield [first] + tail


def compositions(seq):
    """all ways of cutting a sequence into consecutive non-empty batches"""
    seq = list(seq)
    n = len(seq)
    if n == 0:
        yield []
        return
    for mask in range(1 << (n - 1)):
        out, cur = [], [seq[0]]
        for i in range(1, n):
            if mask >> (i - 1) & 1:
                out.append(cur)
                cur = []
            cur.append(seq[i])
        out.append(cur)
        yield out


def with_one_duplicate(batches):
    """every way of re-delivering one already (or simultaneously) delivered header once more"""
    for bi, b in enumerate(batches):
        for d in b:
            for bj in range(bi, len(batches)):
                nb = [list(x) for x in batches]
                nb[bj].append(d)                       # duplicate rides in an existing batch (after the original)
                yield nb
                nb = [list(x) for x in batches]
                nb.insert(bj + 1, [d])                 # duplicate is a batch of its own
                yield nb


def random_forest(rng, n):
    while True:
        par = tuple(rng.choice([A, A, M] + [j for j in range(n) if j != i]) for i in range(n))
        if acyclic(par):
            return par


def random_batches(rng, n, dup_prob):
    seq = list(range(n))
    rng.shuffle(seq)
    while rng.random() < dup_prob:
        d = rng.randrange(n)
        pos = rng.randrange(len(seq) + 1)
        seq.insert(pos, d)
    out, cur = [], [seq[0]]
    for x in seq[1:]:
        if rng.random() < 0.5:
            out.append(cur)
            cur = []
        cur.append(x)
    out.append(cur)
    return out


# =====================================================================================================================
# key schemes
# =====================================================================================================================
_POOL = [hashlib.sha256(b"C15 header %d" % i).digest() for i in range(16)]
_BYTES_ANCHOR = b"\0" * 32
_BYTES_MISSING = hashlib.sha256(b"C15 never delivered").digest()


_INTC = [3, 11, 19, 5, 13, 1, 9]
SCHEME_ID = {"int": 0, "intc": 1, "bytes": 2}


def keys_for(scheme, n, rot=0):
    """-> (keys[0..n-1], anchor, missing)"""
    if scheme == "int":        # like tests/blockchain_test.py: small ints; set.pop() order == ascending key
        return [i + 1 for i in range(n)], 1000, 2000
    if scheme == "intc":       # ints that collide in CPython's 8-slot set table: iteration order depends on insertion order
        return _INTC[:n], 1000, 2000
    return [_POOL[(rot + i) % len(_POOL)] for i in range(n)], _BYTES_ANCHOR, _BYTES_MISSING


class Hdr(object):
    __slots__ = ("h", "previous_block_hash", "difficulty", "__weakref__")

    def __init__(self, h, p, w):
        self.h = h
        self.previous_block_hash = p
        self.difficulty = w

    def hash(self):
        return self.h

    def __repr__(self):
        return "H(%r, %r, %r)" % (self.h, self.previous_block_hash, self.difficulty)


# =====================================================================================================================
# the contract for BlockChain, evaluated on the real code
# =====================================================================================================================
class Case(object):
    """forest + keys + weights; the reference model of what has been delivered"""

    def __init__(self, scheme, par, weights, rot=0):
        self.scheme, self.par, self.weights, self.rot = scheme, tuple(par), tuple(weights), rot
        n = len(par)
        self.keys, self.anchor, self.missing = keys_for(scheme, n, rot)
        self.pk = [self.anchor if p == A else self.missing if p == M else self.keys[p] for p in par]
        self.universe = list(self.keys) + [self.anchor, self.missing]


def best_weight(children, weight, start):
    best, stack = 0, [(start, 0)]
    while stack:
        h, w = stack.pop()
        if w > best:
            best = w
        for c in children.get(h, ()):
            stack.append((c, w + weight[c]))
    return best


def finder_stale(cf):
    """symptom of a stranded subtree: a node the finder knows is still listed as a 'missing parent'"""
    return [x for x in cf.descendents_by_top if x in cf.parent_lookup]


def run_history(BlockChain, case, batches, lock_chooser=None):
    """Deliver `batches` (lists of node indices) to a fresh BlockChain, optionally locking between deliveries, and
    check the C15 contract after every step.  -> (violation or None, info)
    violation = dict(clause, detail, step, stale, trigger, relocked)"""
    keys, pk, wts, anchor = case.keys, case.pk, case.weights, case.anchor
    bc = BlockChain(anchor, {})
    cb_ops = []

    def callback(blockchain, ops):
        cb_ops.extend(ops)
    bc.add_change_callback(callback)

    parent, weight, children = {}, {}, {}
    mirror = []            # the list rebuilt from the returned ops
    mirror_cb = []         # the list rebuilt from the ops seen by the callback
    locked = []
    info = {"gaps": [], "locks": [], "trigger": False, "relocked": False, "nonempty": False, "reorg": False,
            "stale_seen": False}
    step = None

    def apply_ops(target, ops):
        for op in ops:
            if not (isinstance(op, tuple) and len(op) == 3):
                return "malformed op %r" % (op,)
            kind, blk, idx = op
            try:
                h = blk.hash()
            except Exception:
                return "op %r carries no header" % (op,)
            if kind == "add":
                if idx != len(target):
                    return "add at index %r but list has %d items" % (idx, len(target))
                if h not in parent or blk.previous_block_hash != parent[h] or blk.difficulty != weight[h]:
                    return "added block %r is not a delivered header" % (blk,)
                target.append(h)
            elif kind == "remove":
                if not target or idx != len(target) - 1 or target[-1] != h:
                    return "remove %r at %r but list is %r" % (h, idx, target)
                target.pop()
                info["reorg"] = True
            else:
                return "unknown op kind %r" % (kind,)
        return None

    def check(ops, unchanged=None):
        if not info["stale_seen"] and finder_stale(bc.chain_finder):
            info["stale_seen"] = True            # attribution only (see classify); never skips a check
        n = bc.length()
        tuples = [bc.tuple_for_index(i) for i in range(n)]
        chain = [t[0] for t in tuples]
        if unchanged is not None and chain != unchanged:
            try:
                tie = sum(weight[h] for h in chain) == sum(weight[h] for h in unchanged)
            except KeyError:
                tie = False
            return ("lock-switched-between-equal-weight-chains-without-ops" if tie else "lock-changed-chain",
                    "%r -> %r; index_for_hash of the new chain: %r" % (unchanged, chain, [bc.index_for_hash(h) for h in chain]), chain)
        # (1) it is a chain of delivered headers descending from the original anchor
        prev = anchor
        for i, t in enumerate(tuples):
            h = t[0]
            if h not in parent:
                return "chain-member-not-delivered", "index %d: %r" % (i, t), chain
            if parent[h] != prev:
                return "chain-not-linked", "index %d: %r does not follow %r" % (i, t, prev), chain
            if tuple(t) != (h, parent[h], weight[h]):
                return "tuple-for-index-wrong", "index %d: %r != %r" % (i, t, (h, parent[h], weight[h])), chain
            prev = h
        # (2) the locked prefix cannot be reorganised away
        if chain[:len(locked)] != locked:
            return "locked-prefix-lost", "locked %r reported %r" % (locked, chain), chain
        if bc.locked_length() != len(locked) or bc.unlocked_length() != n - len(locked):
            return "locked-length-wrong", "locked_length %r unlocked_length %r expected %d/%d" % (
                bc.locked_length(), bc.unlocked_length(), len(locked), n - len(locked)), chain
        # (3) maximum total weight among chains of delivered headers extending the locked prefix
        start = locked[-1] if locked else anchor
        got = sum(weight[h] for h in chain[len(locked):])
        want = best_weight(children, weight, start)
        if got != want:
            return "not-heaviest", "reported %r has weight %d beyond the locked prefix; heaviest available is %d" % (
                chain, got, want), chain
        # (4) lookups agree
        for i in range(n):
            if bc.hash_for_index(i) != chain[i]:
                return "hash-for-index-wrong", "index %d" % i, chain
        if n and (bc.hash_for_index(-1) != chain[-1] or bc.hash_for_index(-n) != chain[0]):
            return "hash-for-index-wrong", "negative index", chain
        last = bc.last_block_hash()
        if last != (chain[-1] if chain else anchor):
            return "last-block-hash-wrong", "%r" % (last,), chain
        pos = {h: i for i, h in enumerate(chain)}
        for h in case.universe:
            if bc.index_for_hash(h) != pos.get(h):
                return "index-for-hash-wrong", "index_for_hash(%r) = %r, chain position %r" % (
                    h, bc.index_for_hash(h), pos.get(h)), chain
        # (5) ops (returned, and sent to callbacks) rebuild exactly the reported chain
        if ops is not None:
            e = apply_ops(mirror, ops)
            if e:
                return "ops-not-applicable", e + "; ops %r" % (ops,), chain
            e = apply_ops(mirror_cb, cb_ops)
            if e:
                return "callback-ops-not-applicable", e + "; ops %r" % (cb_ops,), chain
        if mirror != chain:
            return "ops-do-not-reproduce-chain", "ops so far give %r, reported %r (last ops %r)" % (
                mirror, chain, ops), chain
        if mirror_cb != chain:
            return "callback-ops-do-not-reproduce-chain", "callback ops so far give %r, reported %r" % (
                mirror_cb, chain), chain
        if chain:
            info["nonempty"] = True
        return None, None, chain

    def fail(clause, detail):
        try:
            stale = finder_stale(bc.chain_finder)
        except Exception:
            stale = []
        return {"clause": clause, "detail": detail, "step": step, "stale": bool(stale) or info["stale_seen"],
                "trigger": info["trigger"], "relocked": info["relocked"]}

    try:
        for bi, batch in enumerate(batches):
            step = "add_headers #%d" % bi
            # --- bookkeeping for defect attribution (necessary conditions only; never used to skip a check)
            new = []
            for i in batch:
                if keys[i] not in parent and keys[i] not in new:
                    new.append(keys[i])
                if keys[i] in locked:
                    info["relocked"] = True
            newpar = {keys[i]: pk[i] for i in batch}
            for x in new:
                if children.get(x):                      # an earlier orphan subtree is waiting on x
                    for y in new:
                        h, hops = y, 0
                        while h != x and hops <= len(keys):
                            h = newpar.get(h, parent.get(h))
                            hops += 1
                            if h is None:
                                break
                        if y != x and h == x:
                            info["trigger"] = True
            # --- the real call
            del cb_ops[:]
            ops = bc.add_headers([Hdr(keys[i], pk[i], wts[i]) for i in batch])
            for i in batch:
                h = keys[i]
                if h not in parent:
                    parent[h] = pk[i]
                    weight[h] = wts[i]
                    children.setdefault(pk[i], []).append(h)
            clause, detail, chain = check(ops)
            if clause:
                return fail(clause, detail), info
            info["gaps"].append((len(locked), len(chain)))
            k = lock_chooser(bi, len(locked), len(chain)) if lock_chooser else 0
            info["locks"].append(k)
            if k:
                step = "lock_to_index(%d) after #%d" % (k, bi)
                bc.lock_to_index(k)
                if k > len(locked):
                    locked = chain[:k]
                del cb_ops[:]
                clause, detail, chain2 = check(None, unchanged=chain)
                if clause:
                    return fail(clause, detail), info
    except Exception as ex:
        return fail("exception-" + type(ex).__name__, "%s: %s" % (type(ex).__name__, ex)), info
    return None, info


def classify(v):
    """one finding key per distinct defect; anything unexplained keeps its own clause-derived key"""
    if v["stale"] and v["trigger"]:
        return KEY_MELD            # the finder held a stranded subtree at some point of this history
    if v["relocked"]:
        return KEY_RELOCKED        # a header that was already locked had been delivered again
    if v["stale"]:
        return KEY_STALE_OTHER
    if v["clause"] == "lock-switched-between-equal-weight-chains-without-ops":
        return KEY_LOCK_TIE
    return "c15-" + v["clause"]


def repro_blockchain(case, batches, locks, hashseed, repo, note=""):
    def kr(k):
        return "bytes.fromhex(%r)" % k.hex() if isinstance(k, bytes) else repr(k)
    lines = ["# PYTHONHASHSEED=%s python3 this.py" % hashseed if case.scheme == "bytes" else "# any PYTHONHASHSEED",
             "import sys; sys.path.insert(0, %r)" % repo,
             "from pycoin.blockchain.BlockChain import BlockChain",
             "class H:",
             "    def __init__(s, h, p, w): s.h, s.previous_block_hash, s.difficulty = h, p, w",
             "    def hash(s): return s.h",
             "    def __repr__(s): return 'H(%r)' % (s.h,)",
             "K = [%s]" % ", ".join(kr(k) for k in case.keys),
             "ANCHOR, MISSING = %s, %s" % (kr(case.anchor), kr(case.missing)),
             "P = [%s]" % ", ".join("ANCHOR" if p == A else "MISSING" if p == M else "K[%d]" % p for p in case.par),
             "W = %r" % (list(case.weights),),
             "bc = BlockChain(ANCHOR, {})"]
    for bi, b in enumerate(batches):
        lines.append("print(bc.add_headers([H(K[i], P[i], W[i]) for i in %r]), [K.index(bc.hash_for_index(i)) for i in range(bc.length())])" % (list(b),))
        if locks and bi < len(locks) and locks[bi]:
            lines.append("bc.lock_to_index(%d); print([K.index(bc.hash_for_index(i)) for i in range(bc.length())])" % locks[bi])
    lines.append("# printed: ops, then the reported chain as indices into K.  parents (index into K, -1 anchor, -2 never "
                 "delivered): %r" % (list(case.par),))
    if note:
        lines.append("# observed by the harness: " + note.replace("\n", " "))
    return "\n".join(lines)


# =====================================================================================================================
# the contract for ChainFinder (representation invariant + queries)
# =====================================================================================================================
def run_finder(ChainFinder, case, batches):
    """-> (violation or None, info).  After every load_nodes the finder's view must be exactly the set of maximal
    paths (leaf ... root, missing parent) of the forest delivered so far."""
    keys, pk = case.keys, case.pk
    cf = ChainFinder()
    parent = {}
    info = {"trigger": False, "fork": False}
    step = None

    def fail(clause, detail):
        try:
            stale = finder_stale(cf)
        except Exception:
            stale = []
        return {"clause": clause, "detail": detail, "step": step, "stale": bool(stale), "trigger": info["trigger"],
                "relocked": False}

    def up(h):
        p = [h]
        while p[-1] in parent:
            p.append(parent[p[-1]])
        return p

    try:
        for bi, batch in enumerate(batches):
            step = "load_nodes #%d" % bi
            new = []
            for i in batch:
                if keys[i] not in parent and keys[i] not in new:
                    new.append(keys[i])
            newpar = {keys[i]: pk[i] for i in batch}
            kids_before = set(parent.values())
            for x in new:
                if x in kids_before:
                    for y in new:
                        h, hops = y, 0
                        while h != x and h is not None and hops <= len(keys):
                            h = newpar.get(h, parent.get(h))
                            hops += 1
                        if y != x and h == x:
                            info["trigger"] = True
            cf.load_nodes([(keys[i], pk[i]) for i in batch])
            for i in batch:
                parent.setdefault(keys[i], pk[i])
            # reference view
            has_child = set(parent.values())
            leaves = [h for h in parent if h not in has_child]
            if len(leaves) > 1:
                info["fork"] = True
            want_tfb = {h: up(h) for h in leaves}
            want_dbt = {}
            for h in leaves:
                want_dbt.setdefault(want_tfb[h][-1], set()).add(h)
            if cf.trees_from_bottom != want_tfb:
                return fail("trees-from-bottom-not-the-maximal-paths", "have %r want %r" % (cf.trees_from_bottom, want_tfb)), info
            if cf.descendents_by_top != want_dbt:
                return fail("descendents-by-top-wrong", "have %r want %r" % (cf.descendents_by_top, want_dbt)), info
            if set(cf.missing_parents()) != set(want_dbt):
                return fail("missing-parents-wrong", "have %r want %r" % (set(cf.missing_parents()), set(want_dbt))), info
            if cf.parent_lookup != parent:
                return fail("parent-lookup-wrong", "have %r want %r" % (cf.parent_lookup, parent)), info
            for top in list(want_dbt) + [case.anchor, case.missing]:
                have = [tuple(c) for c in cf.all_chains_ending_at(top)]
                want = [tuple(want_tfb[h]) for h in want_dbt.get(top, ())]
                if len(have) != len(want) or set(have) != set(want):
                    return fail("all-chains-ending-at-wrong", "top %r: have %r want %r" % (top, have, want)), info
            nodes = list(parent)
            ups = {h: up(h) for h in nodes}
            for h in nodes:
                if list(cf.maximum_path(h, {})) != ups[h]:
                    return fail("maximum-path-wrong", "%r: have %r want %r" % (h, cf.maximum_path(h, {}), ups[h])), info
            for h1 in nodes:
                p1 = ups[h1]
                for h2 in nodes:
                    p2 = ups[h2]
                    if p1[-1] != p2[-1]:
                        want = ([], [])
                    else:
                        i1 = 0
                        while p1[i1] not in p2:          # independent reference: first ancestor-or-self of h1 on h2's path
                            i1 += 1
                        want = (p1[:i1 + 1], p2[:p2.index(p1[i1]) + 1])
                    have = cf.find_ancestral_path(h1, h2, {})
                    if (list(have[0]), list(have[1])) != want:
                        return fail("find-ancestral-path-wrong", "(%r, %r): have %r want %r" % (h1, h2, have, want)), info
    except Exception as ex:
        return fail("exception-" + type(ex).__name__, "%s: %s" % (type(ex).__name__, ex)), info
    return None, info


def repro_finder(case, batches, hashseed, repo, note=""):
    def kr(k):
        return "bytes.fromhex(%r)" % k.hex() if isinstance(k, bytes) else repr(k)
    lines = ["# PYTHONHASHSEED=%s python3 this.py" % hashseed if case.scheme == "bytes" else "# any PYTHONHASHSEED",
             "import sys; sys.path.insert(0, %r)" % repo,
             "from pycoin.blockchain.ChainFinder import ChainFinder",
             "K = [%s]" % ", ".join(kr(k) for k in case.keys),
             "ANCHOR, MISSING = %s, %s" % (kr(case.anchor), kr(case.missing)),
             "P = [%s]" % ", ".join("ANCHOR" if p == A else "MISSING" if p == M else "K[%d]" % p for p in case.par),
             "cf = ChainFinder()"]
    for b in batches:
        lines.append("cf.load_nodes([(K[i], P[i]) for i in %r]); print(cf)" % (list(b),))
    lines.append("# every leaf's tree must run up to the missing parent of its root")
    if note:
        lines.append("# observed by the harness: " + note.replace("\n", " "))
    return "\n".join(lines)


# =====================================================================================================================
# worker: enumerate one space under the PYTHONHASHSEED of this interpreter
# =====================================================================================================================
class Collector(object):
    def __init__(self, hashseed, repo, per_key=3):
        self.hashseed, self.repo, self.per_key = hashseed, repo, per_key
        self.evaluations = 0
        self.distinct = set()
        self.distinct_sliced = set()
        self.by_key = {}       # finding key -> [count, [violations sorted by size]]
        self.samples = []

    def case(self, key, nontrivial, sample=None, sliced=0):
        self.evaluations += 1
        if nontrivial:
            (self.distinct_sliced if sliced else self.distinct).add(hash(key))   # tuples of ints: seed-independent
        if sample is not None and nontrivial and len(self.samples) < 2 and len(sample.get("parents", ())) >= 3 \
                and len(sample.get("batches", ())) >= 2:
            self.samples.append(sample)

    def violation(self, fkey, size, what, inputs, repro):
        ent = self.by_key.setdefault(fkey, [0, []])
        ent[0] += 1
        lst = ent[1]
        if len(lst) < self.per_key or size < lst[-1][0]:
            lst.append((size, what, inputs, repro))
            lst.sort(key=lambda x: x[0])
            del lst[self.per_key:]

    def dump(self):
        return {"evaluations": self.evaluations, "distinct": len(self.distinct), "distinct_sliced": len(self.distinct_sliced), "samples": self.samples,
                "findings": {k: {"count": c, "examples": [{"what": w, "inputs": i, "repro": r} for _, w, i, r in ex]}
                             for k, (c, ex) in self.by_key.items()}}


def _weights_list(tier, n, rng, P, is_dup, counter):
    """all of {1,2}^n for small duplicate-free histories; otherwise all-ones and/or one seeded vector from {1,2,3}^n
    (3 lets a shorter chain be strictly heavier than a longer one)"""
    ones = (1,) * n
    if n <= P["weights_full_upto"] and not is_dup:
        return list(itertools.product((1, 2, 3) if tier == "thorough" and n <= 3 else (1, 2), repeat=n))
    extra = tuple(rng.choice((1, 2, 3)) for _ in range(n))
    if P.get("weight_vectors", 2) == 1:
        return [ones if counter % 2 == 0 else extra]
    return [ones] if extra == ones else [ones, extra]


def _history_spaces(scheme, rng, P, slice_):
    """yields (case id (n, forest, history, duplicate variant, sliced?), par, batches, running counter).
    Deterministic given the rng state (identical in every worker of the same scheme)."""
    counter = 0
    labelled = scheme in ("int", "intc")
    for n in range(1, P["nmax_full"] + 1):
        forests = list(labelled_forests(n)) if labelled else shapes(n)
        # int keys: order inside a batch cannot influence the code (no set collisions), so batches are sets;
        # other keys: every permutation x every cut into consecutive batches
        as_parts = scheme == "int" or n in P.get("parts_only_n", ())
        if as_parts:
            hist = list(ordered_partitions(range(n)))
        else:
            hist = [b for perm in itertools.permutations(range(n)) for b in compositions(perm)]
        for fi, par in enumerate(forests):
            for hi, batches in enumerate(hist):
                counter += 1
                yield (n, fi, hi, 0, 0), par, batches, counter
                if n <= P["dup_full_upto"]:
                    for di, nb in enumerate(with_one_duplicate(batches)):
                        counter += 1
                        yield (n, fi, hi, 1 + di, 0), par, nb, counter
                elif P["dup_sampled"] and rng.random() < P["dup_sampled"]:
                    dl = list(with_one_duplicate(batches))
                    di = rng.randrange(len(dl))
                    counter += 1
                    yield (n, fi, hi, 1 + di, 0), par, dl[di], counter
    for n in P.get("sliced_n", ()):
        # too big to repeat per hash seed: all shapes x all ordered batchings, each history under ONE of the seeds
        hist = list(ordered_partitions(range(n)))
        for fi, par in enumerate(shapes(n)):
            for hi, batches in enumerate(hist):
                counter += 1
                if counter % slice_[1] == slice_[0]:
                    yield (n, fi, hi, 0, 1), par, batches, counter
    for n in range(P["nmax_full"] + 1, P["nmax_sampled"] + 1):
        for si in range(P["samples_per_n"]):
            par = random_forest(rng, n)
            batches = random_batches(rng, n, 0.25)
            counter += 1
            yield (n, -1, si, 0, 0), par, batches, counter


def _flat(batches):
    out = []
    for b in batches:
        out.extend(b)
        out.append(-9)
    return tuple(out)


def worker_tracking(opts, col):
    from pycoin.blockchain.BlockChain import BlockChain
    tier, scheme = opts["tier"], opts["scheme"]
    rng = random.Random("c15-tracking-%s-%s" % (opts["seed"], scheme))
    P = opts["params"]
    for cid, par, batches, counter in _history_spaces(scheme, rng, P, opts["slice"]):
        n = len(par)
        for wts in _weights_list(tier, n, rng, P, cid[3] != 0, counter):
            case = Case(scheme, par, wts, rot=counter)
            v, info = run_history(BlockChain, case, batches)
            col.case((0, SCHEME_ID[scheme]) + tuple(par) + (-7,) + _flat(batches) + tuple(wts),
                     nontrivial=n >= 2 and info["nonempty"], sliced=cid[4],
                     sample={"parents": list(par), "weights": list(wts), "batches": batches, "keys": scheme})
            if v:
                _report(col, case, batches, None, v, opts)


def worker_locking(opts, col):
    from pycoin.blockchain.BlockChain import BlockChain
    tier, scheme = opts["tier"], opts["scheme"]
    rng = random.Random("c15-locking-%s-%s" % (opts["seed"], scheme))
    P = opts["params"]
    for cid, par, batches, counter in _history_spaces(scheme, rng, P, opts["slice"]):
        n = len(par)
        for wts in _weights_list(tier, n, rng, P, cid[3] != 0, counter):
            case = Case(scheme, par, wts, rot=counter)
            if n <= P["all_schedules_upto"]:
                # all lock schedules: depth-first, each schedule replayed from scratch
                todo = [[]]
                while todo:
                    sched = todo.pop()
                    v, info = run_history(BlockChain, case, batches,
                                          (lambda g, ll, ln, s=sched: s[g] if g < len(s) else 0))
                    if sched:
                        col.case((1, SCHEME_ID[scheme]) + tuple(par) + (-7,) + _flat(batches) + tuple(wts) + (-8,) + tuple(sched),
                                 nontrivial=True, sliced=cid[4],
                                 sample={"parents": list(par), "weights": list(wts), "batches": batches, "locks": sched, "keys": scheme})
                        if v:
                            _report(col, case, batches, sched, v, opts)
                            continue
                    elif v:
                        continue          # the lock-free run is judged by C15.chain_tracking
                    for g in range(len(sched), len(info["gaps"])):
                        ll, ln = info["gaps"][g]
                        for k in range(ll + 1, ln + 1):
                            todo.append(sched + [0] * (g - len(sched)) + [k])
            else:
                # one seeded random schedule (each gap: lock with prob 1/2 to a random admissible index)
                for rep in range(P["random_schedules"]):
                    r2 = random.Random("%s-%d-%d" % (opts["seed"], counter, rep))

                    def chooser(g, ll, ln, r2=r2):
                        if ln > ll and r2.random() < 0.5:
                            return r2.randrange(ll + 1, ln + 1)
                        return 0
                    v, info = run_history(BlockChain, case, batches, chooser)
                    sched = info["locks"]
                    if not any(sched):
                        continue
                    col.case((1, SCHEME_ID[scheme]) + tuple(par) + (-7,) + _flat(batches) + tuple(wts) + (-8,) + tuple(sched),
                             nontrivial=True, sliced=cid[4],
                             sample={"parents": list(par), "weights": list(wts), "batches": batches, "locks": sched, "keys": scheme})
                    if v:
                        _report(col, case, batches, sched, v, opts)


def _report(col, case, batches, sched, v, opts):
    fkey = classify(v)
    size = (len(case.par), sum(len(b) for b in batches), len(batches), sum(1 for k in (sched or []) if k), sum(case.weights))
    what = "%s [%s]" % (v["clause"], v["step"].split(" ")[0])
    inputs = "keys=%s hashseed=%s parents=%r weights=%r batches=%r locks=%r: %s at %s" % (
        case.scheme, opts["hashseed"] if case.scheme == "bytes" else "any", list(case.par), list(case.weights),
        batches, sched, v["detail"][:300], v["step"])
    col.violation(fkey, size, what, inputs, repro_blockchain(case, batches, sched, opts["hashseed"], opts["repo"],
                                                             "%s at %s: %s" % (v["clause"], v["step"], v["detail"][:300])))


def worker_finder(opts, col):
    from pycoin.blockchain.ChainFinder import ChainFinder
    tier, scheme = opts["tier"], opts["scheme"]
    rng = random.Random("c15-finder-%s-%s" % (opts["seed"], scheme))
    P = opts["params"]
    for cid, par, batches, counter in _history_spaces(scheme, rng, P, opts["slice"]):
        n = len(par)
        case = Case(scheme, par, (1,) * n, rot=counter)
        v, info = run_finder(ChainFinder, case, batches)
        col.case((2, SCHEME_ID[scheme]) + tuple(par) + (-7,) + _flat(batches), nontrivial=n >= 2, sliced=cid[4],
                 sample={"parents": list(par), "batches": batches, "keys": scheme})
        if v:
            fkey = classify(v)
            size = (n, sum(len(b) for b in batches), len(batches))
            inputs = "keys=%s hashseed=%s parents=%r batches=%r: %s at %s" % (
                scheme, opts["hashseed"] if scheme == "bytes" else "any", list(par), batches, v["detail"][:300], v["step"])
            col.violation(fkey, size, "%s [load_nodes]" % v["clause"], inputs,
                          repro_finder(case, batches, opts["hashseed"], opts["repo"],
                                       "%s at %s: %s" % (v["clause"], v["step"], v["detail"][:300])))


WORKERS = {"tracking": worker_tracking, "locking": worker_locking, "finder": worker_finder}


def worker_main(argv):
    opts = json.loads(argv[0])
    sys.path[:0] = [opts["repo"]]
    opts["hashseed"] = os.environ.get("PYTHONHASHSEED", "random")
    col = Collector(opts["hashseed"], opts["repo"])
    t0 = time.time()
    WORKERS[opts["what"]](opts, col)
    out = col.dump()
    out["secs"] = round(time.time() - t0, 2)
    sys.stdout.write(json.dumps(out, default=repr))


# =====================================================================================================================
# parameters per tier
# =====================================================================================================================
HASHSEEDS = {"quick": ["0", "3", "11"], "thorough": ["0", "3", "11", "1", "2", "7", "42", "2024"]}

PARAMS = {
    "quick": {
        "tracking": {
            "int": dict(nmax_full=4, nmax_sampled=6, samples_per_n=1200, dup_full_upto=3, dup_sampled=0.03, weights_full_upto=3,
                        weight_vectors=1),
            "bytes": dict(nmax_full=4, nmax_sampled=6, samples_per_n=500, dup_full_upto=3, dup_sampled=0.03, weights_full_upto=2,
                          weight_vectors=1),
        },
        "locking": {
            "int": dict(nmax_full=3, nmax_sampled=6, samples_per_n=1500, dup_full_upto=3, dup_sampled=0, weights_full_upto=2,
                        weight_vectors=1, all_schedules_upto=3, random_schedules=1),
            "intc": dict(nmax_full=3, nmax_sampled=3, samples_per_n=0, dup_full_upto=0, dup_sampled=0, weights_full_upto=0,
                         weight_vectors=1, all_schedules_upto=3, random_schedules=1),
            "bytes": dict(nmax_full=3, nmax_sampled=6, samples_per_n=500, dup_full_upto=2, dup_sampled=0.1, weights_full_upto=2,
                          weight_vectors=1, all_schedules_upto=3, random_schedules=1),
        },
        "finder": {
            "int": dict(nmax_full=4, nmax_sampled=6, samples_per_n=1500, dup_full_upto=3, dup_sampled=0.03),
            "bytes": dict(nmax_full=4, nmax_sampled=6, samples_per_n=500, dup_full_upto=3, dup_sampled=0.03),
        },
    },
    "thorough": {
        "tracking": {
            "int": dict(nmax_full=4, nmax_sampled=7, samples_per_n=15000, dup_full_upto=3, dup_sampled=0.05, weights_full_upto=3,
                        weight_vectors=2),
            "bytes": dict(nmax_full=5, parts_only_n=(5,), sliced_n=(6,), nmax_sampled=7, samples_per_n=3000, dup_full_upto=3,
                          dup_sampled=0.02, weights_full_upto=3, weight_vectors=1),
        },
        "locking": {
            "int": dict(nmax_full=4, nmax_sampled=7, samples_per_n=6000, dup_full_upto=3, dup_sampled=0.05, weights_full_upto=3,
                        weight_vectors=2, all_schedules_upto=3, random_schedules=2),
            "intc": dict(nmax_full=4, nmax_sampled=4, samples_per_n=0, dup_full_upto=0, dup_sampled=0, weights_full_upto=0,
                         weight_vectors=1, all_schedules_upto=3, random_schedules=1),
            "bytes": dict(nmax_full=4, nmax_sampled=7, samples_per_n=3000, dup_full_upto=3, dup_sampled=0.05, weights_full_upto=2,
                          weight_vectors=2, all_schedules_upto=3, random_schedules=2),
        },
        "finder": {
            "int": dict(nmax_full=4, nmax_sampled=7, samples_per_n=15000, dup_full_upto=3, dup_sampled=0.05),
            "bytes": dict(nmax_full=5, parts_only_n=(5,), nmax_sampled=7, samples_per_n=3000, dup_full_upto=3,
                          dup_sampled=0.02),
        },
    },
}


def _repo_root():
    import pycoin
    return os.path.dirname(os.path.dirname(os.path.abspath(pycoin.__file__)))


def _drive(what, opts, t):
    """run the int-keyed space once and the bytes-keyed space under every PYTHONHASHSEED; merge into the Tally"""
    tier = opts.get("tier", "quick")
    tier = tier if tier in PARAMS else "quick"
    repo = _repo_root()
    jobs = [(sch, "0") for sch in ("int", "intc") if sch in PARAMS[tier][what]] + [("bytes", s) for s in HASHSEEDS[tier]]
    procs = []
    for scheme, hs in jobs:
        wopts = {"what": what, "tier": tier, "seed": opts.get("seed", 0), "scheme": scheme, "repo": repo,
                 "params": PARAMS[tier][what][scheme],
                 "slice": [HASHSEEDS[tier].index(hs), len(HASHSEEDS[tier])] if scheme == "bytes" else [0, 1]}
        env = dict(os.environ)
        env["PYTHONHASHSEED"] = hs
        env.pop("PYTHONPATH", None)
        # sequential on purpose: the budget is stated for one core
        procs.append((scheme, hs, subprocess.run([sys.executable, "-B", os.path.join(_HERE, "c15_bounded.py"), "--worker",
                                                  json.dumps(wopts)], env=env, stdout=subprocess.PIPE,
                                                 stderr=subprocess.PIPE, cwd=_HERE, timeout=3600)))
    distinct_by_space = {}
    distinct_sliced = 0
    merged = {}
    secs = []
    for scheme, hs, p in procs:
        out, err = p.stdout, p.stderr
        if p.returncode != 0:
            raise RuntimeError("C15 worker %s/%s (PYTHONHASHSEED=%s) failed: %s" % (what, scheme, hs, err.decode()[-1500:]))
        r = json.loads(out.decode())
        secs.append(r["secs"])
        t.evaluations += r["evaluations"]
        distinct_by_space[scheme] = max(distinct_by_space.get(scheme, 0), r["distinct"])
        distinct_sliced += r["distinct_sliced"]
        for s in r["samples"]:
            if len(t.samples) < 3 and (not t.samples or s.get("keys") != t.samples[-1].get("keys")):
                t.samples.append(s)
        for fkey, f in r["findings"].items():
            m = merged.setdefault(fkey, {"count": 0, "examples": [], "where": []})
            m["count"] += f["count"]
            m["where"].append("%s keys, PYTHONHASHSEED=%s: %d" % (scheme, hs if scheme == "bytes" else "any", f["count"]))
            for ex in f["examples"]:
                ex["rank"] = (0 if scheme != "bytes" else 1, len(ex["inputs"]))
            m["examples"].extend(f["examples"])
    # the same bytes-keyed histories are replayed under every hash seed: they count once as distinct cases
    t.distinct = range(sum(distinct_by_space.values()) + distinct_sliced)
    for fkey in sorted(merged):
        m = merged[fkey]
        for ex in sorted(m["examples"], key=lambda e: e["rank"])[:2]:
            t.violation(what=ex["what"], inputs=ex["inputs"], repro=ex["repro"], finding_key=fkey)
        t.samples.append({"finding_key": fkey, "violating_histories": m["count"], "where": m["where"]})
    t.samples.append({"worker_secs": secs, "hashseeds": HASHSEEDS[tier]})
    return t


if __name__ == "__main__":
    if len(sys.argv) >= 3 and sys.argv[1] == "--worker":
        worker_main(sys.argv[2:])
        sys.exit(0)

from pyvc.bounded import bounded, Tally  # noqa: E402


_SPACE = ("forests: every root hangs off the anchor or off one parent that is never delivered. int keys (1..n, set.pop order = "
          "ascending key, so all labelled forests = all merge priorities): all labelled forests x all ordered set-partitions "
          "into batches for n<=4; bytes keys (32-byte digests, anchor 32 zero bytes), repeated under PYTHONHASHSEED in {0,3,11} "
          "(thorough: 8 seeds): all forest shapes x all permutations x all cuts into consecutive batches for n<=4 (thorough: +n=5 "
          "shapes x ordered set-partitions per seed, +n=6 shapes x ordered set-partitions each under one of the 8 seeds); every "
          "placement of one duplicate for n<=3, sampled for n=4; seeded random forests/orders/batchings/duplicates for n=5,6 "
          "(thorough: up to 7)")


@bounded("C15.chain_tracking", props=["C15"],
         bound=_SPACE + "; weights: all of {1,2}^n for n<=3 (thorough {1,2,3}^3), else all-ones and/or one seeded vector from "
                        "{1,2,3}^n; no locking")
def c15_chain_tracking(opts):
    t = Tally(rule="a case = (parent function, weights, sequence of batches incl. duplicates, key scheme); after EACH add_headers the "
                   "real BlockChain must report (length/tuple_for_index) a chain of delivered headers linked from the anchor whose "
                   "total weight equals the maximum over all such chains (independent DFS over the delivered forest); "
                   "hash_for_index (also -1, -n), last_block_hash, index_for_hash over every hash of the universe (None off-chain) "
                   "agree with it; ops returned and ops sent to a registered callback, replayed on [] (add only at the end index, "
                   "remove only the last item), equal the chain. non-trivial = >=2 headers and a non-empty chain at some point. "
                   "The bytes-keyed space is re-run per PYTHONHASHSEED and counted once in distinct_nontrivial")
    _drive("tracking", opts, t)
    t.exhaustive = False     # exhaustive over the stated small-n spaces; sampled beyond and over set orders of bytes keys
    return t.result()


@bounded("C15.chain_locking", props=["C15"],
         bound="histories as C15.chain_tracking with lock_to_index between deliveries (every gap, also after the last delivery; "
               "every index in (locked_length, length]): all lock schedules for n<=3 incl. one duplicate (int keys, colliding-int "
               "keys 3,11,19 and bytes keys x hash seeds); thorough: +n=4 all histories with two seeded schedules; seeded "
               "schedules on sampled histories up to 6 (7) headers")
def c15_chain_locking(opts):
    t = Tally(rule="a case = chain_tracking case + a lock schedule with >=1 lock; all chain_tracking checks after each delivery AND "
                   "after each lock, plus: lock_to_index leaves the reported chain unchanged, locked_length/unlocked_length match, "
                   "the locked prefix stays a prefix for ever and the remainder is heaviest among delivered chains extending it "
                   "(also when already locked headers are delivered again)")
    _drive("locking", opts, t)
    t.exhaustive = False
    return t.result()


@bounded("C15.chainfinder_view", props=["C15"],
         bound="ChainFinder alone over the C15.chain_tracking histories (no weights; thorough without the n=6 slice)")
def c15_chainfinder_view(opts):
    t = Tally(rule="after EACH load_nodes: trees_from_bottom == {leaf: [leaf..root, missing parent]} for every leaf of the forest "
                   "delivered so far, descendents_by_top == {missing parent: its leaves}, missing_parents, parent_lookup, "
                   "all_chains_ending_at(top) for every top (+anchor, +never-delivered), maximum_path(h) for every node, "
                   "find_ancestral_path(h1,h2) for every ordered pair == (h1..lca, h2..lca) or ([],[]) across trees; "
                   "non-trivial = >=2 headers")
    _drive("finder", opts, t)
    t.exhaustive = False
    return t.result()
