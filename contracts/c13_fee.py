"""C13: the reported fee equals inputs minus outputs.

`Tx.total_in` == the sum of the recorded spent outputs (one per input, all present; a coinbase reports its first output),
ValueError when the records do not pair up with the inputs; `Tx.fee` == total_in - total_out.  The records are stated
present (no None entry): a missing record is the other branch of `missing_unspent`, covered by the bounded harness."""
from pyvc.api import *
from spec.core import *
from spec.wire import *
from spec.txcheck import value_sum_upto, is_coinbase_tx
from contracts.c04_bip143 import mk_tx_u
from contracts.c07_tx import TXIN, TXOUT
from pycoin.coins.bitcoin.Tx import Tx
from contracts.c13_value import total_out  # noqa: F401  (callee contract)

T = "pycoin.coins.bitcoin.Tx:Tx."

# any number of inputs, outputs and recorded spent outputs (also none at all)
TXU = Obj(Tx, dict(version=Int(0, 2 ** 32 - 1), txs_in=SeqOf(TXIN, sample_max=3), txs_out=SeqOf(TXOUT, sample_max=3), lock_time=Int(0, 2 ** 32 - 1),
                   unspents=SeqOf(TXOUT, sample_max=3)), make=mk_tx_u)


@contract(T + "missing_unspent")
class missing_unspent:
    props = ["C13"]
    sig = dict(self=TXU, idx=Int(0))
    returns = Bool()

    def requires(self, idx):
        return idx >= 0

    def ensures_paired(self, idx, result):
        return result == (is_coinbase_tx(self.txs_in) or len(self.unspents) <= idx)

    canaries = [("len(self.unspents) <= idx", "len(self.unspents) < idx")]


@contract(T + "missing_unspents")
class missing_unspents:
    props = ["C13"]
    sig = dict(self=TXU)
    returns = Bool()

    def ensures_one_record_per_input(self, result):
        return result == ((not is_coinbase_tx(self.txs_in)) and len(self.unspents) != len(self.txs_in))

    canaries = [("len(self.unspents) != len(self.txs_in)", "len(self.unspents) > len(self.txs_in)")]


@invariant(T + "missing_unspents", "comp0")
def _inv_missing(self, _r, _i):
    return (_r == False, not is_coinbase_tx(self.txs_in), len(self.unspents) == len(self.txs_in))


@contract(T + "check_unspents")
class check_unspents:
    props = ["C13"]
    sig = dict(self=TXU)
    returns = Const(None)

    def _unpaired(self):
        return (not is_coinbase_tx(self.txs_in)) and len(self.unspents) != len(self.txs_in)

    raises = [(ValueError, _unpaired, True)]


@contract(T + "total_in")
class total_in:
    props = ["C13"]
    sig = dict(self=TXU)
    returns = Int()

    def _unpaired(self):
        return (not is_coinbase_tx(self.txs_in)) and len(self.unspents) != len(self.txs_in)

    def _coinbase_without_output(self):
        return is_coinbase_tx(self.txs_in) and len(self.txs_out) == 0

    raises = [(ValueError, _unpaired, True), (IndexError, _coinbase_without_output, True)]

    def ensures_sum_of_spent_outputs(self, result):
        return result == (self.txs_out[0].coin_value if is_coinbase_tx(self.txs_in) else value_sum_upto(self.unspents, len(self.unspents)))

    canaries = [("tx_out.coin_value for tx_out in self.unspents", "tx_out.coin_value for tx_out in self.unspents[1:]")]


@invariant(T + "total_in", "comp0")
def _inv_total_in(self, _r, _i):
    return _r == value_sum_upto(self.unspents, _i)


@contract(T + "fee")
class fee:
    props = ["C13"]
    sig = dict(self=TXU)
    returns = Int()

    def _unpaired(self):
        return (not is_coinbase_tx(self.txs_in)) and len(self.unspents) != len(self.txs_in)

    def _coinbase_without_output(self):
        return is_coinbase_tx(self.txs_in) and len(self.txs_out) == 0

    raises = [(ValueError, _unpaired, True), (IndexError, _coinbase_without_output, True)]

    def ensures_inputs_minus_outputs(self, result):
        ins = self.txs_out[0].coin_value if is_coinbase_tx(self.txs_in) else value_sum_upto(self.unspents, len(self.unspents))
        return result == ins - value_sum_upto(self.txs_out, len(self.txs_out))

    canaries = [("self.total_in() - self.total_out()", "self.total_out() - self.total_in()")]
