"""C09: the 74-byte BIP32 serialisation of a node (BIP32Node.serialize): depth, parent fingerprint, child index (big-endian),
chain code, then 00 || 32-byte private key or the compressed SEC public key -- the layout BIP32 prescribes behind the 4
version bytes.  Representation invariant used: `_secret_exponent_bytes` is the 32-byte big-endian form of the secret exponent
(established by __init__)."""
from pyvc.api import *
from spec.core import *
from contracts.c10_sec import sec_layout
import contracts.c10_wif  # noqa: F401  (Key.sec's contract)
from pycoin.symbols.btc import network as BTC
from pycoin.key.BIP32Node import BIP32Node
from pycoin.key.Key import Key
from pycoin.encoding.exceptions import EncodingError

NodeBTC = BTC.keys.bip32_seed(b"c09 serialise").__class__
from pycoin.key.BIP32Node import PublicPrivateMismatchError
N_K1 = 0xFFFFFFFFFFFFFFFFFFFFFFFFFFFFFFFEBAAEDCE6AF48A03BBFD25E8CD0364141


def _mk_node(v):
    n = BTC.keys.bip32_seed(b"c09 serialise %d" % (v['_child_index'] % 7))
    if v['_secret_exponent'] is not None:
        return n
    n = n.public_copy()
    n._secret_exponent_bytes = bytes(32)        # (attribute absent on public nodes; never read for them)
    return n


NODE = Obj(NodeBTC, dict(_secret_exponent=Opt(Int(1, N_K1 - 1)), _public_pair=Tup(Int(0, 2 ** 256 - 1), Int(0, 2 ** 256 - 1)), _is_compressed=Const(True),
                         _secret_exponent_bytes=Bytes(n=32), _chain_code=Bytes(n=32), _depth=Int(0, 255), _parent_fingerprint=Bytes(n=4),
                         _child_index=Int(0, 2 ** 32 - 1), _hash160_compressed=Const(None), _hash160_uncompressed=Const(None)),
           make=_mk_node, shared=True)


@contract("pycoin.key.BIP32Node:BIP32Node.serialize")
class node_serialize:
    props = ["C09"]
    sig = dict(self=NODE, as_private=Opt(Bool()))
    returns = Bytes()

    def requires(self, as_private):
        if self._secret_exponent is None:
            return True
        return self._secret_exponent_bytes == be(self._secret_exponent, 32)

    def _no_private_part(self, as_private):
        return self._secret_exponent is None and as_private is True

    def ensures_layout(self, as_private, result):
        priv = (self._secret_exponent is not None) if as_private is None else as_private
        head = bytes([self._depth]) + self._parent_fingerprint + be(self._child_index, 4) + self._chain_code
        pub = sec_layout(self._public_pair[0], self._public_pair[1], True)
        if self._secret_exponent is None:
            key = pub
        else:
            key = (b"\x00" + be(self._secret_exponent, 32)) if priv else pub
        return (result == head + key, len(result) == 74)

    raises = [(PublicPrivateMismatchError, _no_private_part, True)]
    canaries = [("struct.pack('>L', self._child_index)", "struct.pack('<L', self._child_index)")]


# ---------------------------------------------------------------- the xprv / xpub text
from spec.sighash import dsha256
from contracts.c11_base58 import b58_text

NODE_NET = Obj(NodeBTC, dict(_secret_exponent=Opt(Int(1, N_K1 - 1)), _public_pair=Tup(Int(0, 2 ** 256 - 1), Int(0, 2 ** 256 - 1)), _is_compressed=Const(True),
                             _secret_exponent_bytes=Bytes(n=32), _chain_code=Bytes(n=32), _depth=Int(0, 255), _parent_fingerprint=Bytes(n=4),
                             _child_index=Int(0, 2 ** 32 - 1), _hash160_compressed=Const(None), _hash160_uncompressed=Const(None),
                             _network=Const(BTC)), make=_mk_node, shared=True)


@contract("pycoin.key.BIP32Node:BIP32Node.hwif")
class node_hwif:
    """Base58Check of version bytes (0488ADE4 private / 0488B21E public on Bitcoin) || the 74-byte serialisation"""
    props = ["C09"]
    sig = dict(self=NODE_NET, as_private=Bool())
    returns = Str()

    def requires(self, as_private):
        if self._secret_exponent is None:
            return True
        return self._secret_exponent_bytes == be(self._secret_exponent, 32)

    def _no_private_part(self, as_private):
        return self._secret_exponent is None and as_private

    def ensures_text(self, as_private, result):
        head = bytes([self._depth]) + self._parent_fingerprint + be(self._child_index, 4) + self._chain_code
        pub = sec_layout(self._public_pair[0], self._public_pair[1], True)
        if self._secret_exponent is None:
            key = pub
        else:
            key = (b"\x00" + be(self._secret_exponent, 32)) if as_private else pub
        blob = (bytes.fromhex("0488ade4") if as_private else bytes.fromhex("0488b21e")) + head + key
        return result == b58_text(blob + dsha256(blob)[:4])

    raises = [(PublicPrivateMismatchError, _no_private_part, True)]
