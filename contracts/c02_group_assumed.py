"""Assumed contracts of the elliptic-curve arithmetic layer, used by the proofs of its clients (C01, C09, C10, C17).
They state that the real methods implement the abstract group of pyvc.group; C02's bounded harness checks exactly these
statements on exhaustive toy curves and on the production curves, and (where built) C02's own Tier-A units prove them."""
from pyvc.api import *
from spec.core import *
from spec.group import *
from pycoin.ecdsa.Point import NoSuchPointError

GEN = AbsGenerator()


@contract("pycoin.ecdsa.Curve:Curve.Point")
class curve_point:
    props = ["C02"]
    verify = False
    assumed_reason = "Point construction = abstract point with the given coordinates, refused when off the curve (Point.check_on_curve/contains_point; bounded check C02.toy_group_law)"
    sig = dict(self=GEN, x=Int(), y=Int())
    returns = Const(None)

    def _off(self, x, y):
        return not oncurve(x, y)
    raises = [(NoSuchPointError, _off, True)]


@contract("pycoin.ecdsa.Generator:Generator.inverse")
class generator_inverse:
    """proved: a call of Curve.inverse_mod (proved in c02_curve) with the prime group order as modulus"""
    props = ["C02"]
    sig = dict(self=GEN, a=Int())
    returns = Int()

    def requires(self, a):
        return a % self._order != 0

    def ensures_inverse(self, a, result):
        n = self._order
        return (0 < result, result < n, (a * result) % n == 1, result == inv_mod(a % n, n))


curve_point.returns = APoint(finite=True)


def _cp_ens(self, x, y, result):
    return (result == mkpt(x, y), xc(result) == x, yc(result) == y)


curve_point.ensures_point = _cp_ens
REG.contracts["pycoin.ecdsa.Curve:Curve.Point"].ensures = [("point", _cp_ens)]
REG.contracts["pycoin.ecdsa.Curve:Curve.Point"].returns = APoint(finite=True)


@contract("pycoin.ecdsa.Generator:Generator.points_for_x")
class points_for_x:
    props = ["C02"]
    verify = False
    assumed_reason = "square root modulo p = 3 (mod 4) and parity selection (Generator.modular_sqrt/points_for_x; bounded check C02.toy_points_for_x, exhaustive over 0 <= x < p)"
    sig = dict(self=GEN, x=Int())
    returns = Tup(APoint(finite=True), APoint(finite=True))

    def requires(self, x):
        return 0 <= x and x < self._p

    def _none(self, x):
        return not has_point_x(x)

    def ensures_two_points(self, x, result):
        p = self._p
        e, o = result[0], result[1]
        return (xc(e) == x, xc(o) == x, yc(e) % 2 == 0, yc(o) % 2 == 1, yc(e) + yc(o) == p, 0 < yc(e), yc(e) < p, 0 < yc(o), yc(o) < p,
                o == pneg(e), e == pneg(o), oncurve(x, yc(e)), oncurve(x, yc(o)), e == mkpt(x, yc(e)), o == mkpt(x, yc(o)))
    raises = [(ValueError, _none, True)]
