"""C16: the field codecs of the peer-to-peer message layer, taken from the real tables (satoshi_streamer.STREAMER_FUNCTIONS
and make_parser_and_packer.standard_parsing_functions), each against its Bitcoin wire layout, and PeerAddress.

For every type code c: the packer appends exactly layout_c(v) for v in the declared range (and raises struct.error
outside it); the parser consumes exactly that many bytes and returns the value whose layout they are.  Compact-size
counts ('I') and var-strings ('S') are proved in c07_prims.  Messages are sequences of these fields (Streamer.stream_struct
/ parse_struct iterate over the format string); whole messages are decided by the bounded harness."""
import struct as _struct
from pyvc.api import *
from spec.core import *
from pycoin.satoshi.satoshi_streamer import STREAMER_FUNCTIONS
from pycoin.message.make_parser_and_packer import standard_parsing_functions
from pycoin.message.PeerAddress import PeerAddress
from pycoin.block import Block
from pycoin.coins.bitcoin.Tx import Tx

FUNCS = dict(standard_parsing_functions(Block, Tx))     # code -> (parse, stream), the functions the real streamer dispatches to
assert all(FUNCS[c] == STREAMER_FUNCTIONS[c] for c in STREAMER_FUNCTIONS)


def _int_codec(code, k, order):
    """unsigned integer of k bytes, little-endian ('<') or network order ('>')"""
    parse_f, stream_f = FUNCS[code]
    def lay(v):
        return le(v, k) if order == '<' else be(v, k)

    def unlay(b):
        return le_int(b, k) if order == "<" else be_int_k(b, k)

    class S:
        props = ["C16"]
        sig = dict(f=WFile(), v=Int(interesting=[0, 1, 256 ** k - 1, 256 ** k, -1]))
        assigns = ["f"]
        func = staticmethod(lambda: stream_f)

        def _out_of_range(f, v):
            return v < 0 or v >= 256 ** k

        def ensures_layout(f, v, result):
            return (fdata(f) == old(fdata(f)) + lay(v), len(lay(v)) == k)
        raises = [(_struct.error, _out_of_range, True)]
    S.__name__ = "stream_" + code

    class P:
        props = ["C16"]
        sig = dict(f=RFile())
        assigns = ["f"]
        returns = Int()
        func = staticmethod(lambda: parse_f)

        def _short(f):
            return len(fdata(f)) - fpos(f) < k

        def ensures_value(f, result):
            d = old(fdata(f))[old(fpos(f)):old(fpos(f)) + k]
            return (fpos(f) == old(fpos(f)) + k, result == unlay(d), 0 <= result, result < 256 ** k, lay(result) == d)
        raises = [(_struct.error, _short, True)]
    P.__name__ = "parse_" + code
    contract("pycoin.message:field[%s].stream" % code)(S)
    contract("pycoin.message:field[%s].parse" % code)(P)


_int_codec('L', 4, '<')
_int_codec('Q', 8, '<')
_int_codec('h', 2, '>')
_int_codec('1', 1, '<')


def _blob_codec(code, n):
    parse_f, stream_f = FUNCS[code]

    class S:
        props = ["C16"]
        sig = dict(f=WFile(), v=Bytes(sample_max=n + 3, interesting=[bytes(n), bytes(n + 1), bytes(n - 1)]))
        assigns = ["f"]
        func = staticmethod(lambda: stream_f)

        def ensures_layout(f, v, result):
            return (fdata(f) == old(fdata(f)) + v[:n], implies(len(v) == n, fdata(f) == old(fdata(f)) + v))
    S.__name__ = "stream_blob%d" % n

    class P:
        props = ["C16"]
        sig = dict(f=RFile())
        assigns = ["f"]
        returns = Bytes()
        func = staticmethod(lambda: parse_f)

        def ensures_value(f, result):
            rest = len(old(fdata(f))) - old(fpos(f))
            took = n if rest >= n else rest
            return (result == old(fdata(f))[old(fpos(f)):old(fpos(f)) + took], fpos(f) == old(fpos(f)) + took)
    P.__name__ = "parse_blob%d" % n
    contract("pycoin.message:field[%s].stream" % code)(S)
    contract("pycoin.message:field[%s].parse" % code)(P)


_blob_codec('#', 32)
_blob_codec('@', 16)


# ---------------------------------------------------------------- bool, optional bool, 48-bit short id
@contract("pycoin.message:field[b].stream")
class stream_bool:
    props = ["C16"]
    sig = dict(f=WFile(), b=Bool())
    assigns = ["f"]
    func = staticmethod(lambda: FUNCS['b'][1])

    def ensures_layout(f, b, result):
        return fdata(f) == old(fdata(f)) + (b"\x01" if b else b"\x00")


@contract("pycoin.message:field[b].parse")
class parse_bool:
    props = ["C16"]
    sig = dict(f=RFile())
    assigns = ["f"]
    returns = Bool()
    func = staticmethod(lambda: FUNCS['b'][0])

    def _short(f):
        return len(fdata(f)) - fpos(f) < 1

    def ensures_value(f, result):
        return (fpos(f) == old(fpos(f)) + 1, result == (old(fdata(f))[old(fpos(f))] != 0))
    raises = [(_struct.error, _short, True)]


@contract("pycoin.message:field[O].stream")
class stream_optbool:
    props = ["C16"]
    sig = dict(f=WFile(), v=Opt(Bool()))
    assigns = ["f"]
    func = staticmethod(lambda: FUNCS['O'][1])

    def ensures_layout(f, v, result):
        return fdata(f) == old(fdata(f)) + (b"" if v is None else (b"\x01" if v else b"\x00"))


@contract("pycoin.message:field[O].parse")
class parse_optbool:
    props = ["C16"]
    sig = dict(f=RFile())
    assigns = ["f"]
    returns = Opt(Bool())
    func = staticmethod(lambda: FUNCS['O'][0])

    def ensures_value(f, result):
        if len(old(fdata(f))) - old(fpos(f)) < 1:
            return (result is None, fpos(f) == old(fpos(f)))
        return (fpos(f) == old(fpos(f)) + 1, result is not None, result == (old(fdata(f))[old(fpos(f))] != 0))


def lay6(v):
    """48-bit little-endian: the low four bytes, then the high two"""
    return le(v % 2 ** 32, 4) + le(v // 2 ** 32, 2)


@contract("pycoin.message:field[6].stream")
class stream_int6:
    props = ["C16"]
    sig = dict(f=WFile(), v=Int(interesting=[0, 1, 2 ** 32 - 1, 2 ** 32, 2 ** 48 - 1, 2 ** 48, -1]))
    assigns = ["f"]
    func = staticmethod(lambda: FUNCS['6'][1])

    def _out_of_range(f, v):
        return v < 0 or v >= 2 ** 48

    def ensures_layout(f, v, result):
        return (fdata(f) == old(fdata(f)) + lay6(v), len(lay6(v)) == 6)
    raises = [(_struct.error, _out_of_range, True)]


@contract("pycoin.message:field[6].parse")
class parse_int6:
    props = ["C16"]
    sig = dict(f=RFile())
    assigns = ["f"]
    returns = Int()
    func = staticmethod(lambda: FUNCS['6'][0])

    def _short(f):
        return len(fdata(f)) - fpos(f) < 6

    def ensures_value(f, result):
        d = old(fdata(f))[old(fpos(f)):old(fpos(f)) + 6]
        return (fpos(f) == old(fpos(f)) + 6, 0 <= result, result < 2 ** 48, lay6(result) == d)
    raises = [(_struct.error, _short, True)]


# ---------------------------------------------------------------- PeerAddress
def _mk_addr(v):
    return PeerAddress(v['services'], v['ip_bin'], v['port'])


ADDR = Obj(PeerAddress, dict(services=Int(0, 2 ** 64 - 1), ip_bin=Bytes(n=16), port=Int(0, 65535)), make=_mk_addr)


def addr_bytes(a):
    """services (8 bytes LE), 16-byte address, port in network byte order"""
    return le(a.services, 8) + a.ip_bin + be(a.port, 2)


@contract("pycoin.message.PeerAddress:PeerAddress.stream")
class addr_stream:
    props = ["C16"]
    sig = dict(self=ADDR, f=WFile())
    assigns = ["f"]

    def ensures_layout(self, f, result):
        return (fdata(f) == old(fdata(f)) + addr_bytes(self), len(addr_bytes(self)) == 26)

    canaries = [("struct.pack('!H', self.port)", "struct.pack('<H', self.port)")]


@contract("pycoin.message.PeerAddress:PeerAddress.parse")
class addr_parse:
    props = ["C16"]
    sig = dict(cls=Const(PeerAddress), f=RFile())
    assigns = ["f"]
    returns = ADDR

    def requires(cls, f):
        return len(fdata(f)) - fpos(f) >= 26

    def ensures_fields(cls, f, result):
        d = old(fdata(f))[old(fpos(f)):old(fpos(f)) + 26]
        return (fpos(f) == old(fpos(f)) + 26, fdata(f) == old(fdata(f)), d == addr_bytes(result))


# ---------------------------------------------------------------- InvItem
from pycoin.message.InvItem import InvItem


def _mk_inv(v):
    return InvItem(v['item_type'], v['data'], dont_check=True)


INV = Obj(InvItem, dict(item_type=Int(0, 2 ** 32 - 1, interesting=[1, 2, 3, 4, 2 ** 30 + 1, 2 ** 32 - 1]), data=Bytes(n=32)), make=_mk_inv)


def inv_bytes(a):
    """type (4 bytes LE, all 32 bits significant: MSG_WITNESS_* set bit 30), 32-byte hash"""
    return le(a.item_type, 4) + a.data


@contract("pycoin.message.InvItem:InvItem.stream")
class inv_stream:
    props = ["C16"]
    sig = dict(self=INV, f=WFile())
    assigns = ["f"]

    def ensures_layout(self, f, result):
        return (fdata(f) == old(fdata(f)) + inv_bytes(self), len(inv_bytes(self)) == 36)


@contract("pycoin.message.InvItem:InvItem.parse")
class inv_parse:
    props = ["C16"]
    sig = dict(cls=Const(InvItem), f=RFile())
    assigns = ["f"]
    returns = INV

    def requires(cls, f):
        return len(fdata(f)) - fpos(f) >= 36

    def ensures_fields(cls, f, result):
        d = old(fdata(f))[old(fpos(f)):old(fpos(f)) + 36]
        return (fpos(f) == old(fpos(f)) + 36, fdata(f) == old(fdata(f)), d == inv_bytes(result))


# ---------------------------------------------------------------- whole messages without arrays, through the real closures
# make_parser_and_packer builds pack_from_data / parse_from_data as closures over the message table; the wrappers below only
# fix the message name and spell out the keyword arguments (the engine then runs the closures' own code: format-string split,
# Streamer.stream_struct / parse_struct / parse_as_dict and the field functions above).
from pycoin.message.make_parser_and_packer import (make_parser_and_packer, standard_messages, standard_message_post_unpacks,
                                                   standard_streamer)
from spec.core import compact_size, varstr
import contracts.c07_prims  # noqa: F401  (contracts of the compact-size and var-string codecs used by the S and I fields)

_STREAMER = standard_streamer(standard_parsing_functions(Block, Tx))
_PARSE, _PACK = make_parser_and_packer(_STREAMER, standard_messages(), standard_message_post_unpacks(_STREAMER))
U64 = Int(0, 2 ** 64 - 1, interesting=[0, 1, 2 ** 32, 2 ** 64 - 1])
U32m = Int(0, 2 ** 32 - 1, interesting=[0, 1, 70015, 2 ** 32 - 1])


def pack_ping(nonce):
    return _PACK("ping", nonce=nonce)


def parse_ping(data):
    return _PARSE("ping", data)


def pack_sendcmpct(enabled, version):
    return _PACK("sendcmpct", enabled=enabled, version=version)


def parse_sendcmpct(data):
    return _PARSE("sendcmpct", data)


def pack_version(version, services, timestamp, remote_address, local_address, nonce, subversion, last_block_index, relay):
    return _PACK("version", version=version, services=services, timestamp=timestamp, remote_address=remote_address,
                 local_address=local_address, nonce=nonce, subversion=subversion, last_block_index=last_block_index, relay=relay)


def pack_reject(message, code, reason, data):
    return _PACK("reject", message=message, code=code, reason=reason, data=data)


@contract("contracts.c16_msg:pack_ping")
class c_pack_ping:
    """ping / pong / feefilter share the struct 'x:Q'"""
    props = ["C16"]
    sig = dict(nonce=U64)
    returns = Bytes()

    def ensures_wire(nonce, result):
        return (result == le(nonce, 8), len(result) == 8)


@contract("contracts.c16_msg:parse_ping")
class c_parse_ping:
    props = ["C16"]
    sig = dict(data=Bytes(sample_max=10, interesting=[bytes(8), bytes(9)]))

    def requires(data):
        return len(data) >= 8

    def ensures_fields(data, result):
        return (result["nonce"] == le_int(data[:8], 8), le(result["nonce"], 8) == data[:8])


@contract("contracts.c16_msg:pack_sendcmpct")
class c_pack_sendcmpct:
    props = ["C16"]
    sig = dict(enabled=Bool(), version=U64)
    returns = Bytes()

    def ensures_wire(enabled, version, result):
        return result == (b"\x01" if enabled else b"\x00") + le(version, 8)


@contract("contracts.c16_msg:parse_sendcmpct")
class c_parse_sendcmpct:
    props = ["C16"]
    sig = dict(data=Bytes(sample_max=12, interesting=[bytes(9)]))

    def requires(data):
        return len(data) >= 9

    def ensures_fields(data, result):
        return (result["enabled"] == (data[0] != 0), le(result["version"], 8) == data[1:9])


@contract("contracts.c16_msg:pack_version")
class c_pack_version:
    props = ["C16"]
    sig = dict(version=U32m, services=U64, timestamp=U64, remote_address=ADDR, local_address=ADDR, nonce=U64,
               subversion=Bytes(sample_max=20), last_block_index=U32m, relay=Opt(Bool()))
    returns = Bytes()

    def requires(version, services, timestamp, remote_address, local_address, nonce, subversion, last_block_index, relay):
        return len(subversion) < 2 ** 32

    def ensures_wire(version, services, timestamp, remote_address, local_address, nonce, subversion, last_block_index, relay, result):
        return result == (le(version, 4) + le(services, 8) + le(timestamp, 8) + addr_bytes(remote_address) + addr_bytes(local_address)
                          + le(nonce, 8) + varstr(subversion) + le(last_block_index, 4)
                          + (b"" if relay is None else (b"\x01" if relay else b"\x00")))


def parse_version(data):
    return _PARSE("version", data)


@contract("contracts.c16_msg:parse_version")
class c_parse_version:
    """parsing a version message gives back fields whose packing is the consumed prefix of the data"""
    props = ["C16"]
    tier = 'thorough'        # two minutes of solver time on slices at symbolic offsets
    sig = dict(data=Bytes(sample_max=120))

    def requires(data):
        # fixed part (4+8+8+26+26+8 = 80 bytes), a well-formed var-string, the 4-byte block index behind it
        return (len(data) >= 81 and cs_ok(data, 80) and cs_value(data, 80) < 2 ** 32
                and len(data) >= 80 + cs_len(data[80]) + cs_value(data, 80) + 4)

    def ensures_fields(data, result):
        n = cs_value(data, 80)
        s0 = 80 + cs_len(data[80])
        end = s0 + n + 4
        return (le(result["version"], 4) == data[0:4], le(result["services"], 8) == data[4:12], le(result["timestamp"], 8) == data[12:20],
                addr_bytes(result["remote_address"]) == data[20:46], addr_bytes(result["local_address"]) == data[46:72],
                le(result["nonce"], 8) == data[72:80], result["subversion"] == data[s0:s0 + n],
                le(result["last_block_index"], 4) == data[s0 + n:end],
                (result["relay"] is None) == (len(data) == end))


# ---------------------------------------------------------------- pack then parse, per field code
import io as _io


def _roundtrip(code):
    parse_f, stream_f = FUNCS[code]

    def rt(v):
        f = _io.BytesIO()
        stream_f(f, v)
        return parse_f(_io.BytesIO(f.getvalue()))
    rt.__name__ = "roundtrip_" + {'#': 'hash32', '@': 'addr16'}.get(code, code)
    return rt


roundtrip_L, roundtrip_Q, roundtrip_h, roundtrip_1 = _roundtrip('L'), _roundtrip('Q'), _roundtrip('h'), _roundtrip('1')
roundtrip_6, roundtrip_b, roundtrip_O = _roundtrip('6'), _roundtrip('b'), _roundtrip('O')
roundtrip_hash32, roundtrip_addr16 = _roundtrip('#'), _roundtrip('@')


def _rt_contract(fn, builder, pre=None):
    class C:
        props = ["C16"]
        sig = dict(v=builder)

        def ensures_same(v, result):
            return result == v
    if pre is not None:
        C.requires = staticmethod(pre)
    C.__name__ = "c_" + fn.__name__
    C.func = staticmethod(lambda: fn)
    contract("contracts.c16_msg:" + fn.__name__)(C)


_rt_contract(roundtrip_L, Int(0, 2 ** 32 - 1))
_rt_contract(roundtrip_Q, Int(0, 2 ** 64 - 1))
_rt_contract(roundtrip_h, Int(0, 2 ** 16 - 1))
_rt_contract(roundtrip_1, Int(0, 255))
_rt_contract(roundtrip_6, Int(0, 2 ** 48 - 1))
_rt_contract(roundtrip_b, Bool())
_rt_contract(roundtrip_O, Opt(Bool()))
_rt_contract(roundtrip_hash32, Bytes(n=32))
_rt_contract(roundtrip_addr16, Bytes(n=16))


def roundtrip_peer_address(services, ip_bin, port):
    f = _io.BytesIO()
    PeerAddress(services, ip_bin, port).stream(f)
    return PeerAddress.parse(_io.BytesIO(f.getvalue()))


def roundtrip_inv_item(item_type, data):
    f = _io.BytesIO()
    InvItem(item_type, data, dont_check=True).stream(f)
    return InvItem.parse(_io.BytesIO(f.getvalue()))


@contract("contracts.c16_msg:roundtrip_peer_address")
class c_roundtrip_peer_address:
    props = ["C16"]
    sig = dict(services=U64, ip_bin=Bytes(n=16), port=Int(0, 65535))

    def ensures_same(services, ip_bin, port, result):
        return (result.services == services, result.ip_bin == ip_bin, result.port == port)


@contract("contracts.c16_msg:roundtrip_inv_item")
class c_roundtrip_inv_item:
    props = ["C16"]
    sig = dict(item_type=Int(0, 2 ** 32 - 1), data=Bytes(n=32))

    def ensures_same(item_type, data, result):
        return (result.item_type == item_type, result.data == data)


# ---------------------------------------------------------------- a few more whole messages
def pack_pong(nonce):
    return _PACK("pong", nonce=nonce)


def pack_feefilter(fee_filter_value):
    return _PACK("feefilter", fee_filter_value=fee_filter_value)


def pack_reject(message, code, reason, data):
    return _PACK("reject", message=message, code=code, reason=reason, data=data)


def pack_empty(which):
    return _PACK(which)


@contract("contracts.c16_msg:pack_pong")
class c_pack_pong:
    props = ["C16"]
    sig = dict(nonce=U64)
    returns = Bytes()

    def ensures_wire(nonce, result):
        return result == le(nonce, 8)


@contract("contracts.c16_msg:pack_feefilter")
class c_pack_feefilter:
    props = ["C16"]
    sig = dict(fee_filter_value=U64)
    returns = Bytes()

    def ensures_wire(fee_filter_value, result):
        return result == le(fee_filter_value, 8)


@contract("contracts.c16_msg:pack_reject")
class c_pack_reject:
    """reject: var-string message, one-byte code, var-string reason, 32-byte hash"""
    props = ["C16"]
    sig = dict(message=Bytes(sample_max=12), code=Int(0, 255), reason=Bytes(sample_max=40), data=Bytes(n=32))
    returns = Bytes()

    def requires(message, code, reason, data):
        return len(message) < 2 ** 32 and len(reason) < 2 ** 32

    def ensures_wire(message, code, reason, data, result):
        return result == varstr(message) + bytes([code]) + varstr(reason) + data


def _empty_contract(which):
    class C:
        props = ["C16"]
        sig = dict(which=Const(which))
        returns = Bytes()
        func = staticmethod(lambda: pack_empty)

        def ensures_empty(which, result):
            return result == b""
    C.__name__ = "c_pack_" + which
    contract("contracts.c16_msg:pack_empty[%s]" % which)(C)


for _w in ("verack", "getaddr", "mempool", "sendheaders", "filterclear", "sendaddrv2"):
    _empty_contract(_w)
