"""C07: TxIn / TxOut / Tx serialisation against the wire-format specification."""
from pyvc.api import *
from spec.core import *
from spec.wire import *
from pycoin.coins.bitcoin.Tx import Tx
from pycoin.coins.bitcoin.TxIn import TxIn
from pycoin.coins.bitcoin.TxOut import TxOut


def mk_txin(v):
    t = TxIn(v['previous_hash'], v['previous_index'], v['script'], v['sequence'])
    t.witness = list(v['witness'])
    return t


def mk_txout(v):
    return TxOut(v['coin_value'], v['script'])


TXIN = Rec(TxInT, dict(previous_hash=Bytes(n=32), previous_index=Int(0, 2 ** 32 - 1), script=Bytes(sample_max=300, interesting=[bytes(252), bytes(253), bytes(255), bytes(256)]),
                       sequence=Int(0, 2 ** 32 - 1), witness=SeqOf(Bytes(sample_max=12), sample_max=3)), make=mk_txin)
TXOUT = Rec(TxOutT, dict(coin_value=Int(0, 2 ** 64 - 1), script=Bytes(sample_max=300, interesting=[bytes(252), bytes(253)])), make=mk_txout)


@contract("pycoin.coins.bitcoin.TxIn:TxIn.stream")
class txin_stream:
    props = ["C07", "C04"]
    sig = dict(self=TXIN, f=WFile(), blank_solutions=Bool())
    assigns = ["f"]
    options = {'reveal': ['ser_txin']}

    def requires(self, f, blank_solutions):
        return wf_txin(self)

    def ensures_wire(self, f, blank_solutions, result):
        return fdata(f) == old(fdata(f)) + ser_txin(self, blank_solutions)

    canaries = [("b'' if blank_solutions else self.script", "self.script"), ("self.previous_index, script, self.sequence", "self.sequence, script, self.previous_index")]


@contract("pycoin.coins.bitcoin.TxOut:TxOut.stream")
class txout_stream:
    props = ["C07", "C04"]
    sig = dict(self=TXOUT, f=WFile())
    assigns = ["f"]
    options = {'reveal': ['ser_txout']}

    def requires(self, f):
        return wf_txout(self)

    def ensures_wire(self, f, result):
        return fdata(f) == old(fdata(f)) + ser_txout(self)


def mk_tx(v):
    return Tx(v['version'], list(v['txs_in']), list(v['txs_out']), v['lock_time'])


TX = Obj(Tx, dict(version=Int(0, 2 ** 32 - 1), txs_in=SeqOf(TXIN, sample_max=3), txs_out=SeqOf(TXOUT, sample_max=3), lock_time=Int(0, 2 ** 32 - 1),
                  unspents=Const(())), make=mk_tx)


@lemma(sig=dict(xs=SeqOf(TXIN), n=Int(), i=Int()), requires=lambda xs, n, i: all_wf_txin_upto(xs, n) and 0 <= i and i < n, induct=lambda xs, n, i: n, props=["C07", "C04", "C20"])
def all_wf_txin_at(xs, n, i):
    if i < n - 1:
        all_wf_txin_at(xs, n - 1, i)
    return wf_txin(xs[i])


@lemma(sig=dict(xs=SeqOf(TXOUT), n=Int(), i=Int()), requires=lambda xs, n, i: all_wf_txout_upto(xs, n) and 0 <= i and i < n, induct=lambda xs, n, i: n, props=["C07", "C04", "C20"])
def all_wf_txout_at(xs, n, i):
    if i < n - 1:
        all_wf_txout_at(xs, n - 1, i)
    return wf_txout(xs[i])


@contract("pycoin.coins.bitcoin.Tx:Tx.has_witness_data")
class tx_has_witness_data:
    props = ["C07"]
    sig = dict(self=TX)
    returns = Bool()

    def ensures_any(self, result):
        return result == any_witness(self.txs_in)

    canaries = [("len(tx_in.witness) > 0", "len(tx_in.witness) > 1")]


@lemma(sig=dict(xs=SeqOf(TXIN), n=Int(), i=Int()), induct=lambda xs, n, i: n, props=["C07"])
def any_witness_mono(xs, n, i):
    """a witness among the first i inputs is a witness among the first n >= i"""
    if 0 <= i and i < n:
        any_witness_mono(xs, n - 1, i)
    return implies(0 <= i and i <= n and any_witness_upto(xs, i), any_witness_upto(xs, n))


@invariant("pycoin.coins.bitcoin.Tx:Tx.has_witness_data", "comp0")
def _inv_has_witness(self, _r, _i):
    n = len(self.txs_in)
    if _i < n:
        any_witness_mono(self.txs_in, n, _i + 1)
    return (_r == False, not any_witness_upto(self.txs_in, _i))


def _tx_head(self, include_witnesses):
    return le(self.version, 4) + (b"\x00\x01" if include_witnesses else b"")


@contract("pycoin.coins.bitcoin.Tx:Tx.stream")
class tx_stream:
    props = ["C07"]
    sig = dict(self=TX, f=WFile(), blank_solutions=Bool(), include_unspents=Const(False), include_witness_data=Bool())
    assigns = ["f"]
    options = {'reveal': ['ser_witness']}

    def requires(self, f, blank_solutions, include_unspents, include_witness_data):
        return (0 <= self.version and self.version < 2 ** 32 and 0 <= self.lock_time and self.lock_time < 2 ** 32
                and all_wf_txin(self.txs_in) and all_wf_txout(self.txs_out))

    def ensures_wire(self, f, blank_solutions, include_unspents, include_witness_data, result):
        return fdata(f) == old(fdata(f)) + ser_tx(self.version, self.txs_in, self.txs_out, self.lock_time, blank_solutions,
                                                  include_witness_data and any_witness(self.txs_in))

    canaries = [("f.write(b'\\x00\\x01')", "f.write(b'\\x00\\x00')"), ("stream_struct('I', f, len(self.txs_out))", "stream_struct('I', f, len(self.txs_in))")]


T_STREAM = "pycoin.coins.bitcoin.Tx:Tx.stream"


@invariant(T_STREAM, 0, modifies=['f'])
def _inv_ins(self, f, blank_solutions, include_witnesses, _i):
    if _i < len(self.txs_in):
        all_wf_txin_at(self.txs_in, len(self.txs_in), _i)
    return fdata(f) == old(fdata(f)) + _tx_head(self, include_witnesses) + compact_size(len(self.txs_in)) + ser_txins_upto(self.txs_in, _i, blank_solutions)


@invariant(T_STREAM, 1, modifies=['f'])
def _inv_outs(self, f, blank_solutions, include_witnesses, _i):
    if _i < len(self.txs_out):
        all_wf_txout_at(self.txs_out, len(self.txs_out), _i)
    return fdata(f) == (old(fdata(f)) + _tx_head(self, include_witnesses) + compact_size(len(self.txs_in)) + ser_txins(self.txs_in, blank_solutions)
                        + compact_size(len(self.txs_out)) + ser_txouts_upto(self.txs_out, _i))


def _tx_body(self, blank_solutions, include_witnesses):
    return (_tx_head(self, include_witnesses) + compact_size(len(self.txs_in)) + ser_txins(self.txs_in, blank_solutions)
            + compact_size(len(self.txs_out)) + ser_txouts(self.txs_out))


@invariant(T_STREAM, 2, modifies=['f'])
def _inv_wits(self, f, blank_solutions, include_witnesses, _i):
    return fdata(f) == old(fdata(f)) + _tx_body(self, blank_solutions, include_witnesses) + ser_witnesses_upto(self.txs_in, _i)


@invariant(T_STREAM, 3, modifies=['f'])
def _inv_wit_items(self, f, blank_solutions, include_witnesses, witness, _i2, _i):
    return fdata(f) == (old(fdata(f)) + _tx_body(self, blank_solutions, include_witnesses) + ser_witnesses_upto(self.txs_in, _i2)
                        + compact_size(len(witness)) + ser_items_upto(witness, _i))


# ---------------------------------------------------------------- parsing one input / output (inverse of stream)
@contract("pycoin.coins.bitcoin.TxIn:TxIn.parse")
class txin_parse:
    """field by field, the parsed input is what the consumed bytes say (with TxIn.stream's contract: its serialisation is
    those bytes again whenever the script's length prefix is the canonical one; the parser also accepts over-long prefixes)"""

    def samples(rng):
        import io
        t = TXIN.sample(rng)
        junk = bytes(rng.randrange(256) for _ in range(rng.randrange(0, 4)))
        f = io.BytesIO()
        f.write(junk)
        t.stream(f)
        f.write(bytes(rng.randrange(256) for _ in range(rng.randrange(0, 3))))
        f.seek(len(junk))
        return {'cls': TxIn, 'f': f}

    props = ["C07"]
    sig = dict(cls=Const(TxIn), f=RFile())
    assigns = ["f"]
    returns = TXIN
    options = {'reveal': ['ser_txin', 'varstr', 'compact_size']}

    def requires(cls, f):
        d, p = fdata(f), fpos(f)
        return (len(d) >= p + 37 and cs_ok(d, p + 36) and cs_value(d, p + 36) < 2 ** 32
                and len(d) >= p + 36 + cs_len(d[p + 36]) + cs_value(d, p + 36) + 4)

    def ensures_inverse(cls, f, result):
        d, p = old(fdata(f)), old(fpos(f))
        k = cs_len(d[p + 36])
        m = cs_value(d, p + 36)
        n = 36 + k + m + 4
        return (fpos(f) == p + n, fdata(f) == d, wf_txin(result), len(result.witness) == 0,
                result.previous_hash == d[p:p + 32], le(result.previous_index, 4) == d[p + 32:p + 36],
                result.script == d[p + 36 + k:p + 36 + k + m], le(result.sequence, 4) == d[p + 36 + k + m:p + n])


@contract("pycoin.coins.bitcoin.TxOut:TxOut.parse")
class txout_parse:
    props = ["C07"]
    sig = dict(cls=Const(TxOut), f=RFile())
    assigns = ["f"]
    returns = TXOUT
    options = {'reveal': ['ser_txout', 'varstr', 'compact_size']}

    def requires(cls, f):
        d, p = fdata(f), fpos(f)
        return (len(d) >= p + 9 and cs_ok(d, p + 8) and cs_value(d, p + 8) < 2 ** 32
                and len(d) >= p + 8 + cs_len(d[p + 8]) + cs_value(d, p + 8))

    def ensures_inverse(cls, f, result):
        d, p = old(fdata(f)), old(fpos(f))
        k = cs_len(d[p + 8])
        m = cs_value(d, p + 8)
        n = 8 + k + m
        return (fpos(f) == p + n, fdata(f) == d, wf_txout(result), le(result.coin_value, 8) == d[p:p + 8],
                result.script == d[p + 8 + k:p + n])


# construction of TxIn / TxOut inside verified code yields a record value (the engine's representation of the elements of
# symbolic transaction inputs/outputs): the constructors only store their arguments (TxIn also sets an empty witness)
def _construct_txin(ip, args, kw):
    names = ['previous_hash', 'previous_index', 'script', 'sequence']
    vals = dict(zip(names, args))
    vals.update(kw)
    vals.setdefault('script', b"")
    vals.setdefault('sequence', 4294967295)
    vals['witness'] = ()
    return TxInT.make(**vals)


def _construct_txout(ip, args, kw):
    vals = dict(zip(['coin_value', 'script'], args))
    vals.update(kw)
    return TxOutT.make(**vals)


REG.rec_construct[TxIn] = _construct_txin
REG.rec_construct[TxOut] = _construct_txout


# ---------------------------------------------------------------- parse(stream(x)) == x for one output / input
import io as _io
from contracts.c07_prims import cs_roundtrip


def roundtrip_txout(coin_value, script):
    f = _io.BytesIO()
    TxOut(coin_value, script).stream(f)
    return TxOut.parse(_io.BytesIO(f.getvalue()))


def roundtrip_txin(previous_hash, previous_index, script, sequence):
    f = _io.BytesIO()
    TxIn(previous_hash, previous_index, script, sequence).stream(f)
    return TxIn.parse(_io.BytesIO(f.getvalue()))


@contract("contracts.c07_tx:roundtrip_txout")
class c_roundtrip_txout:
    """through the contracts of TxOut.stream and TxOut.parse and the compact-size round-trip lemma"""
    props = ["C07"]
    sig = dict(coin_value=Int(0, 2 ** 64 - 1), script=Bytes(sample_max=80, interesting=[b"", bytes(252), bytes(253)]))
    options = {'reveal': ['ser_txout', 'varstr']}

    def requires(coin_value, script):
        return len(script) < 2 ** 32

    def hints(coin_value, script):
        cs_roundtrip(len(script), le(coin_value, 8), script)

    def ensures_same(coin_value, script, result):
        return (result.coin_value == coin_value, result.script == script)


@contract("contracts.c07_tx:roundtrip_txin")
class c_roundtrip_txin:
    props = ["C07"]
    tier = 'thorough'       # over a minute of solver time (slices at symbolic offsets)
    sig = dict(previous_hash=Bytes(n=32), previous_index=Int(0, 2 ** 32 - 1), script=Bytes(sample_max=80, interesting=[b"", bytes(252), bytes(253)]),
               sequence=Int(0, 2 ** 32 - 1))
    options = {'reveal': ['ser_txin', 'varstr']}

    def requires(previous_hash, previous_index, script, sequence):
        return len(script) < 2 ** 32

    def hints(previous_hash, previous_index, script, sequence):
        cs_roundtrip(len(script), previous_hash + le(previous_index, 4), script + le(sequence, 4))

    def ensures_same(previous_hash, previous_index, script, sequence, result):
        return (result.previous_hash == previous_hash, result.previous_index == previous_index, result.script == script,
                result.sequence == sequence, len(result.witness) == 0)


# ---------------------------------------------------------------- transaction hashes (over Tx.stream's contract)
from spec.sighash import dsha256


def _tx_wf(self):
    return (0 <= self.version and self.version < 2 ** 32 and 0 <= self.lock_time and self.lock_time < 2 ** 32
            and all_wf_txin(self.txs_in) and all_wf_txout(self.txs_out))


@contract("pycoin.coins.bitcoin.Tx:Tx.hash")
class tx_hash:
    """txid: double SHA-256 of the serialisation WITHOUT witness data (followed by the 4-byte hash type when one is given)"""
    props = ["C07"]
    sig = dict(self=TX, hash_type=Opt(Int(0, 2 ** 32 - 1)))
    returns = Bytes()

    def requires(self, hash_type):
        return _tx_wf(self)

    def ensures_txid(self, hash_type, result):
        body = ser_tx(self.version, self.txs_in, self.txs_out, self.lock_time, False, False)
        return result == dsha256(body if hash_type is None else body + le(hash_type, 4))

    canaries = [("self.stream(s, include_witness_data=False)", "self.stream(s, include_witness_data=True)")]


@contract("pycoin.coins.bitcoin.Tx:Tx.w_hash")
class tx_w_hash:
    """wtxid: double SHA-256 of the full serialisation (BIP144 form exactly when some input has witness data)"""
    props = ["C07"]
    sig = dict(self=TX)
    returns = Bytes()

    def requires(self):
        return _tx_wf(self)

    def ensures_wtxid(self, result):
        return result == dsha256(ser_tx(self.version, self.txs_in, self.txs_out, self.lock_time, False, any_witness(self.txs_in)))


@contract("pycoin.coins.bitcoin.Tx:Tx.blanked_hash")
class tx_blanked_hash:
    props = ["C07"]
    sig = dict(self=TX)
    returns = Bytes()

    def requires(self):
        return _tx_wf(self)

    def ensures_blanked(self, result):
        return result == dsha256(ser_tx(self.version, self.txs_in, self.txs_out, self.lock_time, True, any_witness(self.txs_in)))
