"""C19: the Bloom-filter hash is MurmurHash3 x86_32.

`murmur3` keeps its running values as unbounded Python integers and truncates only before right shifts and at the end;
the contract states that the result is nevertheless the 32-bit algorithm of spec/murmur.py (every word operation
reduced modulo 2**32) for every byte string shorter than 2**32 and every non-negative seed of any width.  The loop
invariant is `h1 mod 2**32 == mm_blocks(data, blocks done, seed)`; the cuts are sidecar assertions (each proved, then
assumed) that carry `value mod 2**32 == the specification's word` from one statement to the next, so that every
obligation is one congruence step.  Bit operations: `&` with literal masks is div/mod arithmetic; `x | y` is replaced by
x + y only where the verifier proves the operands' bits disjoint (lean/BitOps.lean: or_disjoint_law); `^` is
uninterpreted with the laws xor_mod32 / xor_word (same Lean file)."""
from pyvc.api import *
from spec.core import *
from spec.murmur import *


def _blk(data, seed, i):
    """ghost: the facts about the specification needed while block i // 4 is processed"""
    mm_step(data, i // 4, seed)
    mm_is_word(data, i // 4, seed)
    return True


def _cut_word(data, i, k1):
    return (k1 >= 0, k1 == mm_word(data, i // 4))


def _cut_k_loop(data, seed, i, k1):
    return (k1 >= 0, k1 % 4294967296 == mm_scramble(mm_word(data, i // 4)))


def _cut_h_loop(data, seed, i, h1):
    _blk(data, seed, i)
    return (h1 >= 0, h1 % 4294967296 == bit_xor(mm_blocks(data, i // 4, seed), mm_scramble(mm_word(data, i // 4))))


def _cut_rot_loop(data, seed, i, h1):
    return (h1 >= 0, h1 % 4294967296 == rotl32(bit_xor(mm_blocks(data, i // 4, seed), mm_scramble(mm_word(data, i // 4))), 13))


def _cut_rounded(data, roundedEnd):
    return roundedEnd == 4 * (len(data) // 4)


def _cut_after_blocks(data, seed, h1):
    return (h1 >= 0, h1 % 4294967296 == mm_blocks(data, len(data) // 4, seed))


def _cut_w_tail(data, k1):
    return (k1 >= 0, k1 == mm_tail_word(data, 4 * (len(data) // 4), len(data) % 4))


def _cut_k_tail(data, k1):
    return (k1 >= 0, k1 % 4294967296 == mm_scramble(mm_tail_word(data, 4 * (len(data) // 4), len(data) % 4)))


def _cut_h_tail(data, seed, h1):
    mm_is_word(data, len(data) // 4, seed)
    return (h1 >= 0, h1 % 4294967296 == mm_body(data, seed))


def _cut_len(data, seed, h1):
    mm_is_word(data, len(data) // 4, seed)
    return (h1 >= 0, h1 % 4294967296 == bit_xor(mm_body(data, seed), len(data)))


def _cut_a(data, seed, h1):
    return (h1 >= 0, h1 % 4294967296 == fmix_a(bit_xor(mm_body(data, seed), len(data))))


def _cut_b(data, seed, h1):
    return (h1 >= 0, h1 % 4294967296 == fmix_b(bit_xor(mm_body(data, seed), len(data))))


def _cut_c(data, seed, h1):
    return (h1 >= 0, h1 % 4294967296 == fmix_c(bit_xor(mm_body(data, seed), len(data))))


def _cut_d(data, seed, h1):
    return (h1 >= 0, h1 % 4294967296 == fmix_d(bit_xor(mm_body(data, seed), len(data))))


@contract("pycoin.bloomfilter:murmur3")
class murmur3:
    props = ["C19"]
    sig = dict(data=Bytes(), seed=Int(0))
    returns = Int()

    options = {'pc_aware': True, 'reveal': ['mm_finish']}

    def requires(data, seed):
        return seed >= 0 and len(data) < 4294967296

    def ensures_murmur3_x86_32(data, seed, result):
        return result == murmur3_32(data, seed)

    cuts = [("k1 = data[i] & 255", _cut_word, 0, ["k1"]),
            ("k1 *= c2", _cut_k_loop, 0, ["k1"]),
            ("h1 ^= k1", _cut_h_loop, 0, ["h1"]),
            ("h1 = h1 << 13 | (h1 & 4294967295) >> 19", _cut_rot_loop, 0, ["h1"]),
            ("roundedEnd = length & 4294967292", _cut_rounded, 0, ["roundedEnd"]),
            ("k1 = 0", _cut_after_blocks, 0, ["h1"]),
            ("k1 |= data[roundedEnd] & 255", _cut_w_tail, 0, ["k1"]),
            ("k1 *= c2", _cut_k_tail, 1, ["k1"]),
            ("h1 ^= k1", _cut_h_tail, 1, ["h1"]),
            ("h1 ^= length", _cut_len, 0, ["h1"]),
            ("h1 ^= (h1 & 4294967295) >> 16", _cut_a, 0, ["h1"]),
            ("h1 *= 2246822507", _cut_b, 0, ["h1"]),
            ("h1 ^= (h1 & 4294967295) >> 13", _cut_c, 0, ["h1"]),
            ("h1 *= 3266489909", _cut_d, 0, ["h1"])]

    canaries = [("h1 = h1 * 5 + 3864292196", "h1 = h1 * 5 + 3864292197"),
                ("(k1 & 4294967295) >> 17", "(k1 & 4294967295) >> 16"),
                ("h1 ^= length", "h1 ^= 0"),
                ("if val in [2, 3]:", "if val in [3]:")]


@invariant("pycoin.bloomfilter:murmur3", 0)
def _mm_inv(data, seed, h1, _i):
    mm_zero(data, seed)
    return (h1 >= 0, h1 % 4294967296 == mm_blocks(data, _i, seed))
