"""C03: one step of the interpreter -- VM.eval_instruction, the real fetch/decode/limit/dispatch code -- against Core's
EvalScript loop body, one contract per opcode value (the dispatch table is concrete, so each is a full-domain symbolic
proof over every script, pc, stack, altstack, conditional state, flag set and op count with script[pc] == k).

The callee contracts used are ScriptStreamer.get_opcode (proved in c12_push) and the opcode's own handler contract
(proved in c03_handlers*): eval_instruction is checked against those contracts, not against the handler bodies.  What is
stated here, from Core's loop:
  * the step fails whenever: the push is truncated; pushed data exceeds 520 bytes; stack+altstack exceed 1000 items;
    a non-minimal push is *executed* under MINIMALDATA; an opcode above OP_16 would be the 202nd; a disabled opcode or
    OP_VERIF/OP_VERNOTIF appears (even in an unexecuted branch); or the opcode's own failure condition holds while it is run
  * it fails only then (for handlers whose contract states their failure condition exactly)
  * on success: pc moves past the instruction; op_count grows by one exactly for opcodes above OP_16; script, flags and
    tx_context are untouched; begin_code_hash changes only at an executed OP_CODESEPARATOR
  * pushes append their data exactly when executing; in an unexecuted branch nothing but IF/NOTIF/ELSE/ENDIF touches any state
  * when the handler runs, the handler contract's postconditions hold of the step (they speak about stack, altstack,
    conditional stack and flags, which the step does not touch before calling the handler)
"""
import inspect
from pyvc.api import *
from spec.core import *
from spec.scriptnum import *
from spec.script import *
from pycoin.vm.VM import VM as BaseVM
from pycoin.coins.bitcoin.VM import BitcoinVM
from pycoin.coins.SolutionChecker import ScriptError
from contracts.c03_handlers import VM, minimal_flag, OPCODE
import contracts.c03_handlers2 as _h2
import contracts.c12_push      # get_opcode's contract

LOOKUP = BitcoinVM.INSTRUCTION_LOOKUP
NAME_OF = _h2.NAME_OF

# Core: these fail the script wherever they appear, executed or not
DISABLED = [OPCODE[n] for n in ("OP_CAT OP_SUBSTR OP_LEFT OP_RIGHT OP_INVERT OP_AND OP_OR OP_XOR OP_2MUL OP_2DIV OP_MUL OP_DIV OP_MOD "
                                "OP_LSHIFT OP_RSHIFT").split()]
FAIL_UNEXECUTED = set(DISABLED) | {OPCODE["OP_VERIF"], OPCODE["OP_VERNOTIF"]}
CONDITIONALS = {OPCODE["OP_IF"], OPCODE["OP_NOTIF"], OPCODE["OP_ELSE"], OPCODE["OP_ENDIF"]}
OP_16 = OPCODE["OP_16"]
OP_CODESEPARATOR = OPCODE["OP_CODESEPARATOR"]


def executing(vm):
    return vm.conditional_stack.false_count == 0


def limits_fail(vm):
    """Core's per-step limit and decode failures that do not depend on which opcode handler runs"""
    script, pc = vm.script, vm.pc
    op = script[pc]
    if not decode_ok(script, pc):
        return True
    if len(listval(vm.stack)) + len(listval(vm.altstack)) > 1000:
        return True
    if op > 96 and vm.op_count + 1 > 201:
        return True
    if op_is_push_with_data(op):
        d = decode_data(script, pc)
        if len(d) > 520:
            return True
        if minimal_flag(vm) and executing(vm) and not check_minimal_push(d, op):
            return True
    return False


def _mentions_loop_state(fn):
    """handler contract functions that read pc or op_count cannot be lifted to the step (the step changes both before the call)"""
    src = inspect.getsource(fn)
    return ".pc" in src or ".op_count" in src


STEP_TARGETS = []
NOT_LIFTED = {}


def step_contract(k):
    f = LOOKUP[k]
    hc = REG.by_func.get(id(f))
    if hc is None:
        return None
    name = NAME_OF.get(k, "x%02x" % k)
    outside = bool(getattr(f, "outside_conditional", False))
    is_push = k <= OP_16 and k != OPCODE["OP_RESERVED"]          # get_opcode returns data for exactly these
    always_fails = k in FAIL_UNEXECUTED

    # the handler's exact failure condition, if its contract has one
    h_when = None
    h_exact = True
    for (e, w, iff) in hc.raises:
        if w is None or iff is not True or _mentions_loop_state(w):
            h_exact = False
        else:
            h_when = w
    if hc.requires is not None:
        h_exact = False

    h_assigns = [a_.rstrip('!') for a_ in hc.assigns]
    keeps_stack, keeps_alt, keeps_cond = ["vm." + n_ not in h_assigns for n_ in ("stack", "altstack", "conditional_stack")]

    def runs(vm):
        return True if outside else executing(vm)

    def must_fail(vm):
        if always_fails:
            return True
        if limits_fail(vm):
            return True
        if h_when is not None:
            return runs(vm) and h_when(vm)
        return False

    class C:
        props = ["C03"]
        sig = dict(self=VM)
        func = staticmethod(lambda: BaseVM.eval_instruction)
        assigns = ["self!", "self.stack", "self.altstack", "self.conditional_stack"]
        options = {'max_paths': 400, 'table_contracts': True, 'feas_timeout_ms': 400}     # the handler is called through its contract (by function object)

        def requires(vm):
            return 0 <= vm.pc and vm.pc < len(vm.script) and vm.script[vm.pc] == k

        def ensures_loop_state(vm, result):
            script, pc = old(vm.script), old(vm.pc)
            return (vm.pc == decode_newpc(script, pc),
                    vm.op_count == old(vm.op_count) + (1 if k > OP_16 else 0),
                    vm.script == script, vm.flags == old(vm.flags),
                    vm.begin_code_hash == (decode_newpc(script, pc) if (k == OP_CODESEPARATOR and old(executing(vm))) else old(vm.begin_code_hash)),
                    vm.conditional_stack.true_count >= 0, vm.conditional_stack.false_count >= 0, decode_ok(script, pc))

        def ensures_unexecuted(vm, result):
            """in an unexecuted branch nothing but the conditionals themselves changes anything"""
            if old(executing(vm)) or k in CONDITIONALS:
                return True
            return (listval(vm.stack) == old(listval(vm.stack)), listval(vm.altstack) == old(listval(vm.altstack)),
                    vm.conditional_stack.true_count == old(vm.conditional_stack.true_count),
                    vm.conditional_stack.false_count == old(vm.conditional_stack.false_count))

        def ensures_push(vm, result):
            if not is_push or not old(executing(vm)):
                return True
            script, pc = old(vm.script), old(vm.pc)
            d = decode_data(script, pc) if op_is_push_with_data(k) else small_int_data(k)
            return (listval(vm.stack) == old(listval(vm.stack)) + (d,), listval(vm.altstack) == old(listval(vm.altstack)),
                    vm.conditional_stack.true_count == old(vm.conditional_stack.true_count),
                    vm.conditional_stack.false_count == 0)

        def ensures_handler_frame(vm, result):
            """what the handler's contract leaves alone is left alone by the step that runs it"""
            if is_push or not old(runs(vm)):
                return True
            return (implies(keeps_stack, listval(vm.stack) == old(listval(vm.stack))),
                    implies(keeps_alt, listval(vm.altstack) == old(listval(vm.altstack))),
                    implies(keeps_cond, vm.conditional_stack.true_count == old(vm.conditional_stack.true_count)
                            and vm.conditional_stack.false_count == old(vm.conditional_stack.false_count)))

        raises = [(ScriptError, must_fail, True if h_exact else 'must')]
    def samples(rng):
        vm = VM.sample(rng)
        script = bytearray(vm.script or b"\x00")
        pc = rng.randrange(len(script))
        script[pc] = k
        if rng.random() < 0.7:
            script[pc + 1:pc + 1] = bytes(rng.randrange(256) for _ in range(rng.choice([1, 2, 4, 5, 80])))
        vm.script, vm.pc = bytes(script), pc
        if rng.random() < 0.1:
            vm.op_count = 201
        return {'self': vm}
    C.samples = staticmethod(samples)
    C.__name__ = "step_" + name
    guards = {}
    lifted = []
    if not is_push:
        # the handler's own postconditions, claimed of the step wherever the handler is run
        for (en, efn) in hc.ensures:
            if _mentions_loop_state(efn):
                NOT_LIFTED.setdefault(name, []).append(en)
                continue
            nm = "h_" + en
            setattr(C, "ensures_" + nm, staticmethod(efn))
            guards[nm] = runs
            lifted.append(en)
    C.guards = guards
    target = "pycoin.vm.VM:VM.eval_instruction[%s]" % name
    contract(target)(C)
    c = REG.contracts[target]
    c.param_alias = {'self': 'vm'}
    c.lifted = lifted
    STEP_TARGETS.append(target)
    return c


for _k in range(256):
    step_contract(_k)


# ---------------------------------------------------------------- the evaluation loop
@contract("pycoin.vm.VM:VM.eval_instruction")
class step_any_opcode:
    """what every per-opcode step contract above states about the loop state, as one contract for the call in
    eval_script (where the opcode is not fixed).  Not verified as such: it is the conjunction of ensures_loop_state and of
    the must-fail conditions of the 252 proved per-opcode contracts; the four CHECKSIG-family entries are not covered."""
    props = ["C03"]
    verify = False
    assumed_reason = ("every clause is literally one of the ensures_loop_state clauses proved for each of the 252 per-opcode step contracts "
                      "(pc, decode_ok, script, flags, non-negative conditional counters); unproved for the four entries without a handler "
                      "contract: OP_CHECKSIG, OP_CHECKSIGVERIFY, OP_CHECKMULTISIG, OP_CHECKMULTISIGVERIFY")
    sig = dict(self=VM)
    assigns = ["self!", "self.stack", "self.altstack", "self.conditional_stack"]

    def requires(self):
        return 0 <= self.pc and self.pc < len(self.script)

    def ensures_loop_state(self, result):
        return (self.pc == decode_newpc(old(self.script), old(self.pc)), decode_ok(old(self.script), old(self.pc)),
                self.script == old(self.script), self.flags == old(self.flags),
                self.conditional_stack.true_count >= 0, self.conditional_stack.false_count >= 0)

    raises = [(ScriptError, None, False)]


@contract("pycoin.vm.VM:VM.eval_script")
class eval_script:
    """the script-size limit, the fetch loop staying inside the script, and the final checks (balanced conditionals, stack
    size) -- over the step contract above"""
    props = ["C03"]
    sig = dict(self=VM)
    assigns = ["self!", "self.stack", "self.altstack", "self.conditional_stack"]

    def requires(self):
        return self.pc == 0 and self.conditional_stack.true_count >= 0 and self.conditional_stack.false_count >= 0

    def _too_long(self):
        return len(self.script) > 10000

    def ensures_final_state(self, result):
        return (len(self.script) <= 10000, self.script == old(self.script), self.pc >= len(self.script),
                self.conditional_stack.true_count == 0, self.conditional_stack.false_count == 0,
                len(listval(self.stack)) + len(listval(self.altstack)) <= 1000)

    raises = [(ScriptError, _too_long, 'must')]
    canaries = [("len(self.script) > self.MAX_SCRIPT_LENGTH", "len(self.script) > self.MAX_SCRIPT_LENGTH + 1"),
                ("self.post_script_check()", "pass")]


@invariant("pycoin.vm.VM:VM.eval_script", 0, modifies=["self!", "self.stack", "self.altstack", "self.conditional_stack"])
def _eval_loop_inv(self, old_self):
    return (0 <= self.pc, self.script == old(self.script), len(self.script) <= 10000,
            self.conditional_stack.true_count >= 0, self.conditional_stack.false_count >= 0)
