"""C11 (Tier B, bounded): Base58, Base58Check and Bech32/Bech32m codecs are exact and detect corruption.

Oracle: the property statement, the Base58Check convention (Bitcoin Core base58.cpp: big-endian radix conversion, one
'1' per leading zero byte, 4-byte double-SHA256 checksum) and BIP173 / BIP350.  The references below (radix
conversion by int.from_bytes / divmod, checksum by hashlib, the BCH checksum written as GF(2) polynomial arithmetic,
the 5<->8 bit regrouping done on bit strings) are written independently of pycoin's code.  The official BIP173 and
BIP350 test vectors are typed in and are first validated against the independent reference (see _vector_selfcheck).
"""
import hashlib
import itertools
import random

from pyvc.bounded import bounded, Tally

MAX_PER_KEY = 3


class KTally(Tally):
    """Tally that keeps at most MAX_PER_KEY violations per finding key so one defect cannot crowd out another."""

    def __init__(self, rule):
        super().__init__(rule)
        self.per_key = {}

    def violation(self, what, inputs, repro=None, finding_key=None):
        k = finding_key or what
        self.per_key[k] = self.per_key.get(k, 0) + 1
        if self.per_key[k] <= MAX_PER_KEY:
            super().violation(what, inputs, repro, finding_key)

    def result(self):
        r = super().result()
        r["violation_counts_by_key"] = dict(self.per_key)
        return r


# ----------------------------------------------------------------------------------------------------------------
# independent Base58 / Base58Check
# ----------------------------------------------------------------------------------------------------------------

B58 = "123456789ABCDEFGHJKLMNPQRSTUVWXYZabcdefghijkmnopqrstuvwxyz"
assert len(B58) == 58 and len(set(B58)) == 58 and not (set(B58) & set("0OIl"))


def sha256d(b):
    return hashlib.sha256(hashlib.sha256(b).digest()).digest()


def ref_b58enc(b):
    n = int.from_bytes(b, "big")
    digits = []
    while n:
        n, r = divmod(n, 58)
        digits.append(B58[r])
    zeros = len(b) - len(b.lstrip(b"\0"))
    return "1" * zeros + "".join(reversed(digits))


def ref_b58dec(s):
    """bytes, or None if a character is outside the alphabet"""
    n = 0
    for c in s:
        i = B58.find(c)
        if i < 0 or len(c) != 1:
            return None
        n = n * 58 + i
    zeros = len(s) - len(s.lstrip("1"))
    return b"\0" * zeros + n.to_bytes((n.bit_length() + 7) // 8, "big")


def ref_b58check_enc(b):
    return ref_b58enc(b + sha256d(b)[:4])


def ref_b58check_dec(s):
    raw = ref_b58dec(s)
    if raw is None or len(raw) < 4 or sha256d(raw[:-4])[:4] != raw[-4:]:
        return None
    return raw[:-4]


# ----------------------------------------------------------------------------------------------------------------
# independent Bech32 / Bech32m (BIP173 / BIP350)
# ----------------------------------------------------------------------------------------------------------------

B32 = "qpzry9x8gf2tvdw0s3jn54khce6mua7l"
CONST_BECH32 = 1
CONST_BECH32M = 0x2BC830A3
# BIP173: generator polynomial g(x) = x^6 + {29}x^5 + {22}x^4 + {20}x^3 + {21}x^2 + {29}x + {18} over GF(32); the five
# constants are {2^i} * (g(x) - x^6) packed 5 bits per coefficient
GEN = (0x3B6A57B2, 0x26508E6D, 0x1EA119FA, 0x3D4233DD, 0x2A1462B3)


def ref_polymod(values):
    c = 1
    for v in values:
        c0 = c >> 25
        c = ((c & 0x1FFFFFF) << 5) ^ v
        for i, g in enumerate(GEN):
            if (c0 >> i) & 1:
                c ^= g
    return c


def ref_hrp_expand(hrp):
    return [ord(ch) >> 5 for ch in hrp] + [0] + [ord(ch) & 31 for ch in hrp]


def ref_bech32_encode(hrp, data5, const):
    pm = ref_polymod(ref_hrp_expand(hrp) + list(data5) + [0] * 6) ^ const
    chk = [(pm >> (5 * (5 - i))) & 31 for i in range(6)]
    return hrp + "1" + "".join(B32[d] for d in list(data5) + chk)


def ref_bech32_decode(s):
    """(hrp, data5, const) or None, per BIP173 'Bech32' section with the BIP350 constant"""
    if any(ord(ch) < 33 or ord(ch) > 126 for ch in s):
        return None
    if any(ch.islower() for ch in s) and any(ch.isupper() for ch in s):
        return None
    s = s.lower()
    if len(s) > 90:
        return None
    pos = s.rfind("1")
    if pos < 1 or len(s) - pos - 1 < 6:
        return None
    hrp, dp = s[:pos], s[pos + 1:]
    if any(ch not in B32 for ch in dp):
        return None
    data = [B32.index(ch) for ch in dp]
    pm = ref_polymod(ref_hrp_expand(hrp) + data)
    if pm not in (CONST_BECH32, CONST_BECH32M):
        return None
    return hrp, data[:-6], pm


def ref_8to5(b):
    bits = "".join(format(x, "08b") for x in b)
    bits += "0" * (-len(bits) % 5)
    return [int(bits[i:i + 5], 2) for i in range(0, len(bits), 5)]


def ref_5to8(d):
    """bytes or None (padding rules of BIP173: at most 4 pad bits, all zero)"""
    bits = "".join(format(x, "05b") for x in d)
    full = len(bits) // 8 * 8
    pad = bits[full:]
    if len(pad) >= 5 or "1" in pad:
        return None
    return bytes(int(bits[i:i + 8], 2) for i in range(0, full, 8))


def ref_segwit_encode(hrp, ver, prog):
    return ref_bech32_encode(hrp, [ver] + ref_8to5(prog), CONST_BECH32 if ver == 0 else CONST_BECH32M)


def ref_segwit_decode(hrp, addr):
    """(version, program bytes) or None"""
    d = ref_bech32_decode(addr)
    if d is None:
        return None
    h, data, const = d
    if h != hrp or not data:
        return None
    ver = data[0]
    prog = ref_5to8(data[1:])
    if prog is None or not (2 <= len(prog) <= 40) or ver > 16:
        return None
    if ver == 0 and len(prog) not in (20, 32):
        return None
    if const != (CONST_BECH32 if ver == 0 else CONST_BECH32M):
        return None
    return ver, prog


def allowed_lengths(ver):
    return (20, 32) if ver == 0 else range(2, 41)


# ----------------------------------------------------------------------------------------------------------------
# 1. Base58
# ----------------------------------------------------------------------------------------------------------------

@bounded("C11.base58", props=["C11"],
         bound="all byte strings of length 0..2 exhaustively; seeded strings of every length 0..40 x 0..5 (and all) "
               "leading zero bytes; all Base58 texts of length 0..2 exhaustively + seeded to length 60; every "
               "non-alphabet ASCII character and several non-ASCII ones at first/middle/last position")
def c11_base58(opts):
    rng = random.Random(opts["seed"])
    thorough = opts.get("tier") == "thorough"
    from pycoin.encoding.b58 import b2a_base58, a2b_base58
    from pycoin.encoding.base_conversion import EncodingError
    t = KTally(rule="case = one byte string (encode must equal the independent radix-58 reference and decode back) or "
                    "one text (decode must equal the reference and encode back; texts with a character outside the "
                    "alphabet must raise EncodingError)")

    def check_bytes(b):
        t.case(key=("b", b), nontrivial=True, sample={"bytes": b.hex()} if len(b) > 3 else None)
        rp = "from pycoin.encoding.b58 import *; b = bytes.fromhex(%r); s = b2a_base58(b); print(s, a2b_base58(s) == b)" % b.hex()
        try:
            s = b2a_base58(b)
            if s != ref_b58enc(b):
                t.violation("b2a_base58 differs from reference Base58", (b.hex(), s), repro=rp,
                            finding_key="b58-encode-wrong")
            if a2b_base58(ref_b58enc(b)) != b:
                t.violation("a2b_base58(b2a_base58(b)) != b", b.hex(), repro=rp, finding_key="b58-roundtrip-lost")
        except Exception as ex:
            t.violation("Base58 round trip raises %s" % type(ex).__name__, (b.hex(), repr(ex)), repro=rp,
                        finding_key="b58-roundtrip-raises")

    def check_text(s):
        t.case(key=("t", s), nontrivial=True)
        rp = "from pycoin.encoding.b58 import *; s = %r; b = a2b_base58(s); print(b.hex(), b2a_base58(b) == s)" % s
        ref = ref_b58dec(s)
        try:
            b = a2b_base58(s)
        except EncodingError:
            b = None
        except Exception as ex:
            b = None
            t.violation("a2b_base58 raises undocumented %s" % type(ex).__name__, (s, repr(ex)), repro=rp,
                        finding_key="b58-decode-raises")
            return
        if ref is None:
            if b is not None:
                t.violation("a2b_base58 accepts a character outside the alphabet", (s, b.hex()), repro=rp,
                            finding_key="b58-bad-character-accepted")
            return
        if b != ref:
            t.violation("a2b_base58 differs from reference", (s, b and b.hex()), repro=rp, finding_key="b58-decode-wrong")
        elif b2a_base58(b) != s:
            t.violation("b2a_base58(a2b_base58(s)) != s", s, repro=rp, finding_key="b58-roundtrip-lost")

    for ln in range(0, 3):
        for tup in itertools.product(range(256), repeat=ln):
            check_bytes(bytes(tup))
    for ln in range(0, 41):
        for z in range(0, 6):
            if z > ln:
                continue
            for _ in range(8 if thorough else 2):
                body = bytes(rng.randrange(256) for _ in range(ln - z))
                if body and body[0] == 0 and rng.random() < 0.5:
                    body = bytes([rng.randrange(1, 256)]) + body[1:]
                check_bytes(b"\0" * z + body)
        check_bytes(b"\0" * ln)
        check_bytes(b"\xff" * ln)
        check_bytes(b"\0" * (ln // 2) + b"\x01" + b"\0" * (ln - ln // 2))
    for ln in (41, 64, 78, 100, 255):
        check_bytes(bytes(rng.randrange(256) for _ in range(ln)))
        check_bytes(b"\0" * 7 + bytes(rng.randrange(256) for _ in range(ln)))
    # texts
    for ln in range(0, 3):
        for tup in itertools.product(B58, repeat=ln):
            check_text("".join(tup))
    for ln in range(3, 61):
        for _ in range(6 if thorough else 2):
            z = rng.choice((0, 0, 1, 2, 5, ln))
            check_text("1" * min(z, ln) + "".join(rng.choice(B58) for _ in range(ln - min(z, ln))))
    base = ref_b58enc(bytes(rng.randrange(256) for _ in range(25)))
    bad_chars = [chr(c) for c in range(0, 128) if chr(c) not in B58] + ["\xe9", "б", "€", "\U0001F600", "\x80"]
    for ch in bad_chars:
        for pos in (0, len(base) // 2, len(base) - 1):
            check_text(base[:pos] + ch + base[pos + 1:])
        check_text(ch)
        check_text(base + ch)
    t.exhaustive = False
    return t.result()


# ----------------------------------------------------------------------------------------------------------------
# 2. Base58Check
# ----------------------------------------------------------------------------------------------------------------

@bounded("C11.base58check", props=["C11"],
         bound="all payloads of length 0..1 exhaustively, seeded payloads of every length 0..40 x 0..5 leading zeros; "
               "EVERY single-character substitution (57 alternatives x every position) of several valid strings; "
               "strings decoding to < 4 bytes; characters outside the alphabet")
def c11_base58check(opts):
    rng = random.Random(opts["seed"] + 1)
    thorough = opts.get("tier") == "thorough"
    from pycoin.encoding.b58 import b2a_hashed_base58, a2b_hashed_base58, is_hashed_base58_valid
    from pycoin.encoding.base_conversion import EncodingError
    from pycoin.networks.parseable_str import parse_b58_double_sha256
    t = KTally(rule="case = one payload (b2a_hashed_base58 equals reference, a2b_hashed_base58 / is_hashed_base58_valid "
                    "/ parse_b58_double_sha256 give it back) or one candidate text (accepted iff the independent "
                    "decoder finds a correct 4-byte double-SHA256 checksum)")

    def check_payload(b):
        t.case(key=("p", b), sample={"payload": b.hex()} if len(b) > 3 else None)
        rp = ("from pycoin.encoding.b58 import *; b = bytes.fromhex(%r); s = b2a_hashed_base58(b); "
              "print(s, a2b_hashed_base58(s) == b)" % b.hex())
        try:
            s = b2a_hashed_base58(b)
            want = ref_b58check_enc(b)
            if s != want:
                t.violation("b2a_hashed_base58 differs from reference Base58Check", (b.hex(), s), repro=rp,
                            finding_key="b58check-encode-wrong")
            if a2b_hashed_base58(want) != b or not is_hashed_base58_valid(want):
                t.violation("a2b_hashed_base58(b2a_hashed_base58(b)) != b", b.hex(), repro=rp,
                            finding_key="b58check-roundtrip-lost")
            if parse_b58_double_sha256(want) != b:
                t.violation("parse_b58_double_sha256 does not return the payload", (b.hex(), want), repro=rp,
                            finding_key="b58check-parse-helper-wrong")
        except Exception as ex:
            t.violation("Base58Check round trip raises %s" % type(ex).__name__, (b.hex(), repr(ex)), repro=rp,
                        finding_key="b58check-roundtrip-raises")

    def check_text(s, nontrivial=True):
        ref = ref_b58check_dec(s)
        t.case(key=("t", s), nontrivial=nontrivial)
        rp = "from pycoin.encoding.b58 import *; print(a2b_hashed_base58(%r))" % s
        try:
            got = a2b_hashed_base58(s)
        except EncodingError:
            got = None
        except Exception as ex:
            got = None
            t.violation("a2b_hashed_base58 raises undocumented %s" % type(ex).__name__, (s, repr(ex)), repro=rp,
                        finding_key="b58check-decode-raises")
        if got != ref:
            if ref is None:
                t.violation("Base58Check string with a wrong checksum / bad character accepted", (s, got.hex()),
                            repro=rp, finding_key="b58check-bad-checksum-accepted")
            else:
                t.violation("valid Base58Check string refused or decoded wrongly", (s, got), repro=rp,
                            finding_key="b58check-decode-wrong")
        try:
            v = is_hashed_base58_valid(s)
            if v != (ref is not None):
                t.violation("is_hashed_base58_valid gives the wrong verdict", (s, v),
                            repro="from pycoin.encoding.b58 import *; print(is_hashed_base58_valid(%r))" % s,
                            finding_key="b58check-bad-checksum-accepted" if v else "b58check-decode-wrong")
        except Exception as ex:
            t.violation("is_hashed_base58_valid raises %s" % type(ex).__name__, (s, repr(ex)),
                        repro="from pycoin.encoding.b58 import *; print(is_hashed_base58_valid(%r))" % s,
                        finding_key="b58check-decode-raises")
        pv = parse_b58_double_sha256(s)
        if pv != ref:
            t.violation("parse_b58_double_sha256 gives the wrong verdict", (s, pv),
                        repro="from pycoin.networks.parseable_str import *; print(parse_b58_double_sha256(%r))" % s,
                        finding_key="b58check-parse-helper-wrong")

    for ln in range(0, 2):
        for tup in itertools.product(range(256), repeat=ln):
            check_payload(bytes(tup))
    for ln in range(0, 41):
        for z in range(0, 6):
            if z > ln:
                continue
            for _ in range(4 if thorough else 1):
                check_payload(b"\0" * z + bytes(rng.randrange(1, 256) for _ in range(ln - z)))
        check_payload(b"\0" * ln)
    for ln in (78, 82, 110):
        check_payload(bytes(rng.randrange(256) for _ in range(ln)))
    # corruption: every single-character substitution
    payloads = [b"\x00" + bytes(rng.randrange(256) for _ in range(20)),          # P2PKH style, leading zero
                b"\x05" + bytes(rng.randrange(256) for _ in range(20)),          # P2SH style
                b"\x80" + bytes(rng.randrange(256) for _ in range(32)) + b"\x01",  # WIF style
                b"\x00\x00\x00" + bytes(rng.randrange(256) for _ in range(5)), b"", b"\x00"]
    if thorough:
        payloads += [bytes(rng.randrange(256) for _ in range(rng.randrange(1, 40))) for _ in range(6)]
        payloads += [b"\x04\x88\xb2\x1e" + bytes(rng.randrange(256) for _ in range(74))]
    for p in payloads:
        s = ref_b58check_enc(p)
        check_text(s)
        for pos in range(len(s)):
            for ch in B58:
                if ch != s[pos]:
                    check_text(s[:pos] + ch + s[pos + 1:])
        # deletions, insertions, transpositions, truncated checksum
        for pos in range(len(s)):
            check_text(s[:pos] + s[pos + 1:])
            if pos + 1 < len(s) and s[pos] != s[pos + 1]:
                check_text(s[:pos] + s[pos + 1] + s[pos] + s[pos + 2:])
        check_text("1" + s)
        check_text(s + "1")
        for ch in "0OIl +/=-_\n\xe9":
            check_text(s[:3] + ch + s[4:])
            check_text(s + ch)
        # checksum bytes flipped in the binary domain
        raw = p + sha256d(p)[:4]
        for i in range(1, 5):
            for bit in (1, 0x80):
                check_text(ref_b58enc(raw[:-i] + bytes([raw[-i] ^ bit]) + raw[len(raw) - i + 1:]))
        # checksum of the wrong hash
        check_text(ref_b58enc(p + hashlib.sha256(p).digest()[:4]))
        check_text(ref_b58enc(p + sha256d(p)[-4:]))
        check_text(ref_b58enc(p + sha256d(p)[:3]))
        check_text(ref_b58enc(p + sha256d(p)[:5]))
    # texts that decode to fewer than four bytes cannot carry a checksum
    for s in ["", "1", "11", "111", "1111", "2", "z", "zz", "zzz", "zzzz", "11z", "3QJmnh"]:
        check_text(s)
    for tup in itertools.product(B58, repeat=2):
        check_text("".join(tup), nontrivial=False)
    t.exhaustive = False
    return t.result()


# ----------------------------------------------------------------------------------------------------------------
# 3. Bech32 / Bech32m round trip
# ----------------------------------------------------------------------------------------------------------------

HRPS = ["bc", "tb", "ltc", "a", "bcrt", "a1b", "?", "tb1"]


def long_hrp(total_data_chars):
    """the longest HRP that still gives a 90 character string"""
    n = 90 - 1 - total_data_chars
    return ("an83characterlonghumanreadablepartthatcontainsthenumber1andtheexcludedcharactersbio" * 2)[:n]


@bounded("C11.bech32_roundtrip", props=["C11"],
         bound="witness versions 0..16 x every allowed program length (v0: 20, 32; v1..16: 2..40) x HRPs {bc, tb, ltc, a, "
               "bcrt, a1b, ?, tb1, the longest HRP that keeps the string at 90 characters} x seeded programs "
               "(+ all-zero, all-ff); lower and upper case")
def c11_bech32_roundtrip(opts):
    rng = random.Random(opts["seed"] + 2)
    thorough = opts.get("tier") == "thorough"
    from pycoin.contrib import bech32m
    from pycoin.networks.parseable_str import parse_bech32
    t = KTally(rule="case = (hrp, witness version, program); bech32m.encode must equal the independent BIP173/BIP350 "
                    "encoder, decode must return (version, program) for the lower- and upper-case string, "
                    "bech32_decode must name the right checksum variant, parse_bech32 must agree; one character "
                    "longer than 90 must not encode")
    for ver in range(0, 17):
        for ln in allowed_lengths(ver):
            nd = 1 + (ln * 8 + 4) // 5 + 6
            hrps = HRPS + [long_hrp(nd)]
            progs = [bytes(rng.randrange(256) for _ in range(ln)) for _ in range(3 if thorough else 1)]
            if thorough or ln in (2, 20, 32, 40):
                progs += [b"\0" * ln, b"\xff" * ln]
            for hrp in hrps:
                for prog in progs:
                    t.case(key=(hrp, ver, prog), sample={"hrp": hrp, "ver": ver, "prog": prog.hex()})
                    rp = ("from pycoin.contrib import bech32m as b; a = b.encode(%r, %d, bytes.fromhex(%r)); "
                          "print(a, b.decode(%r, a))" % (hrp, ver, prog.hex(), hrp))
                    want = ref_segwit_encode(hrp, ver, prog)
                    assert ref_segwit_decode(hrp, want) == (ver, prog), (hrp, ver, prog)
                    try:
                        a = bech32m.encode(hrp, ver, prog)
                        if a != want:
                            t.violation("bech32m.encode differs from BIP173/BIP350 reference", (hrp, ver, prog.hex(), a),
                                        repro=rp, finding_key="bech32-encode-wrong")
                        if bech32m.encode(hrp, ver, list(prog)) != want:
                            t.violation("bech32m.encode(list) differs from reference", (hrp, ver, prog.hex()),
                                        repro=rp, finding_key="bech32-encode-wrong")
                        for form in (want, want.upper()):
                            v, p = bech32m.decode(hrp, form)
                            if v != ver or p is None or bytes(p) != prog:
                                t.violation("bech32m.decode(encode(x)) != x", (hrp, ver, prog.hex(), form), repro=rp,
                                            finding_key="bech32-roundtrip-lost")
                        h, d5, spec = bech32m.bech32_decode(want)
                        wspec = bech32m.Encoding.BECH32 if ver == 0 else bech32m.Encoding.BECH32M
                        if h != hrp or d5 != [ver] + ref_8to5(prog) or spec != wspec:
                            t.violation("bech32_decode returns wrong hrp / data / spec", (want, h, spec), repro=rp,
                                        finding_key="bech32-decode-wrong")
                        if bech32m.bech32_encode(hrp, [ver] + ref_8to5(prog), wspec) != want:
                            t.violation("bech32_encode differs from reference", want, repro=rp,
                                        finding_key="bech32-encode-wrong")
                        pb = parse_bech32(want)
                        if pb is None or pb[0] != hrp or pb[1] != ver or pb[2] != prog or pb[3] != wspec:
                            t.violation("parse_bech32 wrong on a valid address", (want, pb), repro=rp,
                                        finding_key="bech32-parse-helper-wrong")
                    except Exception as ex:
                        t.violation("bech32 round trip raises %s" % type(ex).__name__, (hrp, ver, prog.hex(), repr(ex)),
                                    repro=rp, finding_key="bech32-roundtrip-raises")
            # one character too long: 91 characters is not a valid Bech32 string
            hrp = long_hrp(nd - 1)
            prog = progs[0]
            t.case(key=("too-long", ver, ln))
            s91 = ref_segwit_encode(hrp, ver, prog)
            assert len(s91) == 91
            try:
                if bech32m.encode(hrp, ver, prog) is not None or bech32m.decode(hrp, s91) != (None, None) \
                        or bech32m.bech32_decode(s91) != (None, None, None):
                    t.violation("91-character Bech32 string produced / accepted", s91,
                                repro="from pycoin.contrib import bech32m as b; print(b.decode(%r, %r))" % (hrp, s91),
                                finding_key="bech32-overlong-accepted")
            except Exception as ex:
                t.violation("bech32 raises %s on overlong string" % type(ex).__name__, s91, finding_key="bech32-decode-raises")
    t.exhaustive = False
    return t.result()


# ----------------------------------------------------------------------------------------------------------------
# 4. Bech32 rejection of invalid encodings
# ----------------------------------------------------------------------------------------------------------------

def _must_reject(t, bech32m, hrp, s, why, fk, nontrivial=True):
    """segwit-address level: decode(hrp, s) must be (None, None); cross-checked with the reference"""
    t.case(key=(why, hrp, s), nontrivial=nontrivial, sample={"why": why, "s": s})
    assert ref_segwit_decode(hrp, s) is None, (why, hrp, s)
    rp = "from pycoin.contrib import bech32m as b; print(b.decode(%r, %r))" % (hrp, s)
    try:
        got = bech32m.decode(hrp, s)
    except Exception as ex:
        t.violation("bech32m.decode raises %s instead of returning (None, None)" % type(ex).__name__,
                    (why, hrp, s, repr(ex)), repro=rp, finding_key="bech32-decode-raises")
        return
    if got != (None, None):
        t.violation("bech32m.decode accepts an invalid address: %s" % why, (hrp, s, got), repro=rp, finding_key=fk)


@bounded("C11.bech32_reject", props=["C11"],
         bound="for every version 0..16 (and 17..31) and program length 0..42: wrong checksum constant, invalid length, "
               "invalid padding (every non-zero pad pattern, 5..9 pad bits), mixed case at every position of sample "
               "strings, wrong / empty / out-of-range HRP, characters outside the charset, too-short data part")
def c11_bech32_reject(opts):
    rng = random.Random(opts["seed"] + 3)
    thorough = opts.get("tier") == "thorough"
    from pycoin.contrib import bech32m
    from pycoin.networks.parseable_str import parse_bech32
    from pycoin.symbols.btc import network as btc
    t = KTally(rule="case = one invalid address built with the independent encoder (checksum always correct for the "
                    "constant chosen, so that only the clause under test makes it invalid); bech32m.decode must return "
                    "(None, None) and network.parse.address must return None")
    hrps = ["bc", "tb", "ltc", "a"] if thorough else ["bc", "a"]
    for hrp in hrps:
        for ver in range(0, 32):
            for ln in range(0, 43):
                prog = bytes(rng.randrange(256) for _ in range(ln))
                d5 = [ver] + ref_8to5(prog)
                if len(hrp) + 1 + len(d5) + 6 > 90:
                    continue
                good_const = CONST_BECH32 if ver == 0 else CONST_BECH32M
                bad_const = CONST_BECH32M if ver == 0 else CONST_BECH32
                valid_len = ver <= 16 and ln in allowed_lengths(ver)
                # wrong checksum constant for the version (otherwise perfect)
                if ver <= 16:
                    _must_reject(t, bech32m, hrp, ref_bech32_encode(hrp, d5, bad_const),
                                 "wrong checksum constant for witness version %d" % ver,
                                 "bech32-wrong-constant-accepted", nontrivial=valid_len)
                # a third constant
                if valid_len:
                    _must_reject(t, bech32m, hrp, ref_bech32_encode(hrp, d5, rng.choice((0, 2, 0x3FFFFFFF, 0x2BC830A2))),
                                 "checksum with neither constant", "bech32-bad-checksum-accepted")
                if not valid_len:
                    why = "witness version > 16" if ver > 16 else "invalid program length %d for version %d" % (ln, ver)
                    _must_reject(t, bech32m, hrp, ref_bech32_encode(hrp, d5, good_const), why,
                                 "bech32-bad-version-accepted" if ver > 16 else "bech32-bad-program-length-accepted")
                    if ver > 16 or not thorough:
                        continue
                if not valid_len:
                    continue
                # padding: non-zero pad bits
                npad = (-ln * 8) % 5
                for padv in range(1, 1 << npad):
                    bad = list(d5)
                    bad[-1] |= padv
                    _must_reject(t, bech32m, hrp, ref_bech32_encode(hrp, bad, good_const),
                                 "non-zero padding bits", "bech32-nonzero-padding-accepted")
                # padding: an extra all-zero quintet => 5..9 pad bits (program length unchanged or still allowed)
                if len(hrp) + 1 + len(d5) + 1 + 6 <= 90:
                    bad = list(d5) + [0]
                    if ref_5to8(bad[1:]) is None:
                        _must_reject(t, bech32m, hrp, ref_bech32_encode(hrp, bad, good_const),
                                     "more than 4 padding bits", "bech32-excess-padding-accepted")
    # string-level damage on sample valid addresses
    samples = []
    for hrp in ("bc", "tb", "ltc", "a"):
        for ver, ln in ((0, 20), (0, 32), (1, 32), (16, 2), (2, 40), (7, 17)):
            samples.append((hrp, ref_segwit_encode(hrp, ver, bytes(rng.randrange(256) for _ in range(ln)))))
    for hrp, s in samples:
        # mixed case: flip the case of any one letter (and of a few random subsets)
        for pos, ch in enumerate(s):
            if ch.isalpha():
                _must_reject(t, bech32m, hrp, s[:pos] + ch.upper() + s[pos + 1:], "mixed case", "bech32-mixed-case-accepted")
                u = s.upper()
                _must_reject(t, bech32m, hrp, u[:pos] + ch + u[pos + 1:], "mixed case", "bech32-mixed-case-accepted")
        for _ in range(10):
            m = "".join(c.upper() if rng.random() < 0.5 else c for c in s)
            if m != s and m != s.upper():
                _must_reject(t, bech32m, hrp, m, "mixed case", "bech32-mixed-case-accepted")
        # wrong hrp expected / present
        for other in ("bc", "tb", "ltc", "a", "", "b", hrp + "1", "bcc"):
            if other != hrp:
                _must_reject(t, bech32m, other, s, "address of another HRP", "bech32-wrong-hrp-accepted")
        # separator removed / replaced / empty hrp
        pos = s.rfind("1")
        _must_reject(t, bech32m, hrp, s[:pos] + s[pos + 1:], "separator missing", "bech32-malformed-accepted")
        _must_reject(t, bech32m, hrp, s[pos:], "empty HRP", "bech32-malformed-accepted")
        _must_reject(t, bech32m, "", s[pos:], "empty HRP", "bech32-malformed-accepted")
        _must_reject(t, bech32m, "", ref_bech32_encode("", [0] + ref_8to5(b"\1" * 20), 1), "empty HRP (checksum valid)",
                     "bech32-malformed-accepted")
        # characters outside the data charset (1, b, i, o and punctuation) in the data part
        for ch in "1bio!~ \t\x7f\x80\xe9":
            for p in (pos + 1, pos + 5, len(s) - 1, len(s) - 4):
                _must_reject(t, bech32m, hrp, s[:p] + ch + s[p + 1:], "character outside the Bech32 charset",
                             "bech32-bad-character-accepted")
        # truncated: every proper prefix, and the data part shorter than a checksum
        for cut in range(len(s)):
            _must_reject(t, bech32m, hrp, s[:cut], "truncated string", "bech32-truncated-accepted",
                         nontrivial=cut > pos)
        _must_reject(t, bech32m, hrp, s + "q", "appended character", "bech32-bad-checksum-accepted")
        _must_reject(t, bech32m, hrp, s[:-1] + "q" + s[-1], "inserted character", "bech32-bad-checksum-accepted")
    # HRP with characters out of range or upper case in HRP only
    for h in ("\x20", "\x7f", "\x80", "b c", "B"):
        s = ref_bech32_encode(h, [0] + ref_8to5(b"\1" * 20), 1)
        t.case(key=("hrp-range", h))
        try:
            if bech32m.decode(h, s) != (None, None):
                t.violation("HRP character out of range / mixed case accepted", (h, s),
                            repro="from pycoin.contrib import bech32m as b; print(b.decode(%r, %r))" % (h, s),
                            finding_key="bech32-bad-hrp-accepted")
        except Exception as ex:
            t.violation("bech32m.decode raises %s" % type(ex).__name__, (h, s), finding_key="bech32-decode-raises")
    # network level: BTC must refuse what is not a BTC segwit address, and accept the valid standard forms
    for ver, ln, ok in ((0, 20, True), (0, 32, True), (1, 32, True)):
        prog = bytes(rng.randrange(256) for _ in range(ln))
        good = ref_segwit_encode("bc", ver, prog)
        t.case(key=("net", ver, ln))
        c = btc.parse.address(good)
        want_script = bytes([0x50 + ver if ver else 0, ln]) + prog
        if c is None or c.script() != want_script:
            t.violation("network.parse.address refuses / mis-decodes a valid segwit address", good,
                        repro="from pycoin.symbols.btc import network as n; print(n.parse.address(%r))" % good,
                        finding_key="bech32-network-parse-wrong")
        d5 = [ver] + ref_8to5(prog)
        for why, bad in (("wrong constant", ref_bech32_encode("bc", d5, CONST_BECH32M if ver == 0 else CONST_BECH32)),
                         ("wrong hrp", ref_segwit_encode("tb", ver, prog)),
                         ("mixed case", good[:-1] + good[-1].upper() if good[-1].isalpha() else good[:4] + good[4:].upper()),
                         ("non-zero padding", ref_bech32_encode("bc", d5[:-1] + [d5[-1] | 1], 1 if ver == 0 else CONST_BECH32M)),
                         ("bad checksum", good[:-1] + ("q" if good[-1] != "q" else "p"))):
            t.case(key=("net-bad", ver, ln, why))
            try:
                r = btc.parse.address(bad)
            except Exception as ex:
                r = None
                t.violation("network.parse.address raises %s" % type(ex).__name__, (why, bad),
                            finding_key="bech32-network-parse-raises")
            if r is not None and ref_segwit_decode("bc", bad) is None:
                t.violation("network.parse.address accepts an invalid segwit address (%s)" % why, bad,
                            repro="from pycoin.symbols.btc import network as n; print(n.parse.address(%r))" % bad,
                            finding_key="bech32-network-accepts-invalid")
    t.exhaustive = False
    return t.result()


# ----------------------------------------------------------------------------------------------------------------
# 5. error detection: up to four substituted characters
# ----------------------------------------------------------------------------------------------------------------

@bounded("C11.bech32_corruption", props=["C11"],
         bound="valid addresses (v0/20, v0/32, v1/32, v16/2, v2/40 ... on bc, tb, ltc, a; length <= 90): EVERY "
               "single-character substitution in the data part (31 alternatives x every position) and every single "
               "substitution of HRP / separator characters; seeded substitutions of 2, 3 and 4 positions")
def c11_bech32_corruption(opts):
    rng = random.Random(opts["seed"] + 4)
    thorough = opts.get("tier") == "thorough"
    from pycoin.contrib import bech32m
    t = KTally(rule="case = (valid string, set of <= 4 positions, replacement characters all different from the "
                    "originals).  Data-part substitutions are guaranteed to be detected by the BCH code (length <= 89 "
                    "data characters); HRP / separator substitutions change the HRP and must fail decode(hrp, .). "
                    "Checked on bech32m.decode(hrp, s) always and on bech32m.bech32_decode(s) when all changed "
                    "positions are data characters")
    strings = []
    shapes = [(0, 20), (0, 32), (1, 32), (16, 2), (2, 40), (5, 11)]
    for hrp in ("bc", "tb", "ltc", "a"):
        for ver, ln in shapes if (thorough or hrp == "bc") else shapes[:3]:
            strings.append((hrp, ref_segwit_encode(hrp, ver, bytes(rng.randrange(256) for _ in range(ln)))))
    strings.append((long_hrp(1 + 52 + 6), ref_segwit_encode(long_hrp(1 + 52 + 6), 1, bytes(rng.randrange(256) for _ in range(32)))))

    def check(hrp, orig, s, positions, data_only):
        t.case(key=(orig, s), nontrivial=True, sample={"orig": orig, "corrupt": s, "n": len(positions)})
        rp = "from pycoin.contrib import bech32m as b; print(b.decode(%r, %r), b.bech32_decode(%r))" % (hrp, s, s)
        try:
            if bech32m.decode(hrp, s) != (None, None):
                t.violation("address with %d substituted character(s) still decodes" % len(positions), (orig, s),
                            repro=rp, finding_key="bech32-corruption-undetected")
            if data_only and bech32m.bech32_decode(s) != (None, None, None):
                t.violation("Bech32 string with %d substituted data character(s) passes the checksum" % len(positions),
                            (orig, s), repro=rp, finding_key="bech32-corruption-undetected")
        except Exception as ex:
            t.violation("decoder raises %s on a corrupted string" % type(ex).__name__, (orig, s, repr(ex)), repro=rp,
                        finding_key="bech32-decode-raises")

    for hrp, s in strings:
        sep = s.rfind("1")
        assert sep == len(hrp) and len(s) <= 90
        # exhaustive single substitutions
        for pos in range(len(s)):
            if pos > sep:
                for ch in B32:
                    if ch != s[pos]:
                        check(hrp, s, s[:pos] + ch + s[pos + 1:], (pos,), True)
            else:
                for ch in "abcdefghijklmnopqrstuvwxyz0123456789?!":
                    if ch != s[pos]:
                        check(hrp, s, s[:pos] + ch + s[pos + 1:], (pos,), False)
        # sampled 2..4 substitutions
        n_samples = 6000 if thorough else 350
        for k in (2, 3, 4):
            for _ in range(n_samples):
                if rng.random() < 0.85:
                    positions = rng.sample(range(sep + 1, len(s)), k)
                    data_only = True
                else:
                    positions = rng.sample(range(len(s)), k)
                    data_only = all(p > sep for p in positions)
                chars = list(s)
                for p in positions:
                    if p > sep:
                        chars[p] = rng.choice([c for c in B32 if c != s[p]])
                    else:
                        chars[p] = rng.choice([c for c in "abcdefghijklmnopqrstuvwxyz023456789" if c != s[p]])
                check(hrp, s, "".join(chars), tuple(sorted(positions)), data_only)
        # clustered errors (burst of 4 adjacent, and errors confined to the checksum)
        for start in range(sep + 1, len(s) - 3):
            chars = list(s)
            for p in range(start, start + 4):
                chars[p] = rng.choice([c for c in B32 if c != s[p]])
            check(hrp, s, "".join(chars), tuple(range(start, start + 4)), True)
    t.exhaustive = False
    return t.result()


# ----------------------------------------------------------------------------------------------------------------
# 6. official test vectors
# ----------------------------------------------------------------------------------------------------------------

BIP173_VALID_BECH32 = [
    "A12UEL5L", "a12uel5l",
    "an83characterlonghumanreadablepartthatcontainsthenumber1andtheexcludedcharactersbio1tt5tgs",
    "abcdef1qpzry9x8gf2tvdw0s3jn54khce6mua7lmqqqxw",
    "11" + "q" * 82 + "c8247j",
    "split1checkupstagehandshakeupstreamerranterredcaperred2y9e3w",
    "?1ezyfcl",
]
BIP173_INVALID_BECH32 = [
    "\x201nwldj5", "\x7f1axkwrx", "\x801eym55h",
    "an84characterslonghumanreadablepartthatcontainsthenumber1andtheexcludedcharactersbio1569pvx",
    "pzry9x0s0muk", "1pzry9x0s0muk", "x1b4n0q5v", "li1dgmt3", "de1lg7wt\xff", "A1G7SGD8", "10a06t8", "1qzzfhee",
]
BIP350_VALID_BECH32M = [
    "A1LQFN3A", "a1lqfn3a",
    "an83characterlonghumanreadablepartthatcontainsthetheexcludedcharactersbioandnumber11sg7hg6",
    "abcdef1l7aum6echk45nj3s0wdvt2fg8x9yrzpqzd3ryx",
    "11llllllllllllllllllllllllllllllllllllllllllllllllllllllllllllllllllllllllllllllllllludsr8",
    "split1checkupstagehandshakeupstreamerranterredcaperredlc445v",
    "?1v759aa",
]
BIP350_INVALID_BECH32M = [
    "\x201xj0phk", "\x7f1g6xzxy", "\x801vctc34",
    "an84characterslonghumanreadablepartthatcontainsthetheexcludedcharactersbioandnumber11d6pts4",
    "qyrz8wqd2c9m", "1qyrz8wqd2c9m", "y1b0jsk6g", "lt1igcx5c0", "in1muywd", "mm1crxm3i", "au1s5cgom", "M1VUXWEZ",
    "16plkw9", "1p2gdwpf",
]
# (address, scriptPubKey hex) -- BIP350 list (supersedes the BIP173 one; the v0 entries are common to both)
VALID_ADDRESSES = [
    ("BC1QW508D6QEJXTDG4Y5R3ZARVARY0C5XW7KV8F3T4", "0014751e76e8199196d454941c45d1b3a323f1433bd6"),
    ("tb1qrp33g0q5c5txsp9arysrx4k6zdkfs4nce4xj0gdcccefvpysxf3q0sl5k7",
     "00201863143c14c5166804bd19203356da136c985678cd4d27a1b8c6329604903262"),
    ("bc1pw508d6qejxtdg4y5r3zarvary0c5xw7kw508d6qejxtdg4y5r3zarvary0c5xw7kt5nd6y",
     "5128751e76e8199196d454941c45d1b3a323f1433bd6751e76e8199196d454941c45d1b3a323f1433bd6"),
    ("BC1SW50QGDZ25J", "6002751e"),
    ("bc1zw508d6qejxtdg4y5r3zarvaryvaxxpcs", "5210751e76e8199196d454941c45d1b3a323"),
    ("tb1qqqqqp399et2xygdj5xreqhjjvcmzhxw4aywxecjdzew6hylgvsesrxh6hy",
     "0020000000c4a5cad46221b2a187905e5266362b99d5e91c6ce24d165dab93e86433"),
    ("tb1pqqqqp399et2xygdj5xreqhjjvcmzhxw4aywxecjdzew6hylgvsesf3hn0c",
     "5120000000c4a5cad46221b2a187905e5266362b99d5e91c6ce24d165dab93e86433"),
    ("bc1p0xlxvlhemja6c4dqv22uapctqupfhlxm9h8z3k2e72q4k9hcz7vqzk5jj0",
     "512079be667ef9dcbbac55a06295ce870b07029bfcdb2dce28d959f2815b16f81798"),
]
INVALID_ADDRESSES = [
    # BIP350
    "tc1p0xlxvlhemja6c4dqv22uapctqupfhlxm9h8z3k2e72q4k9hcz7vq5zuyut",
    "bc1p0xlxvlhemja6c4dqv22uapctqupfhlxm9h8z3k2e72q4k9hcz7vqh2y7hd",
    "tb1z0xlxvlhemja6c4dqv22uapctqupfhlxm9h8z3k2e72q4k9hcz7vqglt7rf",
    "BC1S0XLXVLHEMJA6C4DQV22UAPCTQUPFHLXM9H8Z3K2E72Q4K9HCZ7VQ54WELL",
    "bc1qw508d6qejxtdg4y5r3zarvary0c5xw7kemeawh",
    "tb1q0xlxvlhemja6c4dqv22uapctqupfhlxm9h8z3k2e72q4k9hcz7vq24jc47",
    "bc1p38j9r5y49hruaue7wxjce0updqjuyyx0kh56v8s25huc6995vvpql3jow4",
    "BC130XLXVLHEMJA6C4DQV22UAPCTQUPFHLXM9H8Z3K2E72Q4K9HCZ7VQ7ZWS8R",
    "bc1pw5dgrnzv",
    "bc1p0xlxvlhemja6c4dqv22uapctqupfhlxm9h8z3k2e72q4k9hcz7v8n0nx0muaewav253zgeav",
    "BC1QR508D6QEJXTDG4Y5R3ZARVARYV98GJ9P",
    "tb1p0xlxvlhemja6c4dqv22uapctqupfhlxm9h8z3k2e72q4k9hcz7vq47Zagq",
    "bc1p0xlxvlhemja6c4dqv22uapctqupfhlxm9h8z3k2e72q4k9hcz7v07qwwzcrf",
    "tb1p0xlxvlhemja6c4dqv22uapctqupfhlxm9h8z3k2e72q4k9hcz7vpggkg4j",
    "bc1gmk9yu",
    # BIP173
    "tc1qw508d6qejxtdg4y5r3zarvary0c5xw7kg3g4ty",
    "bc1qw508d6qejxtdg4y5r3zarvary0c5xw7kv8f3t5",
    "BC13W508D6QEJXTDG4Y5R3ZARVARY0C5XW7KN40WF2",
    "bc1rw5uspcuh",
    "bc10w508d6qejxtdg4y5r3zarvary0c5xw7kw508d6qejxtdg4y5r3zarvary0c5xw7kw5rljs90",
    "tb1qrp33g0q5c5txsp9arysrx4k6zdkfs4nce4xj0gdcccefvpysxf3q0sL5k7",
    "bc1zw508d6qejxtdg4y5r3zarvaryvqyzf3du",
    "tb1qrp33g0q5c5txsp9arysrx4k6zdkfs4nce4xj0gdcccefvpysxf3pjxtptv",
    # BIP173 addresses with witness version >= 1 and the Bech32 constant: valid under BIP173, invalid since BIP350
    "bc1pw508d6qejxtdg4y5r3zarvary0c5xw7kw508d6qejxtdg4y5r3zarvary0c5xw7k7grplx",
    "BC1SW50QA3JX3S",
    "bc1zw508d6qejxtdg4y5r3zarvaryvg6kdaj",
]


def _vector_selfcheck():
    """the typed-in vectors must be consistent with the independent reference (guards against typing errors)"""
    bad = []
    for s in BIP173_VALID_BECH32:
        d = ref_bech32_decode(s)
        if d is None or d[2] != CONST_BECH32:
            bad.append(s)
    for s in BIP350_VALID_BECH32M:
        d = ref_bech32_decode(s)
        if d is None or d[2] != CONST_BECH32M:
            bad.append(s)
    for s in BIP173_INVALID_BECH32:
        d = ref_bech32_decode(s)
        if d is not None and d[2] == CONST_BECH32:
            bad.append(s)
    for s in BIP350_INVALID_BECH32M:
        d = ref_bech32_decode(s)
        if d is not None and d[2] == CONST_BECH32M:
            bad.append(s)
    for a, spk in VALID_ADDRESSES:
        hrp = a[:a.rfind("1")].lower()
        d = ref_segwit_decode(hrp, a)
        if d is None or (bytes([0x50 + d[0] if d[0] else 0, len(d[1])]) + d[1]).hex() != spk:
            bad.append(a)
    for a in INVALID_ADDRESSES:
        if ref_segwit_decode("bc", a) is not None or ref_segwit_decode("tb", a) is not None:
            bad.append(a)
    return bad


@bounded("C11.bech32_vectors", props=["C11"],
         bound="the official BIP173 and BIP350 test vectors: 7+7 valid checksum strings, 12+14 invalid ones, 8 valid "
               "addresses with their scriptPubKeys, 26 invalid addresses")
def c11_bech32_vectors(opts):
    from pycoin.contrib import bech32m
    from pycoin.networks.parseable_str import parse_bech32
    from pycoin.symbols.btc import network as btc
    from pycoin.symbols.xtn import network as xtn
    t = KTally(rule="case = one published vector (first validated against the independent reference)")
    mist = _vector_selfcheck()
    if mist:
        # a typing error in this file, not a pycoin defect: do not judge pycoin with these
        raise AssertionError("harness vector list inconsistent with the reference: %r" % mist)
    for lst, spec in ((BIP173_VALID_BECH32, bech32m.Encoding.BECH32), (BIP350_VALID_BECH32M, bech32m.Encoding.BECH32M)):
        for s in lst:
            t.case(key=("valid", s), sample={"valid": s})
            rp = "from pycoin.contrib import bech32m as b; print(b.bech32_decode(%r))" % s
            try:
                h, d, sp = bech32m.bech32_decode(s)
                rh, rd, rc = ref_bech32_decode(s)
                if h != rh or d != rd or sp != spec:
                    t.violation("official valid Bech32(m) string not decoded", (s, h, sp), repro=rp,
                                finding_key="bech32-vector-valid-refused")
                elif bech32m.bech32_encode(h, d, sp) != s.lower():
                    t.violation("official valid string does not re-encode to itself", s, repro=rp,
                                finding_key="bech32-encode-wrong")
            except Exception as ex:
                t.violation("bech32_decode raises %s on an official valid vector" % type(ex).__name__, (s, repr(ex)),
                            repro=rp, finding_key="bech32-decode-raises")
    for lst, spec in ((BIP173_INVALID_BECH32, bech32m.Encoding.BECH32), (BIP350_INVALID_BECH32M, bech32m.Encoding.BECH32M)):
        for s in lst:
            t.case(key=("invalid", spec, s), sample={"invalid": s})
            rp = "from pycoin.contrib import bech32m as b; print(b.bech32_decode(%r))" % s
            try:
                h, d, sp = bech32m.bech32_decode(s)
                if sp == spec:
                    t.violation("official invalid Bech32(m) string accepted", (s, h, sp), repro=rp,
                                finding_key="bech32-vector-invalid-accepted")
            except Exception as ex:
                t.violation("bech32_decode raises %s on an official invalid vector" % type(ex).__name__, (s, repr(ex)),
                            repro=rp, finding_key="bech32-decode-raises")
    for a, spk in VALID_ADDRESSES:
        hrp = a[:a.rfind("1")].lower()
        t.case(key=("addr", a), sample={"addr": a})
        rp = "from pycoin.contrib import bech32m as b; print(b.decode(%r, %r))" % (hrp, a)
        try:
            v, p = bech32m.decode(hrp, a)
            if v is None or (bytes([0x50 + v if v else 0, len(p)]) + bytes(p)).hex() != spk:
                t.violation("official valid address not decoded to its scriptPubKey", (a, v, p), repro=rp,
                            finding_key="bech32-vector-valid-refused")
            elif bech32m.encode(hrp, v, p) != a.lower():
                t.violation("official valid address does not re-encode to itself", a, repro=rp,
                            finding_key="bech32-encode-wrong")
            pb = parse_bech32(a)
            if pb is None or pb[1] != v or (bytes([0x50 + v if v else 0, len(pb[2])]) + pb[2]).hex() != spk:
                t.violation("parse_bech32 wrong on an official valid address", (a, pb), repro=rp,
                            finding_key="bech32-parse-helper-wrong")
            # network level for the standard templates
            net = btc if hrp == "bc" else xtn
            if (v == 0 and len(p) in (20, 32)) or (v == 1 and len(p) == 32):
                c = net.parse.address(a)
                if c is None or c.script().hex() != spk:
                    t.violation("network.parse.address does not give the official scriptPubKey", a,
                                repro="from pycoin.symbols.btc import network as n; print(n.parse.address(%r))" % a,
                                finding_key="bech32-network-parse-wrong")
        except Exception as ex:
            t.violation("decoding an official valid address raises %s" % type(ex).__name__, (a, repr(ex)), repro=rp,
                        finding_key="bech32-decode-raises")
    for a in INVALID_ADDRESSES:
        for hrp in ("bc", "tb"):
            t.case(key=("bad-addr", hrp, a), sample={"bad": a})
            rp = "from pycoin.contrib import bech32m as b; print(b.decode(%r, %r))" % (hrp, a)
            try:
                if bech32m.decode(hrp, a) != (None, None):
                    t.violation("official invalid address accepted", (hrp, a), repro=rp,
                                finding_key="bech32-vector-invalid-accepted")
                net = btc if hrp == "bc" else xtn
                if net.parse.address(a) is not None:
                    t.violation("official invalid address accepted by network.parse.address", (hrp, a),
                                repro="from pycoin.symbols.btc import network as n; print(n.parse.address(%r))" % a,
                                finding_key="bech32-network-accepts-invalid")
            except Exception as ex:
                t.violation("decoding an official invalid address raises %s" % type(ex).__name__, (a, repr(ex)),
                            repro=rp, finding_key="bech32-decode-raises")
    t.exhaustive = True
    return t.result()
