"""C03: sanity of the per-opcode specifications used by the Tier-A handler proofs.

The contracts in c03_handlers*.py say, per opcode, when the handler must fail and what the stack must be otherwise.
Those statements are my transcription of Core's EvalScript.  This bounded check validates the *specifications
themselves* (not pycoin) against /verif/spec/consensus_script.py -- the executable transcription of Core's interpreter
that agrees with all of Core's script vectors: for seeded VM states, Core's verdict on the one-opcode script must equal
the contract's failure condition, and Core's resulting stack must satisfy the contract's ensures clauses."""
import copy
import random

from pyvc.bounded import bounded, Tally
from pyvc import api, verify


@bounded("C03.handler_specs_vs_core", props=["C03"], bound="per opcode under contract: seeded VM states (stack depth 0..7, items from the boundary pool, all flag bits) -- 400 (quick) / 4000 (thorough) states per opcode")
def handler_specs_vs_core(opts):
    from spec import consensus_script as core
    import contracts.c03_handlers as H
    import contracts.c03_handlers2  # noqa: F401  (registers the remaining handlers)
    rng = random.Random(opts.get('seed', 0) + 303)
    n_states = 400 if opts.get('tier') != 'thorough' else 4000
    t = Tally(rule="case = (opcode, VM state); non-trivial = Core accepts the one-opcode script on that state or rejects it for a reason other than an empty stack; "
                   "checked: contract failure condition == Core failure, contract ensures(stack) holds of Core's resulting stack")
    skip = {"OP_IF", "OP_NOTIF", "OP_ELSE", "OP_ENDIF", "OP_RESERVED", "OP_FROMALTSTACK", "OP_TOALTSTACK", "OP_CODESEPARATOR"}
    pool = H.ITEM.interesting + [b"\x02", b"\x05", b"\x10", b"\x11", b"\xff", b"\x00\x00", b"\x00\x00\x00\x00\x80", b"\x64", b"\x00\x94\x35\x77", b"\x00\x65\xcd\x1d"]
    for target in H._REGISTERED:
        name = target[target.index('[') + 1:-1]
        if name in skip or name.startswith('OP_PUSH') or (name.startswith('OP_') and name[3:].isdigit()) or name in ("OP_1NEGATE", "OP_PUSHDATA1", "OP_PUSHDATA2", "OP_PUSHDATA4"):
            continue
        c = api.REG.contracts[target]
        opcode = H.OPCODE.get(name)
        if opcode is None:
            opcode = int(name[1:], 16)
        p = list(c.sig)[0]
        whens = [verify.native_clause(w) for (e, w, iff) in c.raises if w is not None]
        enss = [(nm, verify.native_clause(fn)) for nm, fn in c.ensures]
        for _ in range(n_states if len(whens) + len(enss) > 0 else 5):
            vm = H.VM.sample(rng)
            vm.stack = [rng.choice(pool) if rng.random() < 0.8 else H.ITEM.sample(rng) for _ in range(rng.choice([0, 1, 1, 2, 2, 3, 3, 4, 6, 7]))]
            vm.conditional_stack.true_count = vm.conditional_stack.false_count = 0
            vm.flags = rng.choice([0, 64, 128, 512, 1024, 1536, 64 | 512, 64 | 1024, rng.randrange(1 << 16)])
            if name in ("OP_CHECKLOCKTIMEVERIFY", "OP_CHECKSEQUENCEVERIFY") and rng.random() < 0.7:
                vm.flags |= 512 | 1024
                vm.tx_context.lock_time = rng.choice([0, 5, 100, 499999999, 500000000, 500000001, 2 ** 32 - 1])
                vm.tx_context.sequence = rng.choice([0, 5, 100, 0xffff, 0x400000, 0x400005, 0x80000000, 0xffffffff, 0xfffffffe])
                vm.tx_context.version = rng.choice([1, 2, 2, 3])
            tx = core.SpecTx(vm.tx_context.version, [core.SpecTxIn(b"\x01" * 32, 0, b"", vm.tx_context.sequence)], [], vm.tx_context.lock_time)
            checker = core.TransactionChecker(tx, 0, 0)
            ok, err, out = core.eval_script(list(vm.stack), bytes([opcode]), vm.flags & 0xffff, checker)
            pre = {p: vm, 'vm': vm}
            try:
                predicted_fail = any(bool(post({k: v for k, v in pre.items() if k in names or True}, prew(pre))) for (prew, post, names) in whens)
            except Exception as ex:
                t.violation("contract failure condition of %s raised %r natively" % (name, ex), repr((name, vm.stack, vm.flags)), finding_key="spec-eval-error-" + name)
                continue
            key = (name, tuple(vm.stack), vm.flags, vm.tx_context.lock_time, vm.tx_context.sequence, vm.tx_context.version)
            t.case(key, nontrivial=ok or len(vm.stack) > 0, sample={'opcode': name, 'stack': [x.hex() for x in vm.stack], 'flags': vm.flags, 'core': err} if rng.random() < 0.01 else None)
            if predicted_fail != (not ok):
                t.violation("handler spec of %s disagrees with Core on failure: spec says fail=%s, Core says %s" % (name, predicted_fail, err),
                            repr({'stack': [x.hex() for x in vm.stack], 'flags': vm.flags, 'lock_time': vm.tx_context.lock_time, 'sequence': vm.tx_context.sequence, 'version': vm.tx_context.version}),
                            finding_key="handler-spec-vs-core-" + name)
                continue
            if ok:
                post_vm = copy.deepcopy(vm)
                post_vm.stack = list(out)
                for nm, (prew, post, names) in enss:
                    olds = prew(pre)
                    try:
                        r = post({p: post_vm, 'vm': post_vm, 'result': None}, olds)
                    except Exception as ex:
                        t.violation("ensures %s of %s raised %r natively" % (nm, name, ex), repr((name, vm.stack)), finding_key="spec-eval-error-" + name)
                        continue
                    rs = list(r) if isinstance(r, tuple) else [r]
                    if not all(rs):
                        t.violation("handler spec of %s: Core's resulting stack %s does not satisfy ensures_%s" % (name, [x.hex() for x in out], nm),
                                    repr({'stack': [x.hex() for x in vm.stack], 'flags': vm.flags}), finding_key="handler-spec-vs-core-" + name)
    return t.result()
