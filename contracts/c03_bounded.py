"""C03 (Tier B, bounded): pycoin's script evaluation against an independent transcription of Bitcoin Core's pre-taproot
interpreter (/verif/spec/consensus_script.py).

  C03.vectors   the spec itself is validated against Core's own vectors (script_tests.json, tx_valid.json,
                tx_invalid.json) with two signature checkers (pycoin's sighash+ECDSA, and the spec's own), then
                pycoin's verdict is compared with the spec's on every vector.
  C03.opcodes   single-script differential sweep: 256 opcodes x operand classes x stack depths x executed /
                unexecuted x flag sets, push encodings, conditionals, limits, signature opcodes.
  C03.pipeline  generated spends (bare, P2SH, P2WPKH, P2WSH, P2SH-wrapped witness, unknown witness versions) with
                real signatures and their malleations: Tx.check_solution versus spec.verify_script.

The oracle is the spec (Core's rules), never pycoin.  A pycoin/spec disagreement is reported once per defect class
(stable finding_key) with the smallest reproducer seen and the number of cases that hit it.
"""
import hashlib
import itertools
import json
import os
import random

from pyvc.bounded import bounded, Tally

import spec.consensus_script as cs

from pycoin.symbols.btc import network
from pycoin.coins.SolutionChecker import ScriptError
from pycoin.satoshi import der as _pycoin_der
from pycoin.encoding.sec import sec_to_public_pair as _pycoin_sec_to_public_pair
from pycoin.ecdsa.secp256k1 import secp256k1_generator as _pycoin_G

Tx = network.tx
PYCOIN_VM = Tx.SolutionChecker.VM          # pycoin.coins.bitcoin.VM.BitcoinVM
DATA_DIR = "/repo/tests/btc/data"


# ------------------------------------------------------------------------------------------------------------------
# drivers
# ------------------------------------------------------------------------------------------------------------------
class _Ctx(object):
    """what BitcoinVM reads from its tx_context during single-script evaluation"""

    def __init__(self, sequence=0xffffffff, lock_time=0, version=1):
        self.sequence = sequence
        self.lock_time = lock_time
        self.version = version


def pycoin_eval(script, stack, flags, sighash_f=None, ctx=None):
    """BitcoinVM(script, ...).eval_script() -> ('ok', stack) | ('fail', args) | ('crash', repr)"""
    vm = PYCOIN_VM(script, ctx or _Ctx(), sighash_f or (lambda *a: 1), flags, initial_stack=list(stack))
    try:
        return "ok", [bytes(x) for x in vm.eval_script()]
    except ScriptError as e:
        return "fail", e.args
    except RecursionError:
        raise
    except Exception as e:          # anything else escapes Tx.is_solution_ok / bad_solution_count
        return "crash", "%s: %s" % (type(e).__name__, e)


def pycoin_check(tx, idx, flags):
    try:
        tx.check_solution(idx, flags=flags)
        return "ok", None
    except ScriptError as e:
        return "fail", e.args
    except RecursionError:
        raise
    except Exception as e:
        return "crash", "%s: %s" % (type(e).__name__, e)


class Findings(object):
    """one violation per finding_key: keeps the smallest reproducer and counts the hits"""

    def __init__(self, tally):
        self.t = tally
        self.by_key = {}

    def add(self, key, what, inputs, repro, size):
        e = self.by_key.get(key)
        if e is None:
            self.by_key[key] = [1, size, what, inputs, repro]
        else:
            e[0] += 1
            if size < e[1]:
                e[1:] = [size, what, inputs, repro]

    def flush(self):
        for key in sorted(self.by_key):
            n, _, what, inputs, repro = self.by_key[key]
            # (Tally.violation keeps at most 20; findings are already one per key, keep them all)
            self.t.violations.append({'what': "%s  [%d case(s)]" % (what, n), 'inputs': inputs if len(inputs) <= 900 else inputs[:900] + "...",
                                      'repro': repro, 'key': key})


def _hx(b):
    return bytes(b).hex()


def _short(b, n=24):
    b = bytes(b)
    return b.hex() if len(b) <= n else "%s..(%dB)" % (b[:8].hex(), len(b))


def _stk(stack, n=8):
    stack = list(stack)
    if len(stack) <= n:
        return "[%s]" % ", ".join(_short(x) for x in stack)
    return "[%s, ... %d items total ..., %s]" % (", ".join(_short(x) for x in stack[:3]), len(stack), ", ".join(_short(x) for x in stack[-3:]))


def _flag_names(flags):
    return ",".join(k for k, v in cs.FLAG_NAMES.items() if flags & v) or "NONE"


# ------------------------------------------------------------------------------------------------------------------
# C03.vectors
# ------------------------------------------------------------------------------------------------------------------
class PycoinSigChecker(cs.BaseChecker):
    """signature checker for the SPEC built from pycoin's own signature hash and ECDSA -- used only to validate the
    spec against Core's vectors (which need real signature checks)"""

    def __init__(self, tx, idx):
        self.sc = tx.SolutionChecker(tx)
        self.tx = tx
        self.idx = idx

    def checksig(self, sig, pubkey, script_code, sigversion):
        if not sig:
            return False
        try:
            rs = _pycoin_der.sigdecode_der(sig[:-1], use_broken_open_ssl_mechanism=True)
            pp = _pycoin_sec_to_public_pair(pubkey, _pycoin_G, strict=False)
        except Exception:
            return False
        if sigversion == cs.SIGVERSION_WITNESS_V0:
            z = self.sc._signature_for_hash_type_segwit(script_code, self.idx, sig[-1])
        else:
            z = self.sc._signature_hash(script_code, self.idx, sig[-1])
        try:
            return bool(_pycoin_G.verify(pp, z, rs))
        except Exception:
            return False

    # lock-time predicates are plain field comparisons; take them from the spec's checker on the same fields
    def _spec_tx(self):
        t = self.tx
        return cs.SpecTx(t.version, [cs.SpecTxIn(i.previous_hash, i.previous_index, i.script, i.sequence) for i in t.txs_in],
                         [], t.lock_time)

    def check_lock_time(self, n):
        return cs.TransactionChecker(self._spec_tx(), self.idx).check_lock_time(n)

    def check_sequence(self, n):
        return cs.TransactionChecker(self._spec_tx(), self.idx).check_sequence(n)


def _pycoin_credit_spend(script_sig, script_pubkey, witness, amount, version=1, lock_time=0, sequence=0xffffffff):
    """the crediting/spending pair of Core's script_tests.cpp, as pycoin objects (as tests/btc/vm_script_test.py)"""
    credit = Tx(1, [Tx.TxIn(b"\0" * 32, 4294967295, b"\0\0", sequence=4294967295)], [Tx.TxOut(amount, script_pubkey)])
    spend = Tx(version, [Tx.TxIn(credit.hash(), 0, script_sig, sequence=sequence)], [Tx.TxOut(amount, b"")],
               lock_time=lock_time, unspents=credit.tx_outs_as_spendable())
    spend.txs_in[0].witness = list(witness)
    return spend


def _check_transaction(stx):
    """Core's context-free CheckTransaction (tx_invalid.json also holds transactions that fail only here)"""
    if not stx.txs_in or not stx.txs_out:
        return False
    total = 0
    for o in stx.txs_out:
        v = o.value if o.value < (1 << 63) else o.value - (1 << 64)
        if v < 0 or v > 21000000 * 100000000:
            return False
        total += v
        if total > 21000000 * 100000000:
            return False
    outs = [(i.prev_hash, i.prev_index) for i in stx.txs_in]
    if len(set(outs)) != len(outs):
        return False
    null = (b"\0" * 32, 0xffffffff)
    if len(stx.txs_in) == 1 and outs[0] == null:
        if not 2 <= len(stx.txs_in[0].script_sig) <= 100:
            return False
    elif null in outs:
        return False
    return True


@bounded("C03.vectors", props=["C03"],
         bound="all 1205 script_tests.json entries + every input of the 120 tx_valid.json / 80 tx_invalid.json transactions")
def c03_vectors(opts):
    t = Tally(rule="one case per Core vector (script_tests.json entry, or input of a tx_valid/tx_invalid transaction); "
                   "checked: spec(pycoin sighash+ECDSA)==Core, spec(own sighash+ECDSA)==Core, pycoin==spec")
    F = Findings(t)
    stats = {"script_tests": 0, "spec_pycoinchecker_agree_exact_error": 0, "spec_ownchecker_agree_exact_error": 0,
             "spec_verdict_agree": 0, "pycoin_agree": 0, "tx_inputs": 0, "tx_valid_ok": 0, "tx_invalid_rejected": 0}
    vectors = json.load(open(os.path.join(DATA_DIR, "script_tests.json")))
    for idx, v in enumerate(vectors):
        if len(v) < 4:
            continue
        witness, amount = [], 0
        if isinstance(v[0], list):
            witness = [bytes.fromhex(x) for x in v[0][:-1]]
            amount = int(round(v[0][-1] * 1e8))
            v = v[1:]
        script_sig, script_pubkey = cs.parse_script(v[0]), cs.parse_script(v[1])
        # script_tests.cpp DoTest: CLEANSTACK implies P2SH and WITNESS
        flags = cs.flags_closure(cs.flags_to_int(v[2]))
        expected = v[3]
        stats["script_tests"] += 1
        spend = _pycoin_credit_spend(script_sig, script_pubkey, witness, amount)
        ok1, err1 = cs.verify_script(script_sig, script_pubkey, witness, flags, PycoinSigChecker(spend, 0))
        credit = cs.build_crediting_tx(script_pubkey, amount)
        stx = cs.build_spending_tx(script_sig, witness, credit)
        ok2, err2 = cs.verify_script(script_sig, script_pubkey, witness, flags, cs.TransactionChecker(stx, 0, amount))
        stats["spec_pycoinchecker_agree_exact_error"] += err1 == expected
        stats["spec_ownchecker_agree_exact_error"] += err2 == expected
        t.case(key=("script_tests", idx), nontrivial=True, sample={"vector": v[:4]})
        desc = "script_tests.json[%d] %r" % (idx, v[:4])
        if ok1 != (expected == "OK") or ok2 != (expected == "OK"):
            F.add("SPEC-DISAGREES-WITH-CORE-VECTOR", "the SPEC (not pycoin) disagrees with a Core vector: spec bug",
                  "%s spec=%s/%s" % (desc, err1, err2), None, idx)
            continue
        stats["spec_verdict_agree"] += 1
        pk, pd = pycoin_check(spend, 0, flags)
        if (pk == "ok") == ok1:
            stats["pycoin_agree"] += 1
        else:
            F.add("vector:script_tests:%d" % idx, "pycoin verdict differs from Core vector", "%s pycoin=%s %r" % (desc, pk, pd),
                  None, idx)

    for fn, valid in (("tx_valid.json", True), ("tx_invalid.json", False)):
        for vi, v in enumerate(json.load(open(os.path.join(DATA_DIR, fn)))):
            if len(v) == 1:
                continue
            prevouts, tx_hex, flag_s = v
            flags = cs.flags_to_int(flag_s)
            stx = cs.SpecTx.parse(bytes.fromhex(tx_hex))
            db = {}
            for p in prevouts:
                db[(bytes.fromhex(p[0])[::-1], p[1] & 0xffffffff)] = (cs.parse_script(p[2]), p[3] if len(p) == 4 else 0)
            ptx = Tx.from_hex(tx_hex)
            unspents = []
            for ti in ptx.txs_in:
                e = db.get((ti.previous_hash, ti.previous_index))
                unspents.append(Tx.Spendable(e[1], e[0], ti.previous_hash, ti.previous_index) if e
                                else Tx.Spendable(0, b"", b"\0" * 32, 0))
            ptx.set_unspents(unspents)
            all_ok = _check_transaction(stx)
            for i, ti in enumerate(stx.txs_in):
                e = db.get((ti.prev_hash, ti.prev_index))
                if e is None:
                    all_ok = False
                    continue
                stats["tx_inputs"] += 1
                ok, err = cs.verify_script(ti.script_sig, e[0], ti.witness, flags, cs.TransactionChecker(stx, i, e[1]))
                ok_b, err_b = cs.verify_script(ti.script_sig, e[0], ti.witness, flags, PycoinSigChecker(ptx, i))
                t.case(key=(fn, vi, i), nontrivial=True)
                if ok != ok_b:
                    F.add("SPEC-CHECKERS-DISAGREE", "spec verdict depends on the signature checker (own vs pycoin sighash/ECDSA)",
                          "%s[%d] input %d: own=%s pycoin-checker=%s" % (fn, vi, i, err, err_b), None, vi)
                pk, pd = pycoin_check(ptx, i, flags)
                if (pk == "ok") != ok:
                    F.add("vector:%s:%d:%d" % (fn, vi, i), "pycoin verdict differs from spec on a Core transaction vector",
                          "%s[%d] input %d flags=%s spec=%s pycoin=%s %r" % (fn, vi, i, flag_s, err, pk, pd), None, vi)
                all_ok = all_ok and ok
            if valid:
                stats["tx_valid_ok"] += all_ok
            else:
                stats["tx_invalid_rejected"] += not all_ok
            if all_ok != valid:
                F.add("SPEC-DISAGREES-WITH-CORE-VECTOR", "the SPEC (not pycoin) disagrees with a Core vector: spec bug",
                      "%s[%d] %s.. expected %s" % (fn, vi, tx_hex[:40], "valid" if valid else "invalid"), None, 10000 + vi)
    F.flush()
    t.exhaustive = True
    r = t.result()
    r["stats"] = stats
    return r


# ------------------------------------------------------------------------------------------------------------------
# C03.opcodes -- single-script differential sweep
# ------------------------------------------------------------------------------------------------------------------
def _closure(f):
    return cs.flags_closure(f)


def flag_sets():
    """none, each pycoin-defined flag alone (plus the flags Core requires with it), Core's STANDARD set, and three
    combinations that make MINIMALDATA / DISCOURAGE_UPGRADABLE_NOPS meet CLTV / CSV"""
    out = [("NONE", 0)]
    for name, bit in cs.FLAG_NAMES.items():
        out.append((name, _closure(bit)))
    out.append(("STANDARD", cs.STANDARD_FLAGS))
    out.append(("MINIMALDATA+CLTV+CSV", cs.F_MINIMALDATA | cs.F_CHECKLOCKTIMEVERIFY | cs.F_CHECKSEQUENCEVERIFY))
    out.append(("CLTV+CSV", cs.F_CHECKLOCKTIMEVERIFY | cs.F_CHECKSEQUENCEVERIFY))
    out.append(("NOPS+CLTV+CSV", cs.F_DISCOURAGE_UPGRADABLE_NOPS | cs.F_CHECKLOCKTIMEVERIFY | cs.F_CHECKSEQUENCEVERIFY))
    return out


# flag sets that can influence EvalScript according to the SPEC (the others are still swept, on fewer stacks)
_EVAL_BITS = (cs.F_MINIMALDATA | cs.F_DISCOURAGE_UPGRADABLE_NOPS | cs.F_CHECKLOCKTIMEVERIFY | cs.F_CHECKSEQUENCEVERIFY |
              cs.F_MINIMALIF | cs.F_STRICTENC | cs.F_DERSIG | cs.F_LOW_S | cs.F_NULLDUMMY | cs.F_NULLFAIL |
              cs.F_WITNESS_PUBKEYTYPE)
_WITNESS_ONLY_BITS = cs.F_MINIMALIF | cs.F_WITNESS_PUBKEYTYPE


def modes_for(flags):
    """(sigversion, flags handed to pycoin's VM).  pycoin's VM has no sigversion: its callers (SolutionChecker) strip
    MINIMALIF and WITNESS_PUBKEYTYPE from the flags of non-witness scripts; the harness does the same."""
    out = [(cs.SIGVERSION_BASE, flags & ~_WITNESS_ONLY_BITS)]
    if flags & _WITNESS_ONLY_BITS:
        out.append((cs.SIGVERSION_WITNESS_V0, flags))
    return out


def _n(v):
    return cs.scriptnum_encode(v)


# operand classes: empty, 00, 80 (negative zero), 1..5-byte numbers minimal and non-minimal, negative zero of several
# widths, 6 bytes, 520/521-byte items
VALS = [b"", b"\x00", b"\x80", b"\x01", b"\x81", b"\x02", b"\x03", b"\x04", b"\x05", b"\x06", b"\x64", b"\x65", b"\x10", b"\x11", b"\x7f", b"\xff",
        _n(128), _n(32767), _n(255), _n(-255), b"\x01\x00", b"\x00\x80", b"\x00\x00",
        _n(65536), b"\x01\x00\x00",
        _n(2 ** 31 - 1), _n(-(2 ** 31 - 1)), b"\x02\x00\x00\x00", b"\x00\x00\x00\x80",
        _n(2 ** 31), _n(2 ** 39 - 1), _n(-(2 ** 31)), b"\x01\x00\x00\x00\x00", b"\x00\x00\x00\x00\x00", b"\x00\x00\x00\x00\x80",
        b"\x01\x00\x00\x00\x00\x00",
        b"\x00" * 520, b"\x01" + b"\x00" * 519, b"\x00" * 521, b"\x2a" * 521]
assert len(set(VALS)) == len(VALS)
V3 = [b"", b"\x00", b"\x80", b"\x01", b"\x02", b"\x03", b"\x81", b"\x01\x00", _n(2 ** 31 - 1), _n(-(2 ** 31 - 1)),
      _n(2 ** 31), b"\x01\x00\x00\x00\x00", b"\x00\x00\x00\x00\x00", b"\x00" * 521]
VSMALL = [b"", b"\x00", b"\x80", b"\x01", b"\x02", b"\x01\x00", _n(2 ** 31), b"\x01\x00\x00\x00\x00", b"\x00" * 520, b"\x00" * 521]
FILL = [b"\xa0", b"\xa1", b"\xa2", b"\xa3", b"\xa4", b"\xa5", b"\xa6", b"\xa7"]      # distinct, true, not numbers 0..16


def gen_stacks():
    """generic stacks: depth 0..7 of distinct fillers; every operand class on top at depth 1..4; pairs at depth 2, 3"""
    out = [tuple(FILL[:d]) for d in range(8)]
    for d in range(1, 5):
        for v in VALS:
            out.append(tuple(FILL[:d - 1]) + (v,))
    for a in VSMALL:
        for b in VSMALL:
            out.append((a, b))
            out.append((FILL[0], a, b))
    return list(dict.fromkeys(out))


def gen_small_stacks():
    out = [tuple(FILL[:d]) for d in range(5)]
    for d in range(1, 4):
        for v in (b"", b"\x01", b"\x01\x00", _n(2 ** 31)):
            out.append(tuple(FILL[:d - 1]) + (v,))
    return list(dict.fromkeys(out))


UNARY_NUM = [cs.OP_1ADD, cs.OP_1SUB, cs.OP_2MUL, cs.OP_2DIV, cs.OP_NEGATE, cs.OP_ABS, cs.OP_NOT, cs.OP_0NOTEQUAL]
BINARY_NUM = [cs.OP_ADD, cs.OP_SUB, cs.OP_MUL, cs.OP_DIV, cs.OP_MOD, cs.OP_LSHIFT, cs.OP_RSHIFT, cs.OP_BOOLAND, cs.OP_BOOLOR,
              cs.OP_NUMEQUAL, cs.OP_NUMEQUALVERIFY, cs.OP_NUMNOTEQUAL, cs.OP_LESSTHAN, cs.OP_GREATERTHAN,
              cs.OP_LESSTHANOREQUAL, cs.OP_GREATERTHANOREQUAL, cs.OP_MIN, cs.OP_MAX,
              cs.OP_EQUAL, cs.OP_EQUALVERIFY, cs.OP_PICK, cs.OP_ROLL, cs.OP_CAT, cs.OP_SWAP, cs.OP_IF, cs.OP_NOTIF]


def op_bytes(op):
    """the opcode plus, for push opcodes, a payload that makes it a well-formed minimal push"""
    if 1 <= op <= 75:
        return bytes([op]) + b"\x2a" * op
    if op == cs.OP_PUSHDATA1:
        return bytes([op, 76]) + b"\x2a" * 76
    if op == cs.OP_PUSHDATA2:
        return bytes([op]) + (300).to_bytes(2, "little") + b"\x2a" * 300
    if op == cs.OP_PUSHDATA4:
        return bytes([op]) + (5).to_bytes(4, "little") + b"\x2a" * 5
    return bytes([op])


def opname(op):
    return cs.OPCODE_NAMES.get(op, "0x%02x" % op)


def synth_z(script_code, hash_type):
    """synthetic signature hash shared by both sides of the single-script sweep: commits to the script code (hence to
    the OP_CODESEPARATOR position) and to the hash type byte"""
    return int.from_bytes(hashlib.sha256(b"C03-synth" + bytes([hash_type & 0xff]) + bytes(script_code)).digest(), "big")


def pycoin_synth_sighash_f(hash_type, sig_blobs, vm):
    return synth_z(vm.script[vm.begin_code_hash:], hash_type)


class SynthChecker(cs.TransactionChecker):
    """spec-side checker of the sweep: own pubkey / lax-DER parsing and own ECDSA over synth_z; lock-time predicates
    from the spec's TransactionChecker over the same (sequence, lock_time, version) pycoin sees"""
    _vcache = {}

    def __init__(self, ctx):
        tx = cs.SpecTx(ctx.version, [cs.SpecTxIn(b"\0" * 32, 0, b"", ctx.sequence)], [], ctx.lock_time)
        cs.TransactionChecker.__init__(self, tx, 0, 0)

    def checksig(self, sig, pubkey, script_code, sigversion):
        if len(sig) == 0:
            return False
        key = (sig, pubkey, script_code)
        r = self._vcache.get(key)
        if r is None:
            point = cs.parse_pubkey(pubkey)
            rs = cs.parse_der_lax(sig[:-1])
            r = bool(point is not None and rs is not None and
                     cs.ecdsa_verify(point, synth_z(script_code, sig[-1]), rs[0], rs[1]))
            self._vcache[key] = r
        return r


CTX_DEFAULT = _Ctx()
CTX_LOCKED = _Ctx(sequence=5, lock_time=100, version=2)      # VALS holds 4,5,6 and 100,101: both sides of each comparison
CHK_DEFAULT = SynthChecker(CTX_DEFAULT)
CHK_LOCKED = SynthChecker(CTX_LOCKED)


def classify(meta, script, stack, flags, sigversion, s_ok, s_err, s_stack, p_kind, p_data):
    """stable finding key for a pycoin/spec disagreement.  Known defect classes get their own key; anything else gets
    an 'unclassified:' key that still names the opcode and the direction."""
    op = meta.get("op")
    name = opname(op) if op is not None else meta.get("cat", "?")
    md = bool(flags & cs.F_MINIMALDATA)
    top = stack[-1] if stack else b""
    cat = meta.get("cat")
    if p_kind == "crash":
        exc = p_data.split(":")[0]
        if op in (cs.OP_CHECKSIG, cs.OP_CHECKSIGVERIFY, cs.OP_CHECKMULTISIG, cs.OP_CHECKMULTISIGVERIFY) or cat == "sig":
            return "crash-%s-in-signature-der-parsing" % exc
        return "crash-%s:%s" % (exc, name)
    p_ok = p_kind == "ok"
    if cat == "push":
        if s_ok and not p_ok and md and meta.get("push_op") == cs.OP_PUSHDATA2 and meta.get("declared") == 256:
            return "pushdata2-256-bytes-flagged-non-minimal"
        if not s_ok and p_ok and meta.get("short_length_bytes"):
            return "truncated-pushdata-length-accepted-as-empty-push"
    if cat == "limits" and s_ok and not p_ok and len(stack) > cs.MAX_STACK_SIZE:
        return "initial-stack-over-1000-rejected-before-first-opcode"
    sigops = (cs.OP_CHECKSIG, cs.OP_CHECKSIGVERIFY, cs.OP_CHECKMULTISIG, cs.OP_CHECKMULTISIGVERIFY)
    if op in sigops:
        sk, kk = meta.get("sig_kinds", ()), meta.get("key_kinds", ())
        if not s_ok and p_ok and s_err in ("PUBKEYTYPE", "WITNESS_PUBKEYTYPE"):
            return "pubkey-encoding-not-checked-when-signature-empty-or-unparsable"
        if flags & cs.F_LOW_S and not s_ok and s_err == "SIG_HIGH_S" and p_ok:
            return "low_s-compares-s-with-field-prime-instead-of-half-order"
        if flags & cs.F_LOW_S and s_ok and not p_ok and "overflow_s" in sk:
            return "low_s-rejects-s-not-below-order-which-core-treats-as-zero"
        if p_ok and (not s_ok or s_stack != p_data):
            # pycoin's signature check said 'valid' where Core's says 'invalid'
            if "bad05" in kk:
                return "pubkey-33-bytes-with-invalid-prefix-byte-accepted-as-compressed-key"
            if "hybrid_wrong_parity" in kk:
                return "pubkey-hybrid-parity-byte-not-checked"
    if op == cs.OP_0NOTEQUAL:
        if s_ok and not p_ok and md:
            return "op_0notequal-always-fails-under-minimaldata"
        if not s_ok and p_ok and s_err == "UNKNOWN_ERROR":
            return "op_0notequal-operand-over-4-bytes-accepted"
    if op == cs.OP_IFDUP and s_ok and p_ok:
        return "op_ifdup-duplicates-nonempty-false-value"
    if op == cs.OP_WITHIN and not s_ok and p_ok and any(len(x) > 4 for x in stack[-3:]):
        return "op_within-operand-over-4-bytes-accepted"
    if op in (cs.OP_PICK, cs.OP_ROLL) and not s_ok and p_ok and len(top) > 4:
        return "op_pick-roll-operand-over-4-bytes-accepted"
    if op in (cs.OP_CHECKMULTISIG, cs.OP_CHECKMULTISIGVERIFY) and not s_ok and p_ok and s_err == "UNKNOWN_ERROR":
        return "op_checkmultisig-count-over-4-bytes-accepted"
    if op in (cs.OP_CHECKLOCKTIMEVERIFY, cs.OP_CHECKSEQUENCEVERIFY) and s_ok and p_ok:
        return "cltv-csv-rewrite-operand-on-stack"
    direction = "spec-%s-pycoin-%s" % ("ok" if s_ok else "fail:" + s_err, "ok-stack-differs" if (p_ok and s_ok) else p_kind)
    return "unclassified:%s:%s:%s" % (cat, name, direction)


class Sweep(object):
    def __init__(self, t):
        self.t = t
        self.F = Findings(t)
        self.n = 0
        self.n_spec_ok = 0
        self.n_by_cat = {}

    def run(self, meta, script, stack, flags, sigversion, pflags, ctx=CTX_DEFAULT, chk=CHK_DEFAULT):
        self.n += 1
        cat = meta["cat"]
        self.n_by_cat[cat] = self.n_by_cat.get(cat, 0) + 1
        s_ok, s_err, s_stack = cs.eval_script(stack, script, flags, chk, sigversion)
        p_kind, p_data = pycoin_eval(script, stack, pflags, pycoin_synth_sighash_f, ctx)
        self.n_spec_ok += s_ok
        if self.n <= 3:
            self.t.samples.append({"script": _short(script), "stack": [_short(x) for x in stack], "flags": _flag_names(flags),
                                   "spec": s_err, "pycoin": p_kind})
        if (p_kind == "ok") == s_ok and (not s_ok or p_data == s_stack):
            return True
        key = classify(meta, script, stack, flags, sigversion, s_ok, s_err, s_stack, p_kind, p_data)
        what = "single-script evaluation: spec(Core)=%s%s, pycoin=%s%s" % (
            s_err, " stack=%s" % _stk(s_stack) if s_ok else "", p_kind,
            " stack=%s" % _stk(p_data) if p_kind == "ok" else " %r" % (p_data,))
        inputs = "script=%s (%s) stack=%s flags=%s sigversion=%s ctx=(seq=%#x,locktime=%d,version=%d)" % (
            _short(script, 40), meta.get("desc", ""), _stk(stack), _flag_names(flags),
            "WITNESS_V0" if sigversion else "BASE", ctx.sequence, ctx.lock_time, ctx.version)
        repro = None
        if len(script) <= 600 and sum(len(x) for x in stack) <= 1200:
            repro = ("import sys, hashlib; sys.path.insert(0,'/repo')\n"
                     "from pycoin.coins.bitcoin.VM import BitcoinVM\n"
                     "class C: sequence=%d; lock_time=%d; version=%d\n"
                     "sighash = lambda ht, blobs, vm: int.from_bytes(hashlib.sha256(b'C03-synth' + bytes([ht & 255]) + vm.script[vm.begin_code_hash:]).digest(), 'big')\n"
                     "vm = BitcoinVM(bytes.fromhex('%s'), C(), sighash, %d, initial_stack=[bytes.fromhex(x) for x in %r])\n"
                     "print(vm.eval_script())   # Core: %s%s"
                     % (ctx.sequence, ctx.lock_time, ctx.version, _hx(script), pflags, [_hx(x) for x in stack], s_err,
                        " with stack %r" % [_hx(x) for x in s_stack] if s_ok else ""))
        self.F.add(key, what, inputs, repro, len(script) + sum(len(x) + 1 for x in stack) + bin(flags).count("1"))
        return False

    def run_all_modes(self, meta, script, stack, flags, ctx=CTX_DEFAULT, chk=CHK_DEFAULT):
        for sigversion, pflags in modes_for(flags):
            self.run(meta, script, stack, flags, sigversion, pflags, ctx, chk)


def _wrap_forms(body):
    """(description, script, executed?) -- the op inside executed and unexecuted branches"""
    return [("bare", body, True),
            ("1 IF <op> ENDIF", b"\x51\x63" + body + b"\x68", True),
            ("0 IF <op> ENDIF", b"\x00\x63" + body + b"\x68", False),
            ("1 IF ELSE <op> ENDIF", b"\x51\x63\x67" + body + b"\x68", False),
            ("0 IF 1 IF <op> ENDIF ENDIF", b"\x00\x63\x51\x63" + body + b"\x68\x68", False)]


def sweep_generic(sw, tier, rng):
    fsets = flag_sets()
    primary = ("NONE", "MINIMALDATA", "STANDARD")
    stacks = gen_stacks()
    small = gen_small_stacks()
    tiny = [tuple(FILL[:d]) for d in range(5)] + [(FILL[0], b"")]
    for op in range(256):
        body = op_bytes(op)
        forms = _wrap_forms(body)
        is_lock = op in (cs.OP_CHECKLOCKTIMEVERIFY, cs.OP_CHECKSEQUENCEVERIFY)
        for fname, flags in fsets:
            full = tier == "thorough" or fname in primary or (is_lock and flags & (cs.F_CHECKLOCKTIMEVERIFY | cs.F_CHECKSEQUENCEVERIFY))
            for desc, script, executed in forms:
                if desc == "bare":
                    sts = stacks if full else small
                elif tier == "quick":
                    sts = tiny
                elif executed:
                    sts = stacks if flags & _EVAL_BITS or fname == "NONE" else small
                else:
                    sts = small
                meta = {"cat": "generic", "op": op, "desc": "%s, %s" % (opname(op), desc)}
                for st in sts:
                    sw.run_all_modes(meta, script, st, flags)
                    if is_lock and executed:
                        sw.run_all_modes(meta, script, st, flags, CTX_LOCKED, CHK_LOCKED)


def sweep_numeric(sw, tier, rng):
    fsets = flag_sets()
    rel = [f for f in fsets if f[0] in ("NONE", "MINIMALDATA", "STANDARD")] if tier == "quick" else fsets
    pairs = [(a, b) for a in VALS for b in VALS]
    for op in BINARY_NUM:
        meta = {"cat": "numeric2", "op": op, "desc": opname(op)}
        for fname, flags in rel:
            ps = pairs if (tier == "thorough" and flags & _EVAL_BITS) or fname in ("NONE", "MINIMALDATA") else rng.sample(pairs, 200)
            for a, b in ps:
                sw.run_all_modes(meta, bytes([op]), (FILL[0], FILL[1], a, b), flags)
    triples = [(a, b, c) for a in V3 for b in V3 for c in V3]
    for op in [cs.OP_WITHIN] + ([cs.OP_ROT, cs.OP_3DUP, cs.OP_CHECKMULTISIG, cs.OP_CHECKMULTISIGVERIFY] if tier == "thorough" else []):
        meta = {"cat": "numeric3", "op": op, "desc": opname(op)}
        for fname, flags in rel:
            ts = triples if fname in ("NONE", "MINIMALDATA") or tier == "thorough" and flags & _EVAL_BITS else rng.sample(triples, 200)
            for tr in ts:
                sw.run_all_modes(meta, bytes([op]), (FILL[0],) + tr, flags)
    # unary numeric with every operand class and a result check through a following opcode (re-use as operand)
    for op in UNARY_NUM:
        meta = {"cat": "numeric1", "op": op, "desc": opname(op) + " then 1ADD"}
        for fname, flags in rel:
            for v in VALS:
                sw.run_all_modes(meta, bytes([op, cs.OP_1ADD]), (v,), flags)
    # 5-byte results are legal as results but not as operands: (2^31-1)+(2^31-1), then used again
    for a in (_n(2 ** 31 - 1), _n(-(2 ** 31 - 1)), _n(1)):
        for b in (_n(2 ** 31 - 1), _n(-(2 ** 31 - 1)), _n(1)):
            for tail in (b"", bytes([cs.OP_1ADD]), bytes([cs.OP_DUP, cs.OP_ADD]), bytes([cs.OP_0NOTEQUAL]), bytes([cs.OP_NOT]),
                         bytes([cs.OP_SIZE])):
                for op in (cs.OP_ADD, cs.OP_SUB):
                    for fname, flags in rel:
                        sw.run_all_modes({"cat": "numeric-overflow", "op": tail[-1] if tail else op, "desc": "%s + tail %s" % (opname(op), tail.hex())},
                                         bytes([op]) + tail, (a, b), flags)


def sweep_push(sw, tier, rng):
    fsets = [f for f in flag_sets() if f[0] in ("NONE", "MINIMALDATA", "STANDARD", "P2SH", "SIGPUSHONLY")]
    cases = []      # (push_op, declared, script_bytes, short_length_bytes)
    one_byte = [0x00, 0x01, 0x02, 0x10, 0x11, 0x7f, 0x80, 0x81, 0xff]
    for n in (1, 2, 5, 16, 17, 74, 75):
        pays = [bytes([v]) for v in one_byte] if n == 1 else [b"\x2a" * n, b"\x00" * n]
        for p in pays:
            cases.append((n, n, bytes([n]) + p, False))
        cases.append((n, n, bytes([n]) + b"\x2a" * (n - 1), False))            # payload one byte short
        cases.append((n, n, bytes([n]), False))                                  # no payload at all
    for width, op, lens in ((1, cs.OP_PUSHDATA1, (0, 1, 2, 75, 76, 255)),
                            (2, cs.OP_PUSHDATA2, (0, 1, 75, 76, 255, 256, 257, 300, 519, 520, 521, 65535)),
                            (4, cs.OP_PUSHDATA4, (0, 1, 76, 255, 256, 520, 521, 65535, 65536, 0xffffffff))):
        for L in lens:
            lb = L.to_bytes(width, "little")
            if L <= 9000:
                pays = [bytes([v]) for v in one_byte] if L == 1 else [b"\x2a" * L]
                for p in pays:
                    cases.append((op, L, bytes([op]) + lb + p, False))
                if L > 0:
                    cases.append((op, L, bytes([op]) + lb + b"\x2a" * (L - 1), False))
            else:
                cases.append((op, L, bytes([op]) + lb + b"\x2a" * 40, False))  # hopelessly short payload
                if L <= 70000:
                    cases.append((op, L, bytes([op]) + lb + b"\x2a" * L, False))   # complete, but script > 10000 bytes
        for have in range(width):                                                   # 0 .. width-1 length bytes present
            for lb in ([b""] if have == 0 else [b"\x00" * have, b"\x51" * have, b"\x01" * have]):
                cases.append((op, None, bytes([op]) + lb, True))
    tails = [b"", b"\x51", b"\x00", b"\x51\x51", b"\x75\x51"]
    for push_op, declared, body, short in cases:
        for tail in tails:
            if len(body) > 9000 and tail:
                continue
            for desc, script, executed in _wrap_forms(body + tail)[:3] if not short else [("bare", body + tail, True), ("1 <op>", b"\x51" + body + tail, True)]:
                meta = {"cat": "push", "push_op": push_op, "declared": declared, "short_length_bytes": short, "op": push_op,
                        "desc": "%s declared=%s have=%d tail=%s %s" % (opname(push_op) if push_op > 75 else "PUSH%d" % push_op, declared,
                                                                         len(body), tail.hex(), desc)}
                for fname, flags in fsets:
                    sw.run_all_modes(meta, script, (), flags)


def sweep_conditionals(sw, tier, rng):
    alphabet = [0x00, 0x51, 0x52, cs.OP_IF, cs.OP_NOTIF, cs.OP_ELSE, cs.OP_ENDIF]
    maxlen = 5 if tier == "quick" else 6
    base_flags = [0, cs.F_MINIMALIF | cs.F_P2SH | cs.F_WITNESS]
    for L in range(0, maxlen + 1):
        for seq in itertools.product(alphabet, repeat=L):
            script = bytes(seq)
            meta = {"cat": "conditional", "desc": "all IF/NOTIF/ELSE/ENDIF programs"}
            for flags in base_flags:
                sw.run_all_modes(meta, script, (), flags)
    # condition operand classes for IF / NOTIF (MINIMALIF only bites under sigversion WITNESS_V0)
    for op in (cs.OP_IF, cs.OP_NOTIF):
        for v in VALS:
            for fname, flags in flag_sets():
                sw.run_all_modes({"cat": "conditional", "op": op, "desc": "%s 2 ELSE 3 ENDIF" % opname(op)},
                                 bytes([op, 0x52, cs.OP_ELSE, 0x53, cs.OP_ENDIF]), (FILL[0], v), flags)
    # deep nesting and VERIF/VERNOTIF/disabled/reserved opcodes at every nesting state
    specials = [cs.OP_VERIF, cs.OP_VERNOTIF, cs.OP_VER, cs.OP_RESERVED, cs.OP_RESERVED1, cs.OP_RESERVED2, cs.OP_CAT, cs.OP_2MUL,
                cs.OP_RETURN, cs.OP_CODESEPARATOR, 0xba, 0xff, cs.OP_NOP1, cs.OP_CHECKLOCKTIMEVERIFY]
    for depth in range(0, 5):
        for bits in itertools.product((0x00, 0x51), repeat=depth):
            pre = b"".join(bytes([b, cs.OP_IF]) for b in bits)
            post = bytes([cs.OP_ENDIF]) * depth
            for sp in specials:
                for mid in (bytes([sp]), bytes([cs.OP_ELSE, sp]), bytes([cs.OP_ELSE, cs.OP_ELSE, sp])):
                    if depth == 0 and mid[0] == cs.OP_ELSE:
                        continue
                    for flags in (0, cs.STANDARD_FLAGS):
                        sw.run_all_modes({"cat": "conditional", "op": sp, "desc": "%s at nesting %s" % (opname(sp), bits)},
                                         pre + mid + post + b"\x51", (), flags)


def sweep_limits(sw, tier, rng):
    M = {"cat": "limits"}
    nop = bytes([cs.OP_NOP])

    def go(desc, script, stack=(), flagsets=(0, cs.STANDARD_FLAGS & ~cs.F_DISCOURAGE_UPGRADABLE_NOPS)):
        for flags in flagsets:
            sw.run_all_modes(dict(M, desc=desc), script, stack, flags)

    for n in (199, 200, 201, 202):
        go("%d NOPs" % n, nop * n + b"\x51")
        go("%d NOPs unexecuted" % n, b"\x00\x63" + nop * (n - 2) + b"\x68\x51")
        go("%d invalid 0xba unexecuted" % n, b"\x00\x63" + b"\xba" * (n - 2) + b"\x68\x51")
        go("OP_RESERVED x%d unexecuted does not count" % n, b"\x00\x63" + b"\x50" * n + b"\x68\x51")
        go("%d pushes do not count" % n, b"\x51" * n)
        go("%d 1NEGATE do not count" % n, b"\x4f" * n)
    # CHECKMULTISIG adds the key count to the op count (also for 0 signatures)
    keys = tuple(b"\x02" + bytes([i + 1]) * 32 for i in range(20))
    for nkeys in (0, 1, 19, 20, 21):
        for nnop in (179, 180, 181, 182, 199, 200, 201):
            st = (b"", b"") + keys[:min(nkeys, 20)] + ((b"\x03" + b"\x07" * 32,) if nkeys == 21 else ()) + (_n(nkeys),)
            go("%d NOPs then 0-of-%d CHECKMULTISIG" % (nnop, nkeys), nop * nnop + bytes([cs.OP_CHECKMULTISIG]), st, (0,))
            go("0-of-%d CHECKMULTISIG then %d NOPs" % (nkeys, nnop), bytes([cs.OP_CHECKMULTISIG]) + nop * nnop, st, (0,))
    # stack + altstack <= 1000 after every opcode
    for n in (999, 1000, 1001):
        go("%d pushes" % n, b"\x51" * n)
        go("initial stack of %d, NOP" % n, nop, (b"\x01",) * n)
        go("initial stack of %d, 1" % n, b"\x51", (b"\x01",) * n)
        go("initial stack of %d, DROP" % n, bytes([cs.OP_DROP]), (b"\x01",) * n)
        go("initial stack of %d, 2DROP" % (n + 1), bytes([cs.OP_2DROP]), (b"\x01",) * (n + 1))
        go("initial stack of %d, DUP" % n, bytes([cs.OP_DUP]), (b"\x01",) * n)
        go("initial stack of %d, 3DUP DROP DROP DROP" % (n - 2), bytes([cs.OP_3DUP, cs.OP_DROP, cs.OP_DROP, cs.OP_DROP]), (b"\x01",) * (n - 2))
        go("initial stack %d, 150x TOALTSTACK then 1" % n, bytes([cs.OP_TOALTSTACK]) * 150 + b"\x51", (b"\x01",) * n)
        go("initial stack %d, 0 IF 1 ENDIF (unexecuted push)" % n, b"\x00\x63\x51\x68", (b"\x01",) * n)
    # script size 10000 / 10001 (pushes in an unexecuted branch so neither op count nor stack size interferes)
    unit = b"\x4b" + b"\x2a" * 75
    for total in (9999, 10000, 10001, 10002):
        fill_len = total - 4
        body = unit * (fill_len // 76)
        rest = fill_len - len(body)
        body += (bytes([rest - 1]) + b"\x2a" * (rest - 1)) if rest else b""
        script = b"\x00\x63" + body + b"\x68\x51"
        assert len(script) == total
        go("script of %d bytes" % total, script)
    # element size 520 / 521 produced by an executed and an unexecuted push, and present on the initial stack
    for L in (520, 521):
        p = bytes([cs.OP_PUSHDATA2]) + L.to_bytes(2, "little") + b"\x2a" * L
        go("push %d" % L, p)
        go("unexecuted push %d" % L, b"\x00\x63" + p + b"\x68\x51")
        for op in (cs.OP_DUP, cs.OP_SIZE, cs.OP_SHA256, cs.OP_DROP, cs.OP_NOP, cs.OP_VERIFY):
            go("%d-byte item on the initial stack, %s" % (L, opname(op)), bytes([op]), (b"\x01", b"\x2a" * L))


# ---- signature opcodes -------------------------------------------------------------------------------------------
_N = cs.SECP256K1_N
_SECRETS = [0x1111111111111111111111111111111111111111111111111111111111111111 % _N,
            0x2222222222222222222222222222222222222222222222222222222222222222 % _N,
            0x3333333333333333333333333333333333333333333333333333333333333333 % _N]
_POINTS = None


def _points():
    global _POINTS
    if _POINTS is None:
        while cs.ec_mul(_SECRETS[0])[1] & 1 == 0:      # key 0 must have an odd y (see make_key "bad05")
            _SECRETS[0] += 1
        _POINTS = [cs.ec_mul(d) for d in _SECRETS]
    return _POINTS


def _der_int(v, pad=None):
    b = v.to_bytes((v.bit_length() + 7) // 8 or 1, "big")
    if pad is None:
        pad = bool(b[0] & 0x80)
    if pad:
        b = b"\x00" + b
    return b"\x02" + bytes([len(b)]) + b


def _der(r, s, r_pad=None, s_pad=None):
    body = _der_int(r, r_pad) + _der_int(s, s_pad)
    return b"\x30" + bytes([len(body)]) + body


_SIG_CACHE = {}


def make_sig(kind, key_idx, code, ht=1):
    """signature blobs (DER + hash type byte) of the given kind for synth_z(code, ht)"""
    ck = (kind, key_idx, code, ht)
    if ck in _SIG_CACHE:
        return _SIG_CACHE[ck]
    d = _SECRETS[key_idx]
    k = 0x5555555555555555555555555555555555555555555555555555555555555555 % _N + key_idx + ht
    z = synth_z(code, ht)
    r, s = cs.ecdsa_sign(d, z, k)                       # low s
    if kind == "valid":
        out = _der(r, s)
    elif kind == "high_s":                              # n-s verifies as well (Core normalises); rejected only by LOW_S
        out = _der(r, _N - s)
    elif kind == "wrongcode":
        r2, s2 = cs.ecdsa_sign(d, synth_z(code + b"\x00", ht), k)
        out = _der(r2, s2)
    elif kind == "lax_padded":                          # superfluous 00 in front of R and S: not strict DER, lax-parsable
        out = _der(r, s, True, True) if not (r.to_bytes(32, "big")[0] & 0x80) else _der(r, s, None, True) + b""
        if cs.is_valid_signature_encoding(out + bytes([ht])):
            out = None
    elif kind == "lax_longlen":                         # sequence length in long form 0x81 LL
        body = _der_int(r) + _der_int(s)
        out = b"\x30\x81" + bytes([len(body)]) + body
    elif kind == "neg_s":                               # S with its top bit set and no padding ('negative'); OpenSSL-style
        s_hi = _N - s                                   # parsers read it as positive, then it verifies (high s)
        out = _der(r, s_hi, None, False) if s_hi.to_bytes(32, "big")[0] & 0x80 else None
    elif kind == "trailing":                            # garbage after S inside a longer sequence
        body = _der_int(r) + _der_int(s) + b"\x00"
        out = b"\x30" + bytes([len(body)]) + body
    elif kind == "mid_s":                               # n/2 < s <= p/2, NOT a valid signature
        out = _der(r, _N // 2 + 1)
    elif kind == "overflow_s":                          # s = n: does not fit a scalar -> Core's lax parser yields (0,0)
        out = _der(r, _N)
    elif kind == "overflow_r":
        out = _der(_N + 5, s)
    elif kind == "zero_s":
        out = _der(r, 0)
    elif kind == "empty":
        _SIG_CACHE[ck] = b""
        return b""
    elif kind == "one_byte_30":
        _SIG_CACHE[ck] = b"\x30\x01"
        return b"\x30\x01"
    elif kind == "hashtype_only":
        _SIG_CACHE[ck] = b"\x01"
        return b"\x01"
    elif kind == "seq_cut":
        out = b"\x30\x06\x02\x01\x01\x02"              # stops right after the second integer tag
    elif kind == "seq_longlen_cut":
        out = b"\x30\x82"
    elif kind == "garbage":
        out = b"\x2a" * 9
    else:
        raise KeyError(kind)
    res = None if out is None else out + bytes([ht])
    _SIG_CACHE[ck] = res
    return res


def mid_s_valid_material(code, ht=1):
    """a key and a VALID signature whose s is n//2+1 (just above Core's LOW_S bound, far below p/2): solve for the
    secret d = (s*k - z)/r"""
    k = 0x77777777
    r = cs.ec_mul(k)[0] % _N
    s = _N // 2 + 1
    z = synth_z(code, ht)
    d = (s * k - z) * pow(r, _N - 2, _N) % _N
    point = cs.ec_mul(d)
    assert cs.ecdsa_verify(point, z, r, s)
    return cs.pubkey_bytes(point), _der(r, s) + bytes([ht])


def make_key(kind, key_idx):
    p = _points()[key_idx]
    if kind == "comp":
        return cs.pubkey_bytes(p, True)
    if kind == "uncomp":
        return cs.pubkey_bytes(p, False)
    if kind == "hybrid":
        return bytes([6 + (p[1] & 1)]) + cs.pubkey_bytes(p, False)[1:]
    if kind == "hybrid_wrong_parity":
        return bytes([7 - (p[1] & 1)]) + cs.pubkey_bytes(p, False)[1:]
    if kind == "bad05":
        return b"\x05" + p[0].to_bytes(32, "big")
    if kind == "short32":
        return cs.pubkey_bytes(p, True)[:32]
    if kind == "long34":
        return cs.pubkey_bytes(p, True) + b"\x00"
    if kind == "empty":
        return b""
    if kind == "offcurve":
        x = 5
        while pow((x ** 3 + 7) % cs.SECP256K1_P, (cs.SECP256K1_P - 1) // 2, cs.SECP256K1_P) == 1:
            x += 1
        return b"\x02" + x.to_bytes(32, "big")
    if kind == "x_ge_p":
        return b"\x02" + (cs.SECP256K1_P + 1).to_bytes(32, "big")
    if kind == "uncomp_offcurve":
        return b"\x04" + p[0].to_bytes(32, "big") + ((p[1] + 1) % cs.SECP256K1_P).to_bytes(32, "big")
    if kind == "other":
        return cs.pubkey_bytes(_points()[(key_idx + 1) % 3], True)
    raise KeyError(kind)


SIG_KINDS = ["valid", "high_s", "wrongcode", "lax_padded", "lax_longlen", "neg_s", "trailing", "mid_s", "overflow_s", "overflow_r",
             "zero_s", "empty", "one_byte_30", "hashtype_only", "seq_cut", "seq_longlen_cut", "garbage"]
KEY_KINDS = ["comp", "uncomp", "hybrid", "hybrid_wrong_parity", "bad05", "short32", "long34", "empty", "offcurve", "x_ge_p",
             "uncomp_offcurve", "other"]
SIG_FLAGSETS = ("NONE", "STRICTENC", "DERSIG", "LOW_S", "NULLDUMMY", "NULLFAIL", "WITNESS_PUBKEYTYPE", "STANDARD", "MINIMALDATA")


def sweep_sig(sw, tier, rng):
    fsets = [f for f in flag_sets() if tier == "thorough" or f[0] in SIG_FLAGSETS]
    CS, CSV, SEP, NOP_ = cs.OP_CHECKSIG, cs.OP_CHECKSIGVERIFY, cs.OP_CODESEPARATOR, cs.OP_NOP
    # (script, script code Core signs)
    forms = [(bytes([CS]), bytes([CS])),
             (bytes([CSV, 0x51]), bytes([CSV, 0x51])),
             (bytes([NOP_, SEP, CS]), bytes([CS])),
             (bytes([0x00, cs.OP_IF, SEP, cs.OP_ENDIF, CS]), bytes([0x00, cs.OP_IF, SEP, cs.OP_ENDIF, CS])),
             (bytes([SEP, CS, SEP]), bytes([CS, SEP])),
             (bytes([SEP, SEP, NOP_, CS]), bytes([NOP_, CS]))]
    for script, code in forms[:None if tier == "thorough" else 3]:
        for hts in ((1,),) if tier == "quick" and script != forms[0][0] else ((1,), (2,), (3,), (0x81,), (0x83,), (0,), (4,), (0x80,), (0xff,)):
            ht = hts[0]
            for sk in SIG_KINDS if ht == 1 else ["valid", "high_s", "empty"]:
                sig = make_sig(sk, 0, code, ht)
                if sig is None:
                    continue
                for kk in KEY_KINDS if tier == "thorough" or (script == forms[0][0] and ht == 1) else ("comp", "uncomp", "bad05", "empty"):
                    key = make_key(kk, 0)
                    meta = {"cat": "sig", "op": script[0] if script[0] in (CS, CSV) else CS, "sig_kinds": (sk,), "key_kinds": (kk,),
                            "desc": "sig=%s(ht=%#x) key=%s script=%s" % (sk, ht, kk, script.hex())}
                    for fname, flags in fsets:
                        sw.run_all_modes(meta, script, (sig, key), flags)
        # a VALID signature with s = n//2+1
        key, sig = mid_s_valid_material(code)
        for fname, flags in fsets:
            sw.run_all_modes({"cat": "sig", "op": CS, "sig_kinds": ("mid_s_valid",), "key_kinds": ("solved",),
                              "desc": "valid signature with s=n//2+1, script=%s" % script.hex()}, script, (sig, key), flags)

    # ---- CHECKMULTISIG ------------------------------------------------------------------------------------------
    CM, CMV = cs.OP_CHECKMULTISIG, cs.OP_CHECKMULTISIGVERIFY
    for script in (bytes([CM]), bytes([CMV, 0x51])):
        code = script
        sig_choices = lambda n: [("v", j) for j in range(n)] + ["empty", "garbage", "high"]
        key_choices = ["comp", "bad05", "uncomp"]
        all_cases = []
        for n in range(0, 4):
            for m in range(0, n + 1):
                for sigs in itertools.product(sig_choices(n), repeat=m):
                    for keys in itertools.product(key_choices, repeat=n):
                        for dummy in (b"", b"\x00", b"\x01"):
                            all_cases.append((n, m, sigs, keys, dummy))
        small = [c for c in all_cases if c[0] <= 2]
        big = [c for c in all_cases if c[0] > 2]
        if tier == "quick":
            chosen = [c for c in small if c[0] <= 1] + rng.sample(small, 120) + rng.sample(big, 80)
        else:
            chosen = small + rng.sample(big, 6000)
        if script[0] == CMV:
            chosen = rng.sample(chosen, 60 if tier == "quick" else 3000)
        for n, m, sigs, keys, dummy in chosen:
            kb = [make_key(k, i) for i, k in enumerate(keys)]
            sb = []
            for i, sc in enumerate(sigs):
                if sc == "empty":
                    sb.append(b"")
                elif sc == "garbage":
                    sb.append(make_sig("garbage", 0, code))
                elif sc == "high":
                    sb.append(make_sig("high_s", min(i, n - 1), code))
                else:
                    sb.append(make_sig("valid", sc[1], code))
            st = (FILL[0], dummy) + tuple(sb) + (_n(m),) + tuple(kb) + (_n(n),)
            meta = {"cat": "sig", "op": script[0], "sig_kinds": tuple(str(x) for x in sigs), "key_kinds": keys,
                    "desc": "%d-of-%d sigs=%s keys=%s dummy=%s script=%s" % (m, n, sigs, keys, dummy.hex(), script.hex())}
            for fname, flags in fsets:
                if tier == "quick" and fname not in ("NONE", "STRICTENC", "LOW_S", "NULLDUMMY", "NULLFAIL", "STANDARD"):
                    continue
                sw.run_all_modes(meta, script, st, flags)
        # count encodings
        k0 = make_key("comp", 0)
        s0 = make_sig("valid", 0, code)
        for mv in (b"\x01", b"\x01\x00", b"\x01\x00\x00\x00", b"\x01\x00\x00\x00\x00", b"\x81", b"\x02", b"", b"\x00", b"\x80"):
            for nv in (b"\x01", b"\x01\x00", b"\x01\x00\x00\x00", b"\x01\x00\x00\x00\x00", b"\x01\x00\x00\x00\x00\x00", b"\x81",
                       b"\x15", b"\x14", b"", b"\x00"):
                for fname, flags in fsets:
                    sw.run_all_modes({"cat": "sig", "op": script[0], "sig_kinds": ("valid",), "key_kinds": ("comp",),
                                      "desc": "count encodings m=%s n=%s script=%s" % (mv.hex(), nv.hex(), script.hex())},
                                     script, (b"", b"", s0, mv, k0, nv), flags)


@bounded("C03.opcodes", props=["C03"],
         bound="single scripts: 256 opcodes x operand classes (empty, 00, 80, 1..6-byte minimal/non-minimal numbers, negative zeros, "
               "520/521-byte items) x stack depth 0..7 x executed/unexecuted branch x {no flag, each flag alone, STANDARD, CLTV/CSV mixes} "
               "x sigversion; all numeric operand pairs/triples; push encodings incl. truncations; all IF/ELSE/ENDIF programs of "
               "length<=5 (quick) / 6 (thorough); limits 201/1000/10000/520; CHECKSIG/CHECKMULTISIG with real ECDSA over a synthetic sighash")
def c03_opcodes(opts):
    tier = opts.get("tier", "quick")
    rng = random.Random(opts.get("seed", 0))
    t = Tally(rule="a case = (script, initial stack, flag set, sigversion, tx context); enumerated by construction without repetition; "
                   "checked: pycoin BitcoinVM.eval_script succeeds iff spec.eval_script does, and then the stacks are equal")
    sw = Sweep(t)
    for part in (sweep_limits, sweep_push, sweep_conditionals, sweep_sig, sweep_numeric, sweep_generic):
        part(sw, tier, rng)
    sw.F.flush()
    t.evaluations = sw.n
    t.exhaustive = False
    r = t.result()
    r["distinct_nontrivial"] = sw.n
    r["stats"] = {"cases_by_part": sw.n_by_cat, "cases_where_consensus_succeeds": sw.n_spec_ok,
                  "finding_hits": {k: v[0] for k, v in sw.F.by_key.items()}}
    return r


# ------------------------------------------------------------------------------------------------------------------
# C03.pipeline -- whole spends: scriptSig -> scriptPubKey -> P2SH -> witness, with real signatures
# ------------------------------------------------------------------------------------------------------------------
class Spend(object):
    """one input to verify, described in plain bytes; convertible to the spec's and to pycoin's transaction objects"""

    def __init__(self, script_pubkey, amount=50000, version=1, lock_time=0, sequence=0xffffffff, n_extra_inputs=0, n_outputs=1):
        self.script_pubkey = script_pubkey
        self.amount = amount
        self.script_sig = b""
        self.witness = []
        self.version, self.lock_time, self.sequence = version, lock_time, sequence
        self.n_extra_inputs = n_extra_inputs            # inputs placed BEFORE ours (so that our index is > 0)
        self.n_outputs = n_outputs
        self.tags = set()
        self.desc = ""

    @property
    def idx(self):
        return self.n_extra_inputs

    def spec_tx(self):
        credit = cs.build_crediting_tx(self.script_pubkey, self.amount)
        ins = [cs.SpecTxIn(bytes([i + 1]) * 32, i, b"", 0xfffffffe) for i in range(self.n_extra_inputs)]
        ins.append(cs.SpecTxIn(credit.txid(), 0, self.script_sig, self.sequence, self.witness))
        outs = [cs.SpecTxOut(self.amount - 1000 * (i + 1), bytes([0x51 + i])) for i in range(self.n_outputs)]
        return cs.SpecTx(self.version, ins, outs, self.lock_time)

    def pycoin_tx(self):
        stx = self.spec_tx()
        txs_in = [Tx.TxIn(i.prev_hash, i.prev_index, i.script_sig, sequence=i.sequence) for i in stx.txs_in]
        txs_out = [Tx.TxOut(o.value, o.script) for o in stx.txs_out]
        unspents = [Tx.TxOut(1, b"\x51") for _ in range(self.n_extra_inputs)] + [Tx.TxOut(self.amount, self.script_pubkey)]
        tx = Tx(self.version, txs_in, txs_out, lock_time=self.lock_time, unspents=unspents)
        tx.txs_in[self.idx].witness = list(self.witness)
        return tx

    def sign(self, secret, script_code, sigversion, hash_type=1, amount=None, high_s=False, nonce=0x1234567):
        """signature by the SPEC's sighash and ECDSA (scriptSig/witness of this input do not enter either sighash)"""
        chk = cs.TransactionChecker(self.spec_tx(), self.idx, self.amount if amount is None else amount)
        z = int.from_bytes(chk.sighash(script_code, hash_type, sigversion), "big")
        r, s = cs.ecdsa_sign(secret, z, nonce + hash_type)
        if high_s:
            s = _N - s
        return _der(r, s) + bytes([hash_type & 0xff])

    def clone(self, tag=None, desc=None):
        c = Spend(self.script_pubkey, self.amount, self.version, self.lock_time, self.sequence, self.n_extra_inputs, self.n_outputs)
        c.script_sig, c.witness = self.script_sig, list(self.witness)
        c.tags = set(self.tags)
        c.desc = self.desc
        if tag:
            c.tags.discard("base")
            c.tags.add(tag)
            c.desc = "%s; %s" % (self.desc, desc or tag)
        return c


def _p2sh(redeem):
    return bytes([cs.OP_HASH160, 20]) + cs.hash160(redeem) + bytes([cs.OP_EQUAL])


def _p2wsh(wscript):
    return b"\x00\x20" + hashlib.sha256(wscript).digest()


def _p2wpkh(pub):
    return b"\x00\x14" + cs.hash160(pub)


def _p2pkh_script(pub):
    return bytes([cs.OP_DUP, cs.OP_HASH160, 20]) + cs.hash160(pub) + bytes([cs.OP_EQUALVERIFY, cs.OP_CHECKSIG])


def _multisig(m, pubs):
    return cs.push_int(m) + b"".join(cs.push_data(p) for p in pubs) + cs.push_int(len(pubs)) + bytes([cs.OP_CHECKMULTISIG])


def _pushes(items):
    return b"".join(cs.push_data(x) if x not in (b"",) else b"\x00" for x in items)


def _min_push(x):
    """minimal push (what MINIMALDATA wants), incl. OP_n for single bytes 1..16 / 0x81"""
    if len(x) == 0:
        return b"\x00"
    if len(x) == 1 and 1 <= x[0] <= 16:
        return bytes([0x50 + x[0]])
    if x == b"\x81":
        return b"\x4f"
    return cs.push_data(x)


def build_spends(tier, rng):
    """base spends (all consensus-valid under every flag set unless tagged otherwise) and their mutations"""
    P = _points()
    pub = [cs.pubkey_bytes(p) for p in P]
    pub_u = [cs.pubkey_bytes(p, False) for p in P]
    sec = _SECRETS
    B, W = cs.SIGVERSION_BASE, cs.SIGVERSION_WITNESS_V0
    spends = []

    def add(sp, desc, *tags):
        sp.desc = desc
        sp.tags |= set(tags)
        spends.append(sp)
        return sp

    # ---- bare ----------------------------------------------------------------------------------------------------
    spk = _p2pkh_script(pub[0])
    sp = Spend(spk)
    sp.script_sig = _pushes([sp.sign(sec[0], spk, B), pub[0]])
    p2pkh = add(sp, "P2PKH", "base", "legacy")

    spk = cs.push_data(pub_u[1]) + bytes([cs.OP_CHECKSIG])
    sp = Spend(spk)
    sp.script_sig = _pushes([sp.sign(sec[1], spk, B)])
    p2pk = add(sp, "P2PK uncompressed", "base", "legacy")

    spk = _multisig(2, pub)
    sp = Spend(spk)
    sp.script_sig = b"\x00" + _pushes([sp.sign(sec[0], spk, B), sp.sign(sec[2], spk, B)])
    bare_ms = add(sp, "bare 2-of-3 multisig", "base", "legacy")

    for ht in (2, 3, 0x81, 0x82, 0x83):
        sp = Spend(_p2pkh_script(pub[0]), n_outputs=2)
        sp.script_sig = _pushes([sp.sign(sec[0], sp.script_pubkey, B, ht), pub[0]])
        add(sp, "P2PKH hashtype %#x" % ht, "base", "legacy")
    sp = Spend(_p2pkh_script(pub[0]), n_extra_inputs=2, n_outputs=1)
    sp.script_sig = _pushes([sp.sign(sec[0], sp.script_pubkey, B, 3), pub[0]])
    add(sp, "P2PKH SIGHASH_SINGLE without matching output (hash = 1)", "base", "legacy")

    # ---- P2SH ----------------------------------------------------------------------------------------------------
    redeem = _multisig(2, pub[:2])
    sp = Spend(_p2sh(redeem))
    sp.script_sig = b"\x00" + _pushes([sp.sign(sec[0], redeem, B), sp.sign(sec[1], redeem, B), redeem])
    p2sh_ms = add(sp, "P2SH 2-of-2", "base", "p2sh")

    redeem = cs.push_data(pub[0]) + bytes([cs.OP_CHECKSIG])
    sp = Spend(_p2sh(redeem))
    sp.script_sig = _pushes([sp.sign(sec[0], redeem, B), redeem])
    p2sh_pk = add(sp, "P2SH P2PK", "base", "p2sh")

    # CLTV / CSV inside P2SH, with a satisfying and an unsatisfying transaction context
    for opn, op, arg, good, bad in (("CLTV", cs.OP_CHECKLOCKTIMEVERIFY, 100, dict(lock_time=100, sequence=0), dict(lock_time=99, sequence=0)),
                                    ("CLTV", cs.OP_CHECKLOCKTIMEVERIFY, 100, dict(lock_time=100, sequence=0), dict(lock_time=100, sequence=0xffffffff)),
                                    ("CSV", cs.OP_CHECKSEQUENCEVERIFY, 10, dict(version=2, sequence=10), dict(version=1, sequence=10)),
                                    ("CSV", cs.OP_CHECKSEQUENCEVERIFY, 10, dict(version=2, sequence=10), dict(version=2, sequence=9)),
                                    ("CSV", cs.OP_CHECKSEQUENCEVERIFY, 10, dict(version=2, sequence=10), dict(version=2, sequence=10 | (1 << 22)))):
        redeem = cs.push_int(arg) + bytes([op, cs.OP_DROP]) + cs.push_data(pub[0]) + bytes([cs.OP_CHECKSIG])
        for ctx, tag in ((good, "base"), (bad, "locktime-unsatisfied")):
            sp = Spend(_p2sh(redeem), **ctx)
            sp.script_sig = _pushes([sp.sign(sec[0], redeem, B), redeem])
            add(sp, "P2SH %s %d with %r" % (opn, arg, ctx), tag, "p2sh", "locktime")

    # ---- segwit v0 -----------------------------------------------------------------------------------------------
    sp = Spend(_p2wpkh(pub[0]))
    sp.witness = [sp.sign(sec[0], _p2pkh_script(pub[0]), W), pub[0]]
    p2wpkh = add(sp, "P2WPKH", "base", "witness", "native")

    wscript = _multisig(1, pub[:2])
    sp = Spend(_p2wsh(wscript))
    sp.witness = [b"", sp.sign(sec[1], wscript, W), wscript]
    p2wsh = add(sp, "P2WSH 1-of-2", "base", "witness", "native")

    redeem = _p2wpkh(pub[0])
    sp = Spend(_p2sh(redeem))
    sp.script_sig = cs.push_data(redeem)
    sp.witness = [sp.sign(sec[0], _p2pkh_script(pub[0]), W), pub[0]]
    p2sh_p2wpkh = add(sp, "P2SH-P2WPKH", "base", "witness", "p2sh", "wrapped")

    redeem = _p2wsh(wscript)
    sp = Spend(_p2sh(redeem))
    sp.script_sig = cs.push_data(redeem)
    sp.witness = [b"", sp.sign(sec[0], wscript, W), wscript]
    p2sh_p2wsh = add(sp, "P2SH-P2WSH 1-of-2", "base", "witness", "p2sh", "wrapped")

    # witness scripts around the 520-byte and 10000-byte marks: <pub> CHECKSIG preceded by ignored pushes+drops
    def padded_wscript(total):
        core = cs.push_data(pub[0]) + bytes([cs.OP_CHECKSIG])
        pad_len = total - len(core)
        out = b""
        while pad_len > 0:
            # one unit: push of k bytes + OP_DROP  (k+2 or k+3/4 bytes); keep op count low: each unit has one non-push op
            unit_payload = min(pad_len - 4, 500) if pad_len >= 80 else None
            if unit_payload is None:
                out += bytes([cs.OP_NOP]) * pad_len
                pad_len = 0
            else:
                u = cs.push_data(b"\x2a" * unit_payload) + bytes([cs.OP_DROP])
                out += u
                pad_len -= len(u)
        ws = out + core
        assert len(ws) == total, (len(ws), total)
        return ws

    for total in (519, 520, 521, 522, 600, 3000, 9999, 10000, 10001):
        ws = padded_wscript(total)
        for wrapped in (False, True):
            prog = _p2wsh(ws)
            sp = Spend(_p2sh(prog) if wrapped else prog)
            if wrapped:
                sp.script_sig = cs.push_data(prog)
            sp.witness = [sp.sign(sec[0], ws, W), ws]
            add(sp, "%sP2WSH with a %d-byte witness script" % ("P2SH-" if wrapped else "", total),
                "base" if total <= 10000 else "script-too-big", "witness", "wrapped" if wrapped else "native", "p2sh" if wrapped else "nop2sh",
                "wscript-over-520" if total > 520 else "wscript-small")
    # 1-of-16 .. 1-of-20 multisig witness scripts (547..683 bytes): everyday scripts over 520 bytes
    for n in (15, 16, 20):
        keys = [cs.pubkey_bytes(cs.ec_mul(1000 + i)) for i in range(n - 1)] + [pub[0]]
        ws = _multisig(1, keys)
        sp = Spend(_p2wsh(ws))
        sp.witness = [b"", sp.sign(sec[0], ws, W), ws]
        add(sp, "P2WSH 1-of-%d multisig (%d-byte witness script)" % (n, len(ws)), "base", "witness", "native",
            "wscript-over-520" if len(ws) > 520 else "wscript-small")

    # witness stack items of 520 / 521 bytes (consumed by DROP)
    ws = bytes([cs.OP_DROP]) + cs.push_data(pub[0]) + bytes([cs.OP_CHECKSIG])
    for L in (520, 521):
        sp = Spend(_p2wsh(ws))
        sp.witness = [sp.sign(sec[0], ws, W), b"\x2a" * L, ws]
        add(sp, "P2WSH with a %d-byte witness stack item" % L, "base" if L <= 520 else "witness-item-too-big", "witness", "native")

    # ---- unknown witness versions / odd program lengths -----------------------------------------------------------
    for ver in (1, 2, 16):
        for plen in (2, 20, 32, 40):
            prog = bytes([0x50 + ver, plen]) + bytes(range(1, plen + 1))
            for wrapped in (False, True):
                for wit in ([], [b"\x01"], [b"\x2a" * 521], [b"", b""]):
                    sp = Spend(_p2sh(prog) if wrapped else prog)
                    if wrapped:
                        sp.script_sig = cs.push_data(prog)
                    sp.witness = list(wit)
                    add(sp, "%switness v%d program of %d bytes, witness %s" % ("P2SH-" if wrapped else "", ver, plen, [len(w) for w in wit]),
                        "base", "unknown-witness-version", "witness", "wrapped" if wrapped else "native",
                        "big-witness-item" if wit and len(wit[0]) > 520 else "small-witness-items")
    # v0 with a program that is neither 20 nor 32 bytes; not-quite witness programs (41 bytes, 1 byte, extra opcode)
    for plen in (2, 19, 21, 31, 33, 40):
        prog = bytes([0x00, plen]) + bytes(range(1, plen + 1))
        for wrapped in (False, True):
            sp = Spend(_p2sh(prog) if wrapped else prog)
            if wrapped:
                sp.script_sig = cs.push_data(prog)
            sp.witness = [b"\x01"]
            add(sp, "%sv0 program of %d bytes" % ("P2SH-" if wrapped else "", plen), "wrong-program-length", "witness")
    for prog, d in ((bytes([0x51, 41]) + bytes(range(1, 42)), "41-byte push after OP_1"), (bytes([0x51, 1, 7]), "1-byte push after OP_1"),
                    (bytes([0x51, 2, 7, 7, cs.OP_NOP]), "program followed by NOP"), (bytes([0x4f, 2, 7, 7]), "OP_1NEGATE as version"),
                    (bytes([0x51, 0x4c, 2, 7, 7]), "PUSHDATA1 program")):
        for wit in ([], [b"\x01"]):
            sp = Spend(prog)
            sp.witness = list(wit)
            add(sp, "not a witness program: %s, witness %s" % (d, [len(w) for w in wit]), "not-witness-program")

    # ---- P2SH look-alikes ---------------------------------------------------------------------------------------------
    # 23 bytes, starts with HASH160, ends with EQUAL, but byte 1 is not the 0x14 push: NOT P2SH for Core
    fake = bytes([cs.OP_HASH160, cs.OP_DROP, 0x51, 0x51]) + bytes([cs.OP_NOP]) * 18 + bytes([cs.OP_EQUAL])
    assert len(fake) == 23
    for ssig, d in ((b"\x00", "0"), (b"\x51", "1"), (b"\x51\x61", "1 NOP"), (cs.push_data(b"\x00"), "script '0' as data"),
                    (cs.push_data(b"\x51"), "script '1' as data")):
        sp = Spend(fake)
        sp.script_sig = ssig
        add(sp, "23-byte HASH160 DROP 1 1 NOP*18 EQUAL (not P2SH), scriptSig %s" % d, "fake-p2sh")
    fake2 = bytes([cs.OP_HASH160, cs.OP_PUSHDATA1, 19]) + b"\x07" * 19 + bytes([cs.OP_EQUAL])
    sp = Spend(fake2)
    sp.script_sig = b"\x51"
    add(sp, "23-byte HASH160 PUSHDATA1(19) EQUAL", "fake-p2sh")

    bases = [s_ for s_ in spends if "base" in s_.tags]

    # ---- mutations ---------------------------------------------------------------------------------------------------
    out = list(spends)

    def mut(base, tag, desc, f):
        c = base.clone(tag, desc)
        f(c)
        out.append(c)

    for b in bases:
        if tier == "quick" and ("unknown-witness-version" in b.tags or "locktime" in b.tags) and rng.random() < 0.6:
            continue
        native = "native" in b.tags and "witness" in b.tags
        wrapped = "wrapped" in b.tags
        # scriptSig malleations that leave the resulting stack unchanged
        for pre, d in ((bytes([cs.OP_NOP]), "NOP"), (b"\x51\x75", "1 DROP"), (b"\x00\x63\x68", "0 IF ENDIF"), (b"\x4f\x75", "1NEGATE DROP")):
            mut(b, "scriptsig-prefix-nonpush" if pre[0:1] != b"\x51" or True else "", "scriptSig prefixed with %s" % d,
                lambda c, pre=pre: setattr(c, "script_sig", pre + c.script_sig))
        # an extra item under the real ones
        mut(b, "scriptsig-extra-item", "scriptSig prefixed with a push of 0", lambda c: setattr(c, "script_sig", b"\x00" + c.script_sig))
        mut(b, "scriptsig-extra-item", "scriptSig prefixed with a push of 1", lambda c: setattr(c, "script_sig", b"\x51" + c.script_sig))
        if wrapped:
            redeem = cs.get_op(b.script_sig, 0)[2]
            mut(b, "p2sh-witness-noncanonical-push", "redeem script pushed with PUSHDATA1",
                lambda c, r=redeem: setattr(c, "script_sig", bytes([cs.OP_PUSHDATA1, len(r)]) + r))
            mut(b, "p2sh-witness-noncanonical-push", "redeem script pushed with PUSHDATA2",
                lambda c, r=redeem: setattr(c, "script_sig", bytes([cs.OP_PUSHDATA2]) + len(r).to_bytes(2, "little") + r))
            mut(b, "scriptsig-empty", "empty scriptSig", lambda c: setattr(c, "script_sig", b""))
        if "witness" in b.tags:
            mut(b, "witness-dropped", "witness removed", lambda c: setattr(c, "witness", []))
            mut(b, "witness-extra-item", "extra witness item at the bottom", lambda c: setattr(c, "witness", [b"\x01"] + c.witness))
            if b.witness:
                mut(b, "witness-last-item-altered", "last witness item altered",
                    lambda c: setattr(c, "witness", c.witness[:-1] + [c.witness[-1] + b"\x61"]))
                mut(b, "witness-first-item-altered", "first witness item altered",
                    lambda c: setattr(c, "witness", [c.witness[0] + b"\x00"] + c.witness[1:]))
        else:
            mut(b, "witness-unexpected", "witness on a non-witness spend", lambda c: setattr(c, "witness", [b"\x01"]))
            if b.script_sig:
                mut(b, "scriptsig-truncated", "scriptSig without its last byte", lambda c: setattr(c, "script_sig", c.script_sig[:-1]))
        mut(b, "amount-changed", "prevout amount differs from the signed one", lambda c: setattr(c, "amount", c.amount + 1))

    # signature-level mutations on the simple single-signature bases
    def resign(base, desc, tag, **kw):
        c = base.clone(tag, desc)
        if base is p2pkh:
            c.script_sig = _pushes([c.sign(sec[0], c.script_pubkey, B, **kw), pub[0]])
        elif base is p2sh_pk:
            redeem = cs.push_data(pub[0]) + bytes([cs.OP_CHECKSIG])
            c.script_sig = _pushes([c.sign(sec[0], redeem, B, **kw), redeem])
        elif base is p2wpkh:
            c.witness = [c.sign(sec[0], _p2pkh_script(pub[0]), W, **kw), pub[0]]
        elif base is p2sh_p2wpkh:
            c.witness = [c.sign(sec[0], _p2pkh_script(pub[0]), W, **kw), pub[0]]
        out.append(c)

    for base in (p2pkh, p2sh_pk, p2wpkh, p2sh_p2wpkh):
        resign(base, "high-S signature", "high-s", high_s=True)
        for ht in (0, 4, 0x80, 0x84, 0xff):
            resign(base, "undefined hash type %#x (signed for it)" % ht, "undefined-hashtype", hash_type=ht)
        resign(base, "signed for another amount", "wrong-amount", amount=base.amount + 7)

    # uncompressed / hybrid keys in witness programs
    for kind, tag in (("uncomp", "witness-uncompressed-key"), ("hybrid", "witness-hybrid-key")):
        k = make_key(kind, 0)
        sp = Spend(_p2wpkh(k))
        sp.witness = [sp.sign(sec[0], _p2pkh_script(k), W), k]
        sp.desc, sp.tags = "P2WPKH with %s key" % kind, {tag, "witness", "native"}
        out.append(sp)
        ws = cs.push_data(k) + bytes([cs.OP_CHECKSIG])
        sp = Spend(_p2wsh(ws))
        sp.witness = [sp.sign(sec[0], ws, W), ws]
        sp.desc, sp.tags = "P2WSH <%s key> CHECKSIG" % kind, {tag, "witness", "native"}
        out.append(sp)
        sp = Spend(_p2wsh(ws + bytes([cs.OP_NOT])))
        sp.witness = [b"", ws + bytes([cs.OP_NOT])]
        sp.desc, sp.tags = "P2WSH <%s key> CHECKSIG NOT with empty signature" % kind, {tag, "witness", "native", "empty-sig"}
        out.append(sp)
    # legacy: empty signature against a badly encoded key, CHECKSIG NOT
    for kk in ("bad05", "short32", "hybrid", "comp"):
        k = make_key(kk, 0)
        spk = cs.push_data(k) + bytes([cs.OP_CHECKSIG, cs.OP_NOT])
        sp = Spend(spk)
        sp.script_sig = b"\x00"
        sp.desc, sp.tags = "0 <%s key> CHECKSIG NOT" % kk, {"empty-sig", "legacy", "key-" + kk}
        out.append(sp)
        spk = b"\x51" + cs.push_data(k) + b"\x51" + bytes([cs.OP_CHECKMULTISIG, cs.OP_NOT])
        sp = Spend(spk)
        sp.script_sig = b"\x00\x00"
        sp.desc, sp.tags = "0 0 | 1 <%s key> 1 CHECKMULTISIG NOT" % kk, {"empty-sig", "legacy", "key-" + kk}
        out.append(sp)
    # a valid signature under a key whose first byte is not a valid prefix
    k = make_key("bad05", 0)
    spk = cs.push_data(k) + bytes([cs.OP_CHECKSIG])
    sp = Spend(spk)
    sp.script_sig = _pushes([sp.sign(sec[0], spk, B)])
    sp.desc, sp.tags = "P2PK with key 05||x and a signature by x's odd-y key", {"legacy", "key-bad05", "sig-valid-for-decoded-point"}
    out.append(sp)
    # a VALID signature with s = n//2+1 (above Core's LOW_S bound n/2, below p/2): scriptPubKey is just CHECKSIG so that the
    # sighash does not depend on the key, and the key is solved for
    spk = bytes([cs.OP_CHECKSIG])
    sp = Spend(spk)
    z = int.from_bytes(cs.TransactionChecker(sp.spec_tx(), 0, sp.amount).sighash(spk, 1, B), "big")
    k_ = 0x77777777
    r_ = cs.ec_mul(k_)[0] % _N
    s_ = _N // 2 + 1
    d_ = (s_ * k_ - z) * pow(r_, _N - 2, _N) % _N
    sp.script_sig = _pushes([_der(r_, s_) + b"\x01", cs.pubkey_bytes(cs.ec_mul(d_))])
    sp.desc, sp.tags = "<sig with s=n//2+1> <pub> | CHECKSIG (valid signature)", {"legacy", "mid-s-valid"}
    out.append(sp)
    # MINIMALIF / NULLDUMMY / NULLFAIL / MINIMALDATA / SIGPUSHONLY / CLEANSTACK material
    ws = bytes([cs.OP_IF]) + cs.push_data(pub[0]) + bytes([cs.OP_CHECKSIG, cs.OP_ELSE, 0x51, cs.OP_ENDIF])
    for cond in (b"\x01", b"\x02", b"\x01\x00"):
        sp = Spend(_p2wsh(ws))
        sp.witness = [sp.sign(sec[0], ws, W), cond, ws]
        sp.desc, sp.tags = "P2WSH IF <pub> CHECKSIG ELSE 1 ENDIF with condition %s" % cond.hex(), {"witness", "native", "minimalif"}
        out.append(sp)
        sp = Spend(_p2sh(ws))
        sp.script_sig = _pushes([sp.sign(sec[0], ws, B)]) + _min_push(cond) + cs.push_data(ws)
        sp.desc, sp.tags = "P2SH IF <pub> CHECKSIG ELSE 1 ENDIF with condition %s" % cond.hex(), {"p2sh", "minimalif"}
        out.append(sp)
    for dummy in (b"\x00", b"\x51", cs.push_data(b"\x00")):
        c = bare_ms.clone("dummy-" + dummy.hex(), "CHECKMULTISIG dummy pushed by %s" % dummy.hex())
        c.script_sig = dummy + c.script_sig[1:]
        out.append(c)
    c = bare_ms.clone("multisig-wrong-order", "signatures in the wrong order")
    items = []
    pc = 1
    while pc < len(bare_ms.script_sig):
        _, _, dta, pc = cs.get_op(bare_ms.script_sig, pc)
        items.append(dta)
    c.script_sig = b"\x00" + _pushes(items[::-1])
    out.append(c)
    spk = _multisig(1, pub[:2]) + bytes([cs.OP_NOT])
    for sig_item, d in ((b"", "empty"), (b"\x30\x01", "garbage 3001"), (make_sig("garbage", 0, b"")[:9], "9 garbage bytes")):
        sp = Spend(spk)
        sp.script_sig = b"\x00" + _min_push(sig_item)
        sp.desc, sp.tags = "1-of-2 CHECKMULTISIG NOT with %s signature" % d, {"legacy", "failing-multisig"}
        out.append(sp)
    # non-minimal pushes in scriptSig (MINIMALDATA), 256-byte PUSHDATA2 in a P2SH redeem script
    spk = bytes([cs.OP_DROP]) + _p2pkh_script(pub[0])
    for extra, d in ((cs.push_data(b"\x05"), "PUSH1 05"), (bytes([cs.OP_PUSHDATA1, 2, 7, 7]), "PUSHDATA1 for 2 bytes"),
                     (bytes([cs.OP_PUSHDATA2]) + (256).to_bytes(2, "little") + b"\x2a" * 256, "PUSHDATA2 for 256 bytes (minimal)"),
                     (bytes([cs.OP_PUSHDATA2]) + (255).to_bytes(2, "little") + b"\x2a" * 255, "PUSHDATA2 for 255 bytes"),
                     (bytes([cs.OP_PUSHDATA2]), "PUSHDATA2 without length bytes"), (bytes([cs.OP_PUSHDATA1]), "PUSHDATA1 without length byte")):
        sp = Spend(spk)
        sp.script_sig = _pushes([sp.sign(sec[0], spk, B), pub[0]]) + extra
        sp.desc, sp.tags = "DROP+P2PKH, scriptSig ends with %s" % d, {"legacy", "push-encoding", "truncated-push" if "without" in d else "push"}
        out.append(sp)
    redeem = bytes([cs.OP_PUSHDATA2]) + (256).to_bytes(2, "little") + b"\x2a" * 256 + bytes([cs.OP_DROP]) + cs.push_data(pub[0]) + bytes([cs.OP_CHECKSIG])
    sp = Spend(_p2sh(redeem))
    sp.script_sig = _pushes([sp.sign(sec[0], redeem, B), redeem])
    sp.desc, sp.tags = "P2SH redeem script with a 256-byte PUSHDATA2", {"p2sh", "push-encoding"}
    out.append(sp)
    # results that are false-but-nonempty, and leftovers (CLEANSTACK)
    for res, d in ((b"\x00", "00"), (b"\x80", "80"), (b"\x00\x80", "0080"), (b"\x00\x00", "0000"), (b"\x00\x01", "0001")):
        sp = Spend(cs.push_data(res))
        sp.desc, sp.tags = "scriptPubKey pushes %s" % d, {"legacy", "truthiness"}
        out.append(sp)
        sp = Spend(_p2sh(cs.push_data(res)))
        sp.script_sig = cs.push_data(cs.push_data(res))
        sp.desc, sp.tags = "P2SH redeem script pushes %s" % d, {"p2sh", "truthiness"}
        out.append(sp)
        ws = cs.push_data(res)
        sp = Spend(_p2wsh(ws))
        sp.witness = [ws]
        sp.desc, sp.tags = "P2WSH witness script pushes %s" % d, {"witness", "native", "truthiness"}
        out.append(sp)
    ws = b"\x51\x51"
    sp = Spend(_p2wsh(ws))
    sp.witness = [ws]
    sp.desc, sp.tags = "P2WSH leaving two items", {"witness", "native"}
    out.append(sp)
    return out


def pipeline_flag_sets(tier):
    F = cs
    consensus = F.F_P2SH | F.F_DERSIG | F.F_CHECKLOCKTIMEVERIFY | F.F_CHECKSEQUENCEVERIFY | F.F_WITNESS | F.F_NULLDUMMY
    out = [0, F.F_P2SH, F.F_P2SH | F.F_WITNESS, consensus, F.STANDARD_FLAGS,
           F.STANDARD_FLAGS & ~F.F_DISCOURAGE_UPGRADABLE_WITNESS_PROGRAM, F.STANDARD_FLAGS & ~F.F_CLEANSTACK,
           F.F_P2SH | F.F_WITNESS | F.F_CLEANSTACK, F.F_P2SH | F.F_WITNESS | F.F_DISCOURAGE_UPGRADABLE_WITNESS_PROGRAM,
           F.F_P2SH | F.F_WITNESS | F.F_STRICTENC, F.F_P2SH | F.F_WITNESS | F.F_LOW_S, F.F_P2SH | F.F_WITNESS | F.F_WITNESS_PUBKEYTYPE,
           F.F_P2SH | F.F_WITNESS | F.F_MINIMALIF, F.F_P2SH | F.F_WITNESS | F.F_NULLFAIL, F.F_P2SH | F.F_SIGPUSHONLY,
           F.F_P2SH | F.F_MINIMALDATA | F.F_WITNESS]
    if tier == "thorough":
        for name, bit in F.FLAG_NAMES.items():
            out.append(_closure(bit))
            out.append(_closure(bit) | F.F_P2SH | F.F_WITNESS)
            f = F.STANDARD_FLAGS & ~bit
            if F.flags_permitted(f):
                out.append(f)
    out = list(dict.fromkeys(out))
    assert all(F.flags_permitted(f) for f in out)
    return out


def classify_spend(sp, flags, s_ok, s_err, p_kind, p_data):
    tg = sp.tags
    p_ok = p_kind == "ok"
    if p_kind == "crash":
        if "ord() expected" in p_data:
            return "crash-TypeError-in-signature-der-parsing"
        return "crash-%s-in-check_solution" % p_data.split(":")[0]
    if "fake-p2sh" in tg and flags & cs.F_P2SH:
        return "p2sh-detection-ignores-the-push-length-byte"
    if "unknown-witness-version" in tg and s_ok and not p_ok:
        if p_data and p_data[-1] == 29:
            return "witness-unknown-version-rejected-under-cleanstack"
        if "big-witness-item" in tg and p_data and p_data[-1] == 5:
            return "witness-520-byte-item-limit-applied-to-unknown-version-programs"
    if "wscript-over-520" in tg and s_ok and not p_ok and p_data and p_data[-1] == 5:
        return "p2wsh-witness-script-limited-to-520-bytes"
    if not s_ok and p_ok and s_err == "WITNESS_MALLEATED":
        return "witness-native-scriptsig-only-required-to-leave-an-empty-stack"
    if not s_ok and p_ok and s_err == "WITNESS_MALLEATED_P2SH":
        return "witness-p2sh-scriptsig-not-required-to-be-the-canonical-single-push"
    if not s_ok and p_ok and s_err in ("PUBKEYTYPE", "WITNESS_PUBKEYTYPE") and "empty-sig" in tg:
        return "pubkey-encoding-not-checked-when-signature-empty-or-unparsable"
    if ("high-s" in tg or "mid-s-valid" in tg) and flags & cs.F_LOW_S and not s_ok and p_ok:
        return "low_s-compares-s-with-field-prime-instead-of-half-order"
    if "key-bad05" in tg and p_ok and not s_ok:
        return "pubkey-33-bytes-with-invalid-prefix-byte-accepted-as-compressed-key"
    if "truncated-push" in tg and p_ok and not s_ok:
        return "truncated-pushdata-length-accepted-as-empty-push"
    if "push-encoding" in tg and s_ok and not p_ok and flags & cs.F_MINIMALDATA:
        return "pushdata2-256-bytes-flagged-non-minimal"
    return "unclassified:pipeline:%s:spec-%s-pycoin-%s" % ("+".join(sorted(tg)), "ok" if s_ok else "fail:" + s_err, p_kind)


@bounded("C03.pipeline", props=["C03"],
         bound="generated spends (bare P2PKH/P2PK/multisig, P2SH, P2WPKH, P2WSH, P2SH-wrapped witness, witness v1..v16, P2SH and witness "
               "look-alikes, witness scripts of 519..10001 bytes, 520/521-byte witness items, CLTV/CSV contexts) x scriptSig / witness / "
               "signature / key malleations x 16 (quick) or ~60 (thorough) permitted flag sets, real ECDSA signatures")
def c03_pipeline(opts):
    tier = opts.get("tier", "quick")
    rng = random.Random(opts.get("seed", 0))
    t = Tally(rule="a case = (spend incl. tx context, flag set); distinct by construction; checked: Tx.check_solution returns iff "
                   "spec.verify_script (own sighash + own ECDSA) says OK")
    F = Findings(t)
    spends = build_spends(tier, rng)
    fsets = pipeline_flag_sets(tier)
    n = n_ok = 0
    base_ok = 0
    for sp in spends:
        stx = sp.spec_tx()
        chk = cs.TransactionChecker(stx, sp.idx, sp.amount)
        ptx = sp.pycoin_tx()
        for flags in fsets:
            s_ok, s_err = cs.verify_script(sp.script_sig, sp.script_pubkey, sp.witness, flags, chk)
            p_kind, p_data = pycoin_check(ptx, sp.idx, flags)
            n += 1
            n_ok += s_ok
            if "base" in sp.tags and flags == cs.STANDARD_FLAGS & ~cs.F_DISCOURAGE_UPGRADABLE_WITNESS_PROGRAM:
                base_ok += s_ok
            if n <= 3:
                t.samples.append({"spend": sp.desc, "flags": _flag_names(flags), "spec": s_err, "pycoin": p_kind})
            if (p_kind == "ok") == s_ok:
                continue
            key = classify_spend(sp, flags, s_ok, s_err, p_kind, p_data)
            what = "spend verification: spec(Core)=%s, pycoin Tx.check_solution=%s %r" % (s_err, p_kind, p_data)
            inputs = "%s | scriptSig=%s scriptPubKey=%s witness=%s amount=%d version=%d locktime=%d sequence=%#x input_index=%d flags=%s" % (
                sp.desc, _short(sp.script_sig, 80), _short(sp.script_pubkey, 50), _stk(sp.witness), sp.amount, sp.version, sp.lock_time,
                sp.sequence, sp.idx, _flag_names(flags))
            repro = None
            if len(sp.script_sig) + sum(len(w) for w in sp.witness) + len(sp.script_pubkey) < 1500:
                repro = ("import sys; sys.path.insert(0,'/repo')\nfrom pycoin.symbols.btc import network; Tx=network.tx\n"
                         "tx = Tx.from_hex('%s'); tx.set_unspents([%s])\n"
                         "tx.check_solution(%d, flags=%d)   # Core: %s"
                         % (ptx.as_hex(), ", ".join("Tx.TxOut(%d, bytes.fromhex('%s'))" % (u.coin_value, _hx(u.script)) for u in ptx.unspents),
                            sp.idx, flags, s_err))
            F.add(key, what, inputs, repro, len(sp.script_sig) + len(sp.script_pubkey) + sum(len(w) for w in sp.witness) + bin(flags).count("1") * 3)
    F.flush()
    t.evaluations = n
    t.exhaustive = False
    r = t.result()
    r["distinct_nontrivial"] = n
    r["stats"] = {"spends": len(spends), "flag_sets": len(fsets), "cases_where_consensus_succeeds": n_ok,
                  "base_spends_valid_under_standard_flags": base_ok, "base_spends": sum("base" in s.tags for s in spends),
                  "finding_hits": {k: v[0] for k, v in F.by_key.items()}}
    return r
