"""C12/C03: script-number codec (IntStreamer)."""
from pyvc.api import *
from spec.core import *
from spec.scriptnum import *
from pycoin.coins.SolutionChecker import ScriptError

T = "pycoin.satoshi.IntStreamer:IntStreamer."


@contract(T + "int_to_script_bytes")
class int_to_script_bytes:
    props = ["C12", "C03"]
    sig = dict(class_=Const(None), v=Int())
    returns = Bytes()
    options = {'reveal': ['scriptnum_enc']}

    def ensures_enc(class_, v, result):
        return result == scriptnum_enc(v)

    canaries = [("v >= 256", "v > 256"), ("ba[-1] >= 128", "ba[-1] > 128")]


@invariant(T + "int_to_script_bytes", 0, modifies=["ba"])
def _inv_enc(ba, v, old_v):
    return (v >= 1, le_digits(abs(old_v)) == bytes(ba) + le_digits(v))


@contract(T + "int_from_script_bytes")
class int_from_script_bytes:
    props = ["C12", "C03"]
    sig = dict(class_=Const(None), s=Bytes(), require_minimal=Bool())
    returns = Int()
    options = {'reveal': ['scriptnum_dec', 'is_minimal_num']}

    def _hints(s):
        n = len(s)
        if n > 0:
            rev_snoc(s[:n - 1], s[n - 1])
            rev_snoc(s[:n - 1], s[n - 1] % 128)
            be_rev(s[:n - 1] + bytes([s[n - 1] % 128]))
            if n > 1:
                rev_snoc(s[:n - 2], s[n - 2])
        return True

    def ensures_dec(class_, s, require_minimal, result):
        int_from_script_bytes._hints(s)
        return result == scriptnum_dec(s)

    def _nonmin(class_, s, require_minimal):
        int_from_script_bytes._hints(s)
        return require_minimal and not is_minimal_num(s)

    raises = [(ScriptError, _nonmin, True)]
    canaries = [("i & 127", "i & 63"), ("len(ba) <= 1", "len(ba) < 1")]


@invariant(T + "int_from_script_bytes", 0)
def _inv_dec(ba, v, _i):
    return v == be_value(bytes([ba[0] % 128]) + bytes(ba[1:1 + _i]))
