"""C14: merkle root and block header.

  * `merkle_pair` == one level of the Bitcoin merkle tree (pairwise hash, last element of an odd level duplicated)
  * `merkle`      == the root obtained by repeating that until one hash is left
  * `Block.stream_header` == the 80-byte header layout; `Block._calculate_hash` == double-SHA256 of it

The hash function is an uninterpreted function (any `hash_f`; the header hash uses SHA-256 as an uninterpreted digest)."""
from pyvc.api import *
from spec.core import *
from spec.sighash import sha256, dsha256
from pycoin.block import Block
import pycoin.merkle as _m
import z3 as _z3
from pyvc.values import SV as _SV, lift as _lift

K_HASHES = ('seq', 'bytes')


def _sp_node(ip, data):
    f = _z3.Function('H_node', _z3.SeqSort(_z3.IntSort()), _z3.SeqSort(_z3.IntSort()))
    return _SV(f(_lift(data, 'bytes').e), 'bytes')


@spec(special=_sp_node)
def node_hash(data):
    """the hash function handed to merkle()/merkle_pair() (uninterpreted; double SHA-256 natively)"""
    import hashlib
    return hashlib.sha256(hashlib.sha256(data).digest()).digest()


@spec(rec=True, args=[K_HASHES, 'int'], ret=K_HASHES, post=lambda hs, i, result: len(result) == (i if i > 0 else 0))
def level_upto(hs, i):
    """parents of the first i pairs of the (even-length) row hs"""
    if i <= 0:
        return ()
    return level_upto(hs, i - 1) + (node_hash(hs[2 * i - 2] + hs[2 * i - 1]),)


@spec
def padded(hs):
    return hs + (hs[len(hs) - 1],) if len(hs) % 2 == 1 else hs


@spec
def level(hs):
    """the parent row: pairwise hashes, the last element of an odd row paired with itself"""
    return level_upto(padded(hs), len(padded(hs)) // 2)


@spec(rec=True, args=[K_HASHES], ret='bytes', decreases=lambda hs: len(hs))
def merkle_root(hs):
    if len(hs) <= 1:
        return hs[0]
    return merkle_root(level(hs))


HASHES = ListOf(Bytes(n=32), sample_max=9)


@contract("pycoin.merkle:merkle_pair")
class merkle_pair:
    props = ["C14"]
    sig = dict(hashes=HASHES, hash_f=Const(node_hash))
    returns = ListOf(Bytes())

    def requires(hashes, hash_f):
        return len(listval(hashes)) >= 1

    def ensures_level(hashes, hash_f, result):
        return listval(result) == level(old(listval(hashes)))

    canaries = [("hashes.append(hashes[-1])", "hashes.append(hashes[0])"), ("hashes[i] + hashes[i + 1]", "hashes[i + 1] + hashes[i]")]


@invariant("pycoin.merkle:merkle_pair", 0, modifies=["items"], kinds={"items": ('seq', 'bytes')})
def _pair_inv(hashes, hash_f, items, _i):
    return listval(items) == level_upto(listval(hashes), _i)


@contract("pycoin.merkle:merkle")
class merkle:
    props = ["C14"]
    sig = dict(hashes=HASHES, hash_f=Const(node_hash))
    returns = Bytes()

    def _empty(hashes, hash_f):
        return len(listval(hashes)) == 0

    def ensures_root(hashes, hash_f, result):
        return result == merkle_root(old(listval(hashes)))

    raises = [(IndexError, _empty, True)]
    canaries = [("while len(hashes) > 1:", "while len(hashes) > 2:")]


@invariant("pycoin.merkle:merkle", 0)
def _root_inv(hashes, hash_f, old_hashes):
    return (len(listval(hashes)) >= 1, merkle_root(listval(hashes)) == merkle_root(listval(old_hashes)))


# ---------------------------------------------------------------- block header
def _mk_block(v):
    b = Block(v['version'], v['previous_block_hash'], v['merkle_root'], v['timestamp'], v['difficulty'], v['nonce'])
    for k_ in ('_hash', '_Block__hash'):
        if v.get(k_) is not None:
            setattr(b, k_, v[k_])
    return b


U32 = Int(0, 2 ** 32 - 1, interesting=[0, 1, 2 ** 31, 2 ** 32 - 1])
BLOCK = Obj(Block, dict(version=U32, previous_block_hash=Bytes(n=32), merkle_root=Bytes(n=32), timestamp=U32, difficulty=U32, nonce=U32,
                        txs=Const(())), make=_mk_block)
# a header object with an arbitrary history: whatever an earlier call may have left in a cache attribute
BLOCK_USED = Obj(Block, dict(version=U32, previous_block_hash=Bytes(n=32), merkle_root=Bytes(n=32), timestamp=U32, difficulty=U32, nonce=U32,
                             txs=Const(()), _hash=Bytes(n=32), _Block__hash=Bytes(n=32)), make=_mk_block)


def header_bytes(b):
    """the 80-byte block header: version, previous block hash, merkle root, time, bits, nonce (integers little-endian)"""
    return le(b.version, 4) + b.previous_block_hash + b.merkle_root + le(b.timestamp, 4) + le(b.difficulty, 4) + le(b.nonce, 4)


@contract("pycoin.block:Block.stream_header")
class stream_header:
    props = ["C14"]
    sig = dict(self=BLOCK, f=WFile())
    assigns = ["f"]

    def ensures_layout(self, f, result):
        return (fdata(f) == old(fdata(f)) + header_bytes(self), len(header_bytes(self)) == 80)

    canaries = [("self.timestamp, self.difficulty", "self.difficulty, self.timestamp")]


@contract("pycoin.block:Block._calculate_hash")
class calculate_hash:
    props = ["C14"]
    sig = dict(self=BLOCK)
    returns = Bytes()

    def ensures_double_sha256_of_header(self, result):
        return result == dsha256(header_bytes(self))


@contract("pycoin.block:Block.parse_as_header")
class parse_as_header:
    props = ["C14"]
    sig = dict(class_=Const(Block), f=RFile())
    assigns = ["f"]
    returns = BLOCK

    def _short(class_, f):
        return len(fdata(f)) - fpos(f) < 80

    def ensures_fields(class_, f, result):
        d = old(fdata(f))[old(fpos(f)):old(fpos(f)) + 80]
        return (fpos(f) == old(fpos(f)) + 80, fdata(f) == old(fdata(f)), d == header_bytes(result))

    raises = [(Exception, _short, True)]


@contract("pycoin.block:Block.hash")
class block_hash:
    """the block hash is the double SHA-256 of the header's *current* fields, whatever earlier calls left on the object
    (the builder gives the cache-like attributes arbitrary contents)"""
    props = ["C14"]
    sig = dict(self=BLOCK_USED)
    returns = Bytes()
    assigns = ["self!"]

    def ensures_current_header(self, result):
        return (result == dsha256(header_bytes(self)), header_bytes(self) == old(header_bytes(self)))


# ---------------------------------------------------------------- parse_as_header(stream_header(b)) gives the header back
import io as _io


def roundtrip_header(version, previous_block_hash, merkle_root, timestamp, difficulty, nonce, rest):
    f = _io.BytesIO()
    Block(version, previous_block_hash, merkle_root, timestamp, difficulty, nonce).stream_header(f)
    g = _io.BytesIO(f.getvalue() + rest)
    return Block.parse_as_header(g), g.tell()


@contract("contracts.c14_merkle:roundtrip_header")
class c_roundtrip_header:
    props = ["C14"]
    sig = dict(version=U32, previous_block_hash=Bytes(n=32), merkle_root=Bytes(n=32), timestamp=U32, difficulty=U32, nonce=U32, rest=Bytes(sample_max=3))

    def ensures_same(version, previous_block_hash, merkle_root, timestamp, difficulty, nonce, rest, result):
        b = result[0]
        return (b.version == version, b.previous_block_hash == previous_block_hash, b.merkle_root == merkle_root, b.timestamp == timestamp,
                b.difficulty == difficulty, b.nonce == nonce, result[1] == 80)
