"""C08 / C18 Tier-B bounded harnesses (run-time contract checks on the real pycoin code).

C08  addresses <-> output scripts are in one-to-one correspondence on every network
C18  text parsing is total, faithful and keeps kinds apart

All oracles are independent re-implementations written here from the public standards (Base58Check, BIP173/BIP350
bech32/bech32m, BIP141 witness programs, BIP32 serialisation, SEC1 point encoding, secp256k1 arithmetic); pycoin is
only ever the system under test.  GRS / GRSRT / TGRS are skipped explicitly: they need the C extension
`groestlcoin_hash`, which is not installed (their parsers are replaced by stubs returning None in that case).
"""
import hashlib
import random
import sys
import traceback

from pyvc.bounded import bounded, Tally

SKIPPED = ("GRS", "GRSRT", "TGRS")
SKIP_NOTE = "GRS/GRSRT/TGRS skipped (C extension groestlcoin_hash not installed)"

# ----------------------------------------------------------------------------------------------------------------
# independent reference implementations
# ----------------------------------------------------------------------------------------------------------------

_B58 = "123456789ABCDEFGHJKLMNPQRSTUVWXYZabcdefghijkmnopqrstuvwxyz"
_B58_IDX = {c: i for i, c in enumerate(_B58)}


def _sha256d(b):
    return hashlib.sha256(hashlib.sha256(b).digest()).digest()


def _h160(b):
    try:
        return hashlib.new("ripemd160", hashlib.sha256(b).digest()).digest()
    except ValueError:  # OpenSSL without ripemd160: fall back to pycoin's primitive (covered by C07, not under test here)
        from pycoin.encoding.hash import hash160
        return hash160(b)


def _b58enc(b):
    n = int.from_bytes(b, "big")
    out = ""
    while n:
        n, r = divmod(n, 58)
        out = _B58[r] + out
    z = len(b) - len(b.lstrip(b"\0"))
    return "1" * z + out


def _b58dec(s):
    n = 0
    for c in s:
        if c not in _B58_IDX:
            return None
        n = n * 58 + _B58_IDX[c]
    z = len(s) - len(s.lstrip("1"))
    body = n.to_bytes((n.bit_length() + 7) // 8, "big") if n else b""
    return b"\0" * z + body


def _b58c(payload):
    return _b58enc(payload + _sha256d(payload)[:4])


def _b58c_dec(s):
    raw = _b58dec(s) if isinstance(s, str) else None
    if raw is None or len(raw) < 4 or _sha256d(raw[:-4])[:4] != raw[-4:]:
        return None
    return raw[:-4]


_B32 = "qpzry9x8gf2tvdw0s3jn54khce6mua7l"
BECH32 = 1
BECH32M = 0x2BC830A3


def _b32_polymod(values):
    gen = (0x3B6A57B2, 0x26508E6D, 0x1EA119FA, 0x3D4233DD, 0x2A1462B3)
    chk = 1
    for v in values:
        top = chk >> 25
        chk = ((chk & 0x1FFFFFF) << 5) ^ v
        for i in range(5):
            if (top >> i) & 1:
                chk ^= gen[i]
    return chk


def _b32_encode(hrp, data5, const):
    exp = [ord(c) >> 5 for c in hrp] + [0] + [ord(c) & 31 for c in hrp]
    pm = _b32_polymod(exp + list(data5) + [0] * 6) ^ const
    chk = [(pm >> 5 * (5 - i)) & 31 for i in range(6)]
    return hrp + "1" + "".join(_B32[d] for d in list(data5) + chk)


def _to5(b, pad_value=0):
    """8->5 bit regrouping, big-endian, final group padded with pad_value bits (0 per BIP173)"""
    acc = bits = 0
    out = []
    for x in b:
        acc = (acc << 8) | x
        bits += 8
        while bits >= 5:
            bits -= 5
            out.append((acc >> bits) & 31)
            acc &= (1 << bits) - 1
    if bits:
        npad = 5 - bits
        out.append(((acc << npad) | (pad_value & ((1 << npad) - 1))) & 31)
    return out


def _segwit(hrp, ver, prog, const=None, pad_value=0):
    if const is None:
        const = BECH32 if ver == 0 else BECH32M
    return _b32_encode(hrp, [ver] + _to5(prog, pad_value), const)


# secp256k1, affine, slow and simple
_P = 2 ** 256 - 2 ** 32 - 977
_N = 0xFFFFFFFFFFFFFFFFFFFFFFFFFFFFFFFEBAAEDCE6AF48A03BBFD25E8CD0364141
_GX = 0x79BE667EF9DCBBAC55A06295CE870B07029BFCDB2DCE28D959F2815B16F81798
_GY = 0x483ADA7726A3C4655DA4FBFC0E1108A8FD17B448A68554199C47D08FFB10D4B8


def _ec_add(a, b):
    if a is None:
        return b
    if b is None:
        return a
    if a[0] == b[0]:
        if (a[1] + b[1]) % _P == 0:
            return None
        lam = 3 * a[0] * a[0] * pow(2 * a[1], -1, _P) % _P
    else:
        lam = (b[1] - a[1]) * pow(b[0] - a[0], -1, _P) % _P
    x = (lam * lam - a[0] - b[0]) % _P
    return (x, (lam * (a[0] - x) - a[1]) % _P)


def _ec_mul(k):
    r, q = None, (_GX, _GY)
    while k:
        if k & 1:
            r = _ec_add(r, q)
        q = _ec_add(q, q)
        k >>= 1
    return r


def _on_curve(x, y):
    return 0 <= x < _P and 0 <= y < _P and (y * y - x * x * x - 7) % _P == 0


def _x_has_point(x):
    if not 0 <= x < _P:
        return False
    y2 = (x * x * x + 7) % _P
    y = pow(y2, (_P + 1) // 4, _P)
    return y * y % _P == y2


def _sec(pt, compressed):
    if compressed:
        return bytes([2 + (pt[1] & 1)]) + pt[0].to_bytes(32, "big")
    return b"\4" + pt[0].to_bytes(32, "big") + pt[1].to_bytes(32, "big")


ADDR_KINDS = ("p2pkh", "p2sh", "p2wpkh", "p2wsh", "p2tr")
KIND_HASHLEN = {"p2pkh": 20, "p2sh": 20, "p2wpkh": 20, "p2wsh": 32, "p2tr": 32}
KIND_INFO = {"p2pkh": ("p2pkh", "hash160"), "p2sh": ("p2sh", "hash160"), "p2wpkh": ("p2pkh_wit", "hash160"),
             "p2wsh": ("p2sh_wit", "hash256"), "p2tr": ("p2tr", "synthetic_key")}


def _std_script(kind, h):
    if kind == "p2pkh":
        return b"\x76\xa9\x14" + h + b"\x88\xac"
    if kind == "p2sh":
        return b"\xa9\x14" + h + b"\x87"
    if kind == "p2wpkh":
        return b"\x00\x14" + h
    if kind == "p2wsh":
        return b"\x00\x20" + h
    if kind == "p2tr":
        return b"\x51\x20" + h
    raise ValueError(kind)


def _classify_exact(s):
    """exact byte templates of the five addressable standard scripts (Bitcoin Core Solver / BIP16 / BIP141 / BIP341)"""
    if len(s) == 25 and s[:3] == b"\x76\xa9\x14" and s[23:] == b"\x88\xac":
        return ("p2pkh", s[3:23])
    if len(s) == 23 and s[:2] == b"\xa9\x14" and s[22:] == b"\x87":
        return ("p2sh", s[2:22])
    if len(s) == 22 and s[:2] == b"\x00\x14":
        return ("p2wpkh", s[2:])
    if len(s) == 34 and s[:2] == b"\x00\x20":
        return ("p2wsh", s[2:])
    if len(s) == 34 and s[:2] == b"\x51\x20":
        return ("p2tr", s[2:])
    return None


def _selftest():
    """the reference encoders reproduce the official BIP / well-known vectors (guards the oracle itself)"""
    g = _sec((_GX, _GY), True)
    assert _ec_mul(1) == (_GX, _GY) and _ec_mul(_N) is None and _on_curve(*_ec_mul(_N - 1))
    assert _h160(g).hex() == "751e76e8199196d454941c45d1b3a323f1433bd6"
    assert _b58c(b"\0" + _h160(g)) == "1BgGZ9tcN4rm9KBzDn7KprQz87SZ26SAMH"
    assert _b58c_dec("1BgGZ9tcN4rm9KBzDn7KprQz87SZ26SAMH") == b"\0" + _h160(g)
    assert _segwit("bc", 0, _h160(g)) == "bc1qw508d6qejxtdg4y5r3zarvary0c5xw7kv8f3t4"
    assert _segwit("tb", 0, bytes.fromhex("1863143c14c5166804bd19203356da136c985678cd4d27a1b8c6329604903262")) == \
        "tb1qrp33g0q5c5txsp9arysrx4k6zdkfs4nce4xj0gdcccefvpysxf3q0sl5k7"
    assert _segwit("bc", 1, g[1:]) == "bc1p0xlxvlhemja6c4dqv22uapctqupfhlxm9h8z3k2e72q4k9hcz7vqzk5jj0"
    assert _b58c(b"\x80" + (1).to_bytes(32, "big") + b"\1") == "KwDiBf89QgGbjEhKnhXJuH7LrciVrZi3qYjgd9M7rFU73sVHnoWn"


_selftest()

# well-known prefixes, from the coins' own chainparams (independent anchor for a few major networks)
KNOWN_PREFIXES = {
    "BTC": dict(p2pkh="00", p2sh="05", hrp="bc", wif="80", bip32_prv="0488ade4", bip32_pub="0488b21e"),
    "XTN": dict(p2pkh="6f", p2sh="c4", hrp="tb", wif="ef", bip32_prv="04358394", bip32_pub="043587cf"),
    "LTC": dict(p2pkh="30", p2sh="32", hrp="ltc", wif="b0"),
    "DOGE": dict(p2pkh="1e", p2sh="16", wif="9e"),
    "DASH": dict(p2pkh="4c", p2sh="10", wif="cc"),
    "ZEC": dict(p2pkh="1cb8", p2sh="1cbd", wif="80"),
    "BCH": dict(p2pkh="00", p2sh="05", wif="80"),
}

# ----------------------------------------------------------------------------------------------------------------
# networks
# ----------------------------------------------------------------------------------------------------------------

B58_FAMILIES = ("p2pkh", "p2sh", "wif", "bip32_prv", "bip32_pub", "bip49_prv", "bip49_pub", "bip84_prv", "bip84_pub")


class _Net(object):
    """a registered network plus its prefixes, read back through the public *encoding* API (encode an empty payload
    and decode it with the reference Base58Check decoder)"""

    def __init__(self, code, net):
        self.code = code
        self.net = net
        self.prefix = {}
        a = net.address
        self.prefix["p2pkh"] = self._dec(lambda: a.for_p2pkh(b""))
        self.prefix["p2sh"] = self._dec(lambda: a.for_p2sh(b""))
        self.prefix["wif"] = self._dec(lambda: net.wif_for_blob(b""))
        for fam in ("bip32", "bip49", "bip84"):
            f = getattr(net, fam + "_as_string")
            self.prefix[fam + "_prv"] = self._dec(lambda: f(b"", as_private=True))
            self.prefix[fam + "_pub"] = self._dec(lambda: f(b"", as_private=False))
        w = a.for_p2pkh_wit(b"\0" * 20)
        self.hrp = w[:w.rfind("1")] if w else None
        try:
            self.sec_prefix = net.sec_text_for_blob(b"")
        except Exception:
            self.sec_prefix = None

    @staticmethod
    def _dec(f):
        try:
            s = f()
        except TypeError:  # None + bytes: prefix not configured
            return None
        return None if s is None else _b58c_dec(s)

    def addr(self, kind, h):
        """reference address of the standard script of `kind` with hash `h` on this network (None: kind undefined)"""
        if kind in ("p2pkh", "p2sh"):
            p = self.prefix[kind]
            return None if p is None else _b58c(p + h)
        if self.hrp is None:
            return None
        return _segwit(self.hrp, 1 if kind == "p2tr" else 0, h)

    def kinds(self):
        return [k for k in ADDR_KINDS if self.addr(k, b"\0" * KIND_HASHLEN[k]) is not None]


_NETS = None


def _nets():
    global _NETS
    if _NETS is None:
        from pycoin.networks.registry import network_codes, network_for_netcode
        _NETS = [_Net(c, network_for_netcode(c)) for c in network_codes() if c not in SKIPPED]
    return _NETS


def _R(code):
    return "from pycoin.networks.registry import network_for_netcode as N; n = N(%r); " % code


class _Viol(object):
    """per finding_key cap so that one defect class cannot crowd the others out of Tally's 20 slots"""

    def __init__(self, t, cap=2):
        self.t = t
        self.cap = cap
        self.counts = {}
        self.slots = {}

    def add(self, key, what, inputs, repro, slot=None):
        """`slot` names a manifestation of the defect; the cap applies per (key, slot)"""
        self.counts[key] = self.counts.get(key, 0) + 1
        c = self.slots.get((key, slot), 0)
        self.slots[(key, slot)] = c + 1
        if c < self.cap:
            self.t.violation(what=what, inputs=inputs, repro=repro, finding_key=key)

    def finish(self):
        if self.counts:
            self.t.samples.append({"violation_counts_by_finding_key": dict(sorted(self.counts.items()))})


def _hashes(rng, size, nrandom):
    hs = [b"\0" * size, b"\xff" * size, b"\0" * 3 + rng.randbytes(size - 3), rng.randbytes(size - 2) + b"\0\0",
          b"\0" * (size - 1) + b"\1", b"\1" + b"\0" * (size - 1)]
    hs += [rng.randbytes(size) for _ in range(nrandom)]
    return hs


_KEYS = {}


def _ref_keys(rng, nrandom):
    """(secret exponent, public point) pairs computed with the reference arithmetic"""
    ses = [1, 2, _N - 1, _N // 2] + [rng.randrange(1, _N) for _ in range(nrandom)]
    out = []
    for se in ses:
        if se not in _KEYS:
            _KEYS[se] = _ec_mul(se)
        out.append((se, _KEYS[se]))
    return out


# ----------------------------------------------------------------------------------------------------------------
# (1) C08.roundtrip
# ----------------------------------------------------------------------------------------------------------------

_FOR = {"p2pkh": "for_p2pkh", "p2sh": "for_p2sh", "p2wpkh": "for_p2pkh_wit", "p2wsh": "for_p2sh_wit", "p2tr": "for_p2tr"}
_LEAF = {"p2pkh": "p2pkh", "p2sh": "p2sh", "p2wpkh": "p2pkh_segwit", "p2wsh": "p2sh_segwit", "p2tr": "p2tr"}


@bounded("C08.roundtrip", props=["C08"],
         bound="48 networks x defined kinds of {P2PKH,P2SH,P2WPKH,P2WSH,P2TR} x boundary+seeded 20/32-byte hashes; "
               "reference-computed keys (1, 2, n-1, n/2, seeded) x compressed/uncompressed; BIP49/BIP84 nodes prv+pub")
def c08_roundtrip(opts):
    rng = random.Random(opts["seed"])
    thorough = opts.get("tier") == "thorough"
    t = Tally(rule="case = (network, kind, hash) | (network, secret exponent, compressed) | (network, bip49/84, key); "
                   "hashes: all-zero, all-ff, 3 leading zero bytes, trailing zeros, 00..01, 01..00, seeded random; "
                   "expected address and script are built by the harness's own Base58Check/bech32(m)/secp256k1 code; "
                   "all cases non-trivial (each exercises encode+parse+classify). " + SKIP_NOTE)
    v = _Viol(t)
    nets = _nets()
    h20 = _hashes(rng, 20, 24 if thorough else 3)
    h32 = _hashes(rng, 32, 24 if thorough else 3)
    keys = _ref_keys(rng, 12 if thorough else 2)
    chain = rng.randbytes(32)

    for N in nets:
        net, code = N.net, N.code
        for k, d in KNOWN_PREFIXES.get(code, {}).items():
            got = N.hrp if k == "hrp" else (N.prefix[k].hex() if N.prefix[k] is not None else None)
            t.case(key=(code, "known-prefix", k), sample=None)
            if got != d:
                v.add("c08-network-prefix-differs-from-chainparams", "network encodes %s with prefix %r, chainparams say %r" % (k, got, d),
                      (code, k), _R(code) + "print(n.address.for_p2pkh(b''), n.address.for_p2sh(b''), n.wif_for_blob(b''))")
        for kind in ADDR_KINDS:
            f = getattr(net.address, _FOR[kind])
            hs = h20 if KIND_HASHLEN[kind] == 20 else h32
            if kind not in N.kinds():
                t.case(key=(code, kind, "undefined"), nontrivial=False)
                continue
            for h in hs:
                t.case(key=(code, kind, h), sample={"net": code, "kind": kind, "hash": h.hex()})
                ref = N.addr(kind, h)
                script = _std_script(kind, h)
                rp = _R(code) + "a = n.address.%s(bytes.fromhex(%r)); c = n.parse.address(a); print(a, c and c.script().hex())" % (_FOR[kind], h.hex())
                try:
                    a = f(h)
                    if a != ref:
                        v.add("c08-address-encoding-differs-from-standard", "address.%s(h) differs from the reference encoding" % _FOR[kind],
                              (code, kind, h.hex(), a, ref), rp)
                        continue
                    c = net.parse.address(a)
                    if c is None or c.script() != script:
                        v.add("c08-address-does-not-parse-back-to-script", "parse.address(address.%s(h)).script() != standard %s script" % (_FOR[kind], kind),
                              (code, kind, h.hex(), a, c and c.script().hex()), rp)
                        continue
                    c2 = getattr(net.parse, _LEAF[kind])(a)
                    ok = c2 is not None and c2.script() == script and c.address() == a
                    ok = ok and net.address.for_script(script) == a and net.contract.for_address(a) == script
                    info = net.contract.info_for_script(script)
                    ok = ok and info.get("type") == KIND_INFO[kind][0] and info.get(KIND_INFO[kind][1]) == h
                    if not ok:
                        v.add("c08-script-address-apis-disagree", "leaf parser / Contract.address / address.for_script / contract.for_address / info_for_script disagree for a standard %s script" % kind,
                              (code, kind, h.hex(), a), rp)
                except Exception as e:
                    v.add("c08-roundtrip-raises-" + type(e).__name__, "address round trip raises %r" % (e,), (code, kind, h.hex()), rp)

        # key -> address
        for se, pt in keys:
            for comp in (True, False):
                t.case(key=(code, "key", se, comp), sample=None)
                sec = _sec(pt, comp)
                h = _h160(sec)
                want = N.addr("p2pkh", h)
                rp = _R(code) + "k = n.keys.private(%d, is_compressed=%r); print(k.address(), k.hash160().hex())" % (se, comp)
                try:
                    k = net.keys.private(se, is_compressed=comp)
                    pk = net.keys.public(sec)
                    got = [k.address(), k.address(is_compressed=comp), pk.address(), k.public_copy().address()]
                    ok = all(g == want for g in got) and k.hash160() == h and k.sec() == sec and pk.sec() == sec
                    ok = ok and k.address(is_compressed=not comp) == N.addr("p2pkh", _h160(_sec(pt, not comp)))
                    if want is not None:
                        c = net.parse.address(want)
                        ok = ok and c is not None and c.script() == _std_script("p2pkh", h)
                    if not ok:
                        v.add("c08-key-address-not-p2pkh-of-hash160-sec", "key.address() is not the P2PKH address of hash160(SEC(public key))",
                              (code, se, comp, got, want), rp)
                except Exception as e:
                    v.add("c08-roundtrip-raises-" + type(e).__name__, "key address raises %r" % (e,), (code, se, comp), rp)

        # BIP49 / BIP84 nodes
        for se, pt in keys[:4] if not thorough else keys:
            secc = _sec(pt, True)
            h = _h160(secc)
            blobs = {"prv": b"\0" + b"\0" * 4 + b"\0" * 4 + chain + b"\0" + se.to_bytes(32, "big"),
                     "pub": b"\0" + b"\0" * 4 + b"\0" * 4 + chain + secc}
            want = {"bip49": N.addr("p2sh", _h160(b"\x00\x14" + h)), "bip84": N.addr("p2wpkh", h), "bip32": N.addr("p2pkh", h)}
            for fam in ("bip32", "bip49", "bip84"):
                for pp, blob in blobs.items():
                    t.case(key=(code, fam, pp, se), sample=None)
                    prefix = N.prefix[fam + "_" + pp]
                    rp = _R(code) + "k = n.keys.%s_deserialize(bytes(4) + bytes.fromhex(%r)); print(k.address())" % (fam, blob.hex())
                    try:
                        if prefix is not None:
                            node = getattr(net.parse, fam)(_b58c(prefix + blob))
                            if node is None:
                                v.add("c08-valid-extended-key-refused", "parse.%s refuses a well-formed %s extended key" % (fam, pp), (code, fam, pp, se), rp)
                                continue
                        else:
                            node = getattr(net.keys, fam + "_deserialize")(b"\0" * 4 + blob)
                        got = node.address()
                        ok = got == want[fam]
                        if ok and got is not None:
                            c = net.parse.address(got)
                            exp_script = {"bip49": _std_script("p2sh", _h160(b"\x00\x14" + h)), "bip84": _std_script("p2wpkh", h),
                                          "bip32": _std_script("p2pkh", h)}[fam]
                            ok = c is not None and c.script() == exp_script
                        if not ok:
                            v.add("c08-%s-node-address-wrong" % fam, "%s node address is not the %s address of its key" % (
                                fam, {"bip49": "P2SH-P2WPKH", "bip84": "P2WPKH", "bip32": "P2PKH"}[fam]), (code, fam, pp, se, got, want[fam]), rp)
                    except Exception as e:
                        v.add("c08-roundtrip-raises-" + type(e).__name__, "%s node address raises %r" % (fam, e), (code, fam, pp, se), rp)
    v.finish()
    t.exhaustive = False
    return t.result()


# ----------------------------------------------------------------------------------------------------------------
# (2) C08.acceptance
# ----------------------------------------------------------------------------------------------------------------

def _length_check_key(script):
    if script[:2] == b"\x76\xa9":
        return "p2pkh-parser-no-length-check"
    if script[:1] == b"\xa9":
        return "p2sh-parser-no-length-check"
    return "address-accepted-with-nonstandard-script"


def _accept_check(v, N, s, origin, slot=None):
    """contract: parse.address(s) accepted => script is one of the five standard templates (payload length right) and
    the reference re-encoding of that script on this network equals s (modulo case for bech32).  Returns accepted?"""
    code = N.code
    rp = _R(code) + "c = n.parse.address(%r); print(c, c and c.script().hex(), c and n.address.for_script(c.script()))" % s
    try:
        c = N.net.parse.address(s)
    except Exception as e:
        v.add("address-parser-raises-" + type(e).__name__, "parse.address raises %r" % (e,), (code, s, origin), rp)
        return False
    if c is None:
        return False
    try:
        script = c.script()
        again = N.net.address.for_script(script)
    except Exception as e:
        v.add("accepted-address-contract-raises-" + type(e).__name__, "Contract.script()/address.for_script raise %r on an accepted address" % (e,), (code, s, origin), rp)
        return True
    k = _classify_exact(script)
    if k is None:
        v.add(_length_check_key(script), "string accepted as address although its payload has the wrong length: script %s is not a standard script (%s)" % (
            script.hex(), origin), (code, s, origin), rp, slot=slot)
        return True
    ref = N.addr(*k)
    s_cmp = s.lower() if k[0] in ("p2wpkh", "p2wsh", "p2tr") and (s == s.lower() or s == s.upper()) else s
    if ref != s_cmp or again != s_cmp:
        v.add("address-accepted-but-reencodes-differently", "accepted address denotes %s script whose re-encoding on this network is %r (API: %r), not the input (%s)" % (
            k[0], ref, again, origin), (code, s, origin), rp)
    return True


@bounded("C08.acceptance", props=["C08"],
         bound="48 networks: every Base58Check prefix of the network x payload lengths 0..40 (+41..90 thorough) x 2-3 contents; "
               "bech32/bech32m x versions {0,1,2,16,17,31} x program lengths {0,1,2,19,20,21,31,32,33,40,41} x {bech32,bech32m,bad} "
               "x {own hrp, upper case, mixed case, foreign hrp, non-zero padding}; all ordered network pairs x kinds x hashes incl. "
               "hashes crafted to continue another network's multi-byte prefix")
def c08_acceptance(opts):
    rng = random.Random(opts["seed"])
    thorough = opts.get("tier") == "thorough"
    t = Tally(rule="case = (network, candidate string); a case is non-trivial when the string is well-formed Base58Check/bech32 "
                   "carrying one of this network's prefixes/HRP, or (cross-network) a genuine address of another network; "
                   "oracle: accepted => exact standard template and reference re-encoding == input. " + SKIP_NOTE)
    v = _Viol(t, cap=1)
    nets = _nets()
    accepted = 0

    # (a) own prefixes x payload lengths
    lengths = list(range(0, 91 if thorough else 41))
    for N in nets:
        for fam in B58_FAMILIES:
            p = N.prefix[fam]
            if p is None:
                continue
            for L in lengths:
                payloads = [rng.randbytes(L), b"\0" * L]
                if thorough:
                    payloads.append(b"\xff" * L)
                for pl in sorted(set(payloads)):
                    s = _b58c(p + pl)
                    t.case(key=(N.code, s), sample={"net": N.code, "family": fam, "payload_len": L, "text": s} if L in (19, 20) else None)
                    accepted += _accept_check(v, N, s, "%s prefix %s + %d-byte payload" % (fam, p.hex(), L),
                                              slot=("other own prefix" if fam not in ("p2pkh", "p2sh") else
                                                    "19" if L == 19 else "21" if L == 21 else "other length"))

    # (b) bech32 / bech32m variations
    hrps = sorted({N.hrp for N in nets if N.hrp})
    for N in nets:
        if N.hrp is None:
            # a network without HRP must not accept any segwit address
            for hrp in hrps[:3]:
                for ver, ln in ((0, 20), (0, 32), (1, 32)):
                    s = _segwit(hrp, ver, rng.randbytes(ln))
                    t.case(key=(N.code, s), nontrivial=False)
                    if _accept_check(v, N, s, "segwit address of hrp %r on a network without hrp" % hrp):
                        v.add("segwit-address-accepted-without-hrp", "network without bech32 hrp accepts a segwit address", (N.code, s),
                              _R(N.code) + "print(n.parse.address(%r))" % s)
            continue
        foreign = [h for h in hrps if h != N.hrp][:2]
        for ver in (0, 1, 2, 16, 17, 31):
            for ln in (0, 1, 2, 19, 20, 21, 31, 32, 33, 40, 41):
                prog = rng.randbytes(ln)
                for cname, const in (("bech32", BECH32), ("bech32m", BECH32M), ("badconst", 0x3FFFFFFF)):
                    base = _segwit(N.hrp, ver, prog, const)
                    cands = [(base, "own hrp"), (base.upper(), "upper case")]
                    if (ver, ln) in ((0, 20), (0, 32), (1, 32)):
                        mixed = base[:-1] + base[-1].upper() if base[-1].isalpha() else base[:len(N.hrp)].upper() + base[len(N.hrp):]
                        cands.append((mixed, "mixed case"))
                        cands += [(_segwit(fh, ver, prog, const), "foreign hrp " + fh) for fh in foreign]
                        if ln == 32:
                            cands.append((_segwit(N.hrp, ver, prog, const, pad_value=rng.randrange(1, 16)), "non-zero padding bits"))
                        cands.append((_b32_encode(N.hrp, [ver] + _to5(prog) + [0], const), "extra zero 5-bit group"))
                    for s, how in cands:
                        origin = "%s v%d %d-byte program, %s" % (cname, ver, ln, how)
                        t.case(key=(N.code, s), sample={"net": N.code, "text": s, "origin": origin} if (ver, ln, cname, how) == (0, 20, "bech32m", "own hrp") else None)
                        acc = _accept_check(v, N, s, origin)
                        accepted += acc
                        legit = const == (BECH32 if ver == 0 else BECH32M) and ((ver == 0 and ln in (20, 32)) or (1 <= ver <= 16 and 2 <= ln <= 40))
                        legit = legit and how in ("own hrp", "upper case")
                        if acc and not legit:
                            v.add("segwit-address-accepted-against-bip173-bip350", "string that BIP173/BIP350 declare invalid is accepted as address (%s)" % origin,
                                  (N.code, s), _R(N.code) + "print(n.parse.address(%r))" % s)

    # (c) cross-network: B accepts A's address only if B itself produces that string for the script it reports
    multi = [(N.code, fam, N.prefix[fam]) for N in nets for fam in ("p2pkh", "p2sh") if N.prefix[fam] and len(N.prefix[fam]) > 1]
    nrand = 6 if thorough else 1
    for A in nets:
        texts = []
        for kind in A.kinds():
            ln = KIND_HASHLEN[kind]
            hs = [rng.randbytes(ln) for _ in range(nrand)] + [b"\0" * ln]
            if kind in ("p2pkh", "p2sh"):
                # hashes that make A's one-byte-prefixed payload start like another network's multi-byte prefix
                for _c, _f, mp in multi:
                    if len(A.prefix[kind]) < len(mp) and mp.startswith(A.prefix[kind]):
                        hs.append(mp[len(A.prefix[kind]):] + rng.randbytes(ln - len(mp) + len(A.prefix[kind])))
            for h in hs:
                texts.append((kind, h, A.addr(kind, h)))
        for B in nets:
            if B is A:
                continue
            for kind, h, s in texts:
                t.case(key=(B.code, s), sample=None)
                accepted += _accept_check(v, B, s, "%s %s address of hash %s" % (A.code, kind, h.hex()), slot="cross-network")
    t.samples.append({"accepted_strings": accepted})
    v.finish()
    t.exhaustive = False
    return t.result()


# ----------------------------------------------------------------------------------------------------------------
# (3) C08.classifier
# ----------------------------------------------------------------------------------------------------------------

def _push(data, mode="min"):
    n = len(data)
    if mode == "min":
        if n <= 75:
            return bytes([n]) + data
        if n <= 255:
            return b"\x4c" + bytes([n]) + data
        return b"\x4d" + n.to_bytes(2, "little") + data
    if mode == "pd1":
        return b"\x4c" + bytes([n]) + data
    if mode == "pd2":
        return b"\x4d" + n.to_bytes(2, "little") + data
    if mode == "pd4":
        return b"\x4e" + n.to_bytes(4, "little") + data
    raise ValueError(mode)


def _ref_ops(script):
    """reference script tokenizer: list of (opcode, data|None, minimal_push?) or None when a push runs off the end"""
    out, pc = [], 0
    while pc < len(script):
        op = script[pc]
        pc += 1
        if op <= 0x4e and op != 0:
            if op <= 75:
                n, minimal = op, True
            else:
                w = {0x4c: 1, 0x4d: 2, 0x4e: 4}[op]
                if pc + w > len(script):
                    return None
                n = int.from_bytes(script[pc:pc + w], "little")
                pc += w
                minimal = (op == 0x4c and n > 75) or (op == 0x4d and n > 255) or (op == 0x4e and n > 65535)
            if pc + n > len(script):
                return None
            data = script[pc:pc + n]
            pc += n
            if n == 1 and (1 <= data[0] <= 16 or data[0] == 0x81):
                minimal = False
            out.append((op, data, minimal))
        else:
            out.append((op, None, True))
    return out


def _template(kind, push):
    if kind == "p2pkh":
        return b"\x76\xa9" + push + b"\x88\xac"
    if kind == "p2sh":
        return b"\xa9" + push + b"\x87"
    if kind in ("p2wpkh", "p2wsh"):
        return b"\x00" + push
    if kind == "p2tr":
        return b"\x51" + push
    if kind == "p2pk":
        return push + b"\xac"
    raise ValueError(kind)


def _multisig(m_op, keys, n_op, tail=b"\xae", mode="min"):
    return m_op + b"".join(_push(k, mode) for k in keys) + n_op + tail


def _opn(n):
    return bytes([0x50 + n]) if 1 <= n <= 16 else (b"\x00" if n == 0 else _push(bytes([n])))


def _script_corpus(rng, thorough):
    out = []

    def add(label, s):
        out.append((label, bytes(s)))

    h20s = [b"\x11" * 20, b"\0" * 20, rng.randbytes(20)]
    h32s = [b"\x22" * 32, b"\0" * 32, rng.randbytes(32)]
    g = _sec((_GX, _GY), True)
    gu = _sec((_GX, _GY), False)
    pks = [g, _sec(_ec_mul(2), True), _sec(_ec_mul(3), True), gu]
    for i in range(3):
        for kind in ADDR_KINDS:
            h = (h20s if KIND_HASHLEN[kind] == 20 else h32s)[i]
            std = _std_script(kind, h)
            add("standard " + kind, std)
            for mode in ("pd1", "pd2", "pd4"):
                add("%s with hash pushed by non-minimal OP_PUSHDATA (%s)" % (kind, mode), _template(kind, _push(h, mode)))
            for d in (-1, 1):
                hh = h[:len(h) + d] if d < 0 else h + b"\x33"
                add("%s with %d-byte hash" % (kind, len(hh)), _template(kind, _push(hh)))
            add(kind + " with empty hash", _template(kind, b"\x00"))
            add(kind + " + trailing OP_NOP", std + b"\x61")
            add(kind + " + trailing OP_0", std + b"\x00")
            add(kind + " + trailing copy", std + std)
            add("OP_NOP + " + kind, b"\x61" + std)
            add(kind + " truncated by one byte", std[:-1])
            add(kind + " first byte dropped", std[1:])
    h, h2 = h20s[0], h32s[0]
    add("p2pkh with OP_EQUAL", b"\x76\xa9\x14" + h + b"\x87\xac")
    add("p2pkh with OP_HASH256", b"\x76\xaa\x14" + h + b"\x88\xac")
    add("p2pkh with OP_CHECKSIGVERIFY", b"\x76\xa9\x14" + h + b"\x88\xad")
    add("p2sh with OP_EQUALVERIFY", b"\xa9\x14" + h + b"\x88")
    add("p2sh with OP_HASH256", b"\xaa\x14" + h + b"\x87")
    add("witness v0 with OP_0 written as PUSHDATA1 0", b"\x4c\x00\x14" + h)
    add("witness v2 32-byte", b"\x52\x20" + h2)
    add("witness v16 32-byte", b"\x60\x20" + h2)
    add("witness v1 20-byte", b"\x51\x14" + h)
    add("witness v1 33-byte", b"\x51\x21" + h2 + b"\x00")
    add("OP_RESERVED 32-byte", b"\x50\x20" + h2)
    add("OP_1NEGATE 32-byte", b"\x4f\x20" + h2)
    add("witness v1 with 01 01 instead of OP_1", b"\x01\x01\x20" + h2)
    # p2pk
    for pk in (g, gu, b"\x02" * 33, b"\x05" * 65):
        add("p2pk %d-byte key" % len(pk), _template("p2pk", _push(pk)))
        for mode in ("pd1", "pd2", "pd4"):
            add("p2pk key pushed by non-minimal %s" % mode, _template("p2pk", _push(pk, mode)))
        add("p2pk + trailing OP_NOP", _template("p2pk", _push(pk)) + b"\x61")
    for n in (32, 34, 75, 76, 77, 120, 121):
        add("p2pk-like with %d-byte blob" % n, _template("p2pk", _push(rng.randbytes(n))))
    add("p2pk-like 76-byte blob via PUSHDATA2", _template("p2pk", _push(rng.randbytes(76), "pd2")))
    add("p2pk with OP_CHECKSIGVERIFY", _push(g) + b"\xad")
    # multisig
    for m, n in ((1, 1), (1, 2), (2, 2), (2, 3), (3, 3), (1, 3), (15, 15), (1, 16), (15, 16), (16, 16), (3, 16)):
        keys = [pks[i % 3] for i in range(n)]
        add("standard %d-of-%d multisig" % (m, n), _multisig(_opn(m), keys, _opn(n)))
    keys3 = pks[:3]
    add("2-of-3 multisig with an uncompressed key", _multisig(_opn(2), [g, gu, pks[1]], _opn(3)))
    add("multisig m>n (2 of 1)", _multisig(_opn(2), [g], _opn(1)))
    add("multisig m>n (3 of 2)", _multisig(_opn(3), keys3[:2], _opn(2)))
    add("multisig m=0", _multisig(b"\x00", keys3, _opn(3)))
    add("multisig m=OP_1NEGATE", _multisig(b"\x4f", keys3, _opn(3)))
    add("multisig m=OP_RESERVED", _multisig(b"\x50", keys3, _opn(3)))
    add("multisig m as 1-byte push 01 02", _multisig(b"\x01\x02", keys3, _opn(3)))
    add("multisig n as 1-byte push 01 03", _multisig(_opn(2), keys3, b"\x01\x03"))
    add("multisig n != number of keys (OP_3, 2 keys)", _multisig(_opn(2), keys3[:2], _opn(3)))
    add("multisig n != number of keys (OP_2, 3 keys)", _multisig(_opn(2), keys3, _opn(2)))
    add("multisig without n", _multisig(_opn(2), keys3, b""))
    add("multisig without OP_CHECKMULTISIG", _multisig(_opn(2), keys3, _opn(3), tail=b""))
    add("multisig with OP_CHECKMULTISIGVERIFY", _multisig(_opn(2), keys3, _opn(3), tail=b"\xaf"))
    add("multisig + trailing OP_NOP", _multisig(_opn(2), keys3, _opn(3)) + b"\x61")
    add("multisig + trailing OP_CHECKMULTISIG", _multisig(_opn(2), keys3, _opn(3)) + b"\xae")
    for mode in ("pd1", "pd2", "pd4"):
        add("2-of-3 multisig with keys pushed by non-minimal %s" % mode, _multisig(_opn(2), keys3, _opn(3), mode=mode))
        add("1-of-1 multisig with key pushed by non-minimal %s" % mode, _multisig(_opn(1), [g], _opn(1), mode=mode))
    add("multisig with a 32-byte key", _multisig(_opn(1), [g[1:]], _opn(1)))
    add("multisig with a 121-byte key", _multisig(_opn(1), [rng.randbytes(121)], _opn(1)))
    add("multisig with a 76-byte blob key", _multisig(_opn(1), [rng.randbytes(76)], _opn(1)))
    # n written with an opcode that is not a number: 0x50+k for k = 17.. are OP_NOP, OP_VER, OP_IF, OP_NOTIF, ...
    for nk, opname in ((17, "OP_NOP"), (18, "OP_VER"), (19, "OP_IF"), (20, "OP_NOTIF"), (21, "OP_VERIF")):
        keys = [pks[i % 3] for i in range(nk)]
        for m in (1, 15):
            add("%d keys, n written as %s (0x%02x), m=%d" % (nk, opname, 0x50 + nk, m), _multisig(_opn(m), keys, bytes([0x50 + nk])))
    add("17 keys, n as number push 01 11", _multisig(_opn(1), [pks[i % 3] for i in range(17)], b"\x01\x11"))
    # nulldata
    add("OP_RETURN", b"\x6a")
    add("OP_RETURN + push", b"\x6a" + _push(b"hello"))
    add("OP_RETURN + truncated push", b"\x6a\x4c\xff\x00")
    add("OP_RETURN + 80-byte push", b"\x6a" + _push(rng.randbytes(80)))
    # degenerate / truncated
    add("empty", b"")
    for raw in ("00", "51", "ac", "ae", "4c", "4cff00", "4d", "4d01", "4e", "4e010000", "14" + "11" * 10, "76a914", "76a9", "a914", "0014", "5120", "ff"):
        add("degenerate " + raw, bytes.fromhex(raw))
    # seeded mutations of standard scripts
    seeds = [s for _l, s in out if _l.startswith("standard")]
    for _ in range(1500 if thorough else 150):
        s = bytearray(rng.choice(seeds))
        for _j in range(rng.choice((1, 1, 2))):
            how = rng.randrange(4)
            pos = rng.randrange(len(s)) if s else 0
            if how == 0 and s:
                s[pos] = rng.choice((0, 0x14, 0x20, 0x21, 0x4c, 0x51, 0x61, 0x6a, 0x87, 0xac, 0xae, rng.randrange(256)))
            elif how == 1 and s:
                del s[pos]
            elif how == 2:
                s.insert(pos, rng.choice((0, 0x4c, 0x51, 0x61, 0x14, rng.randrange(256))))
            elif s:
                del s[pos:]
        add("seeded mutation", bytes(s))
    seen, uniq = set(), []
    for label, s in out:
        if s not in seen:
            seen.add(s)
            uniq.append((label, s))
    return uniq


_STD_TYPES = ("p2pkh", "p2sh", "p2pkh_wit", "p2sh_wit", "p2tr", "p2pk", "multisig", "nulldata")


def _classifier_key(script, info):
    ops = _ref_ops(script)
    if ops is not None and any(not m for _o, _d, m in ops):
        return "info-for-script-nonminimal-push-mislabelled"
    if info.get("type") == "multisig":
        i = 1 + len(info.get("sec_keys", ()))
        if ops is not None and i < len(ops) and not 0x51 <= ops[i][0] <= 0x60:
            return "info-for-script-multisig-n-from-non-number-opcode"
    return "info-for-script-unfaithful-" + str(info.get("type"))


@bounded("C08.classifier", props=["C08"],
         bound="48 networks x corpus of ~330 (quick) / ~1700 (thorough) scripts: standard P2PKH/P2SH/P2WPKH/P2WSH/P2TR/P2PK/"
               "multisig/nulldata and near-misses (non-minimal pushes, wrong lengths, extra/missing opcodes, m>n, n from "
               "non-number opcodes, truncations) + seeded byte mutations")
def c08_classifier(opts):
    rng = random.Random(opts["seed"])
    thorough = opts.get("tier") == "thorough"
    t = Tally(rule="case = (script) evaluated on every network's ContractAPI (all networks share BitcoinScriptTools, so the distinct "
                   "key is the script only); non-trivial = reported as a standard kind on some network or exactly standard by the "
                   "reference templates; oracle: reported kind => for_info/for_<kind>/Contract.script()/parse.script('0x..') "
                   "reproduce the original bytes, address.for_script parses back to the same bytes, exact templates are "
                   "recognised with the right hash. " + SKIP_NOTE)
    v = _Viol(t, cap=1)
    corpus = _script_corpus(rng, thorough)
    builders = {"p2pkh": ("for_p2pkh", "hash160"), "p2sh": ("for_p2sh", "hash160"), "p2pkh_wit": ("for_p2pkh_wit", "hash160"),
                "p2sh_wit": ("for_p2sh_wit", "hash256"), "p2tr": ("for_p2tr", "synthetic_key"), "p2pk": ("for_p2pk", "sec"),
                "nulldata": ("for_nulldata", "data")}
    for label, s in corpus:
        exact = _classify_exact(s)
        nontrivial = exact is not None
        for N in _nets():
            net, code = N.net, N.code
            rp = _R(code) + "s = bytes.fromhex(%r); i = n.contract.info_for_script(s); print(i, n.contract.for_info(i).hex())" % s.hex()
            try:
                info = net.contract.info_for_script(s)
            except Exception as e:
                v.add("info_for_script-raises-" + type(e).__name__, "info_for_script raises %r (%s)" % (e, label), (code, s.hex()), rp)
                continue
            typ = info.get("type")
            if typ in _STD_TYPES:
                nontrivial = True
            try:
                if exact is not None:
                    want_t, want_f = KIND_INFO[exact[0]]
                    if typ != want_t or info.get(want_f) != exact[1]:
                        v.add("standard-script-not-recognised", "exact %s template reported as %r" % (exact[0], info), (code, s.hex(), label), rp)
                        continue
                rebuilt = [net.contract.for_info(info), net.contract.new(info).script()]
                if typ in builders:
                    rebuilt.append(getattr(net.contract, builders[typ][0])(info[builders[typ][1]]))
                if typ == "multisig":
                    rebuilt.append(net.contract.for_multisig(info["m"], info["sec_keys"]))
                if typ != "unknown" and typ not in _STD_TYPES:
                    v.add("info-for-script-unknown-type-name", "unexpected type %r" % typ, (code, s.hex(), label), rp)
                elif any(r != s for r in rebuilt):
                    v.add(_classifier_key(s, info), "script (%s) reported as %r but rebuilding from the reported kind and parameters gives %s" % (
                        label, typ, rebuilt[0].hex() if len(rebuilt[0]) < 80 else rebuilt[0][:12].hex() + "..." + rebuilt[0][-6:].hex()),
                        (code, s.hex(), label), rp, slot="rebuild")
                # Contract API through the text parser: '0x<hex>' compiles to exactly these bytes
                c = net.parse.script("0x" + s.hex())
                if c is not None and c.script() != s:
                    v.add(_classifier_key(s, c.info()), "parse.script('0x%s...').script() differs from the compiled bytes (%s)" % (s[:6].hex(), label),
                          (code, s.hex(), label), _R(code) + "print(n.parse.script('0x' + %r).script().hex())" % s.hex(), slot="parse.script")
                # script -> address -> script
                a = net.address.for_script(s)
                if isinstance(a, str) and a != "???" and not a.startswith("(nulldata"):
                    back = net.parse.address(a)
                    if back is None or back.script() != s:
                        if typ == "p2pk":
                            v.add("p2pk-script-mapped-to-p2pkh-address", "address.for_script(P2PK script) returns the P2PKH address of the key, which denotes a "
                                  "different script (deliberate per source comment, but two scripts share one address)", (code, s.hex(), a),
                                  _R(code) + "s = bytes.fromhex(%r); a = n.address.for_script(s); print(a, n.parse.address(a).script().hex())" % s.hex())
                        else:
                            v.add(_classifier_key(s, info), "address.for_script(script) = %s parses back to a different script (%s)" % (a, label),
                                  (code, s.hex(), a), rp, slot="for_script")
            except Exception as e:
                v.add("classifier-api-raises-" + type(e).__name__, "rebuilding from info %r raises %r (%s)" % (typ, e, label), (code, s.hex()), rp)
            t.case(key=s, nontrivial=nontrivial, sample={"label": label, "script": s.hex()[:80], "type": typ} if typ != "unknown" and code == "BTC" else None)
    v.finish()
    t.exhaustive = False
    return t.result()


# ----------------------------------------------------------------------------------------------------------------
# shared by C18: object equality, re-serialisation, safe calls
# ----------------------------------------------------------------------------------------------------------------

def _types():
    from pycoin.networks.Contract import Contract
    from pycoin.key.Key import Key
    from pycoin.key.BIP32Node import BIP32Node
    from pycoin.key.BIP49Node import BIP49Node
    from pycoin.key.BIP84Node import BIP84Node
    from pycoin.key.electrum import ElectrumWallet
    return Contract, Key, BIP32Node, BIP49Node, BIP84Node, ElectrumWallet


def _same(a, b):
    Contract, Key, BIP32Node, _b49, _b84, _El = _types()
    if a is None or b is None:
        return a is b
    if type(a) is not type(b):
        return False
    if isinstance(a, Contract):
        return a.script() == b.script() and a.info() == b.info()
    if isinstance(a, BIP32Node):
        return a.is_private() == b.is_private() and a.serialize() == b.serialize()
    if isinstance(a, Key):
        return (a.secret_exponent() == b.secret_exponent() and tuple(a.public_pair()) == tuple(b.public_pair())
                and a.is_compressed() == b.is_compressed())
    return a == b


_PARSE_FUNCS = {"wif": "wif", "hparse": "bip32", "public_pair": "public_pair", "sec": "sec", "electrum_prv": "electrum_prv",
                "electrum_pub": "electrum_pub", "electrum_seed": "electrum_seed", "hd_seed": "hd_seed", "bip32_seed": "bip32_seed",
                "secret_exponent": "secret_exponent", "p2pkh": "p2pkh", "p2sh": "p2sh", "_bech32m": "segwit", "script": "script",
                "as_number": "as_number"}


def _exc_name(e):
    mod = type(e).__module__
    name = type(e).__name__
    return name if mod in ("builtins",) or mod.startswith("pycoin") else "%s.%s" % (mod, name)


def _raise_key(e):
    """finding key for an exception escaping a parser: innermost pycoin/networks/ParseAPI.py (or groestlcoin parse) frame"""
    fn = None
    for fr in traceback.extract_tb(e.__traceback__):
        if fr.filename.replace("\\", "/").endswith("networks/ParseAPI.py"):
            fn = fr.name
    return "%s-parser-raises-%s" % (_PARSE_FUNCS.get(fn, fn or "unknown"), _exc_name(e))


def _call(f, s):
    """(result, exception)"""
    try:
        return f(s), None
    except Exception as e:  # noqa
        return None, e


def _canonical(N, obj):
    """canonical text of a parsed object and the entry point that must read it back"""
    Contract, Key, BIP32Node, BIP49Node, BIP84Node, ElectrumWallet = _types()
    P = N.net.parse
    if isinstance(obj, Contract):
        k = _classify_exact(obj.script())
        if k is not None and N.addr(*k) is not None:
            return obj.address(), P.address, "address()"
        return obj.disassemble(), P.script, "disassemble()"
    if isinstance(obj, ElectrumWallet):
        # ElectrumWallet has no text serialiser of its own; "E:" + hex(serialize()) is the documented input form
        return "E:" + obj.serialize().hex(), (P.electrum_prv if obj.secret_exponent() else P.electrum_pub), "'E:'+hex(serialize())"
    if isinstance(obj, BIP32Node):
        f = P.bip49 if isinstance(obj, BIP49Node) else P.bip84 if isinstance(obj, BIP84Node) else P.bip32
        return obj.hwif(as_private=obj.is_private()), f, "hwif()"
    if isinstance(obj, Key):
        if obj.is_private():
            return obj.wif(), P.wif, "wif()"
        return obj.as_text(), P.public_key, "as_text()"
    return None, None, None


def _reserialise_ok(N, obj):
    """(ok, text, how, finding_key)"""
    Contract, Key, BIP32Node, BIP49Node, BIP84Node, ElectrumWallet = _types()
    try:
        text, f, how = _canonical(N, obj)
        if f is None:
            return True, None, None, None
        back, exc = _call(f, text)
    except Exception as e:
        return False, None, "re-serialising raises %r" % (e,), "reserialise-raises-" + _exc_name(e)
    if exc is not None:
        return False, text, how + " -> parse raises %r" % (exc,), _raise_key(exc)
    if _same(obj, back):
        return True, text, how, None
    if isinstance(obj, Key) and not isinstance(obj, (BIP32Node, ElectrumWallet)) and not obj.is_private():
        key = "public-key-as-text-sec-prefix-not-parsed"
    elif isinstance(obj, Contract):
        key = "contract-text-does-not-parse-back"
    else:
        key = "reserialised-%s-does-not-parse-back" % type(obj).__mro__[1].__name__
    return False, text, how, key


def _family_prefix(N, leaf):
    return N.prefix.get({"p2pkh": "p2pkh", "p2sh": "p2sh", "wif": "wif"}.get(leaf, leaf))


def _reinterpretation_key(N, leaf, s):
    """finding key when checksummed leaf parser `leaf` accepts s but the object's canonical text differs from s"""
    data = _b58c_dec(s)
    p = _family_prefix(N, leaf)
    payload = data[len(p):] if data is not None and p is not None and data.startswith(p) else None
    if leaf in ("p2pkh", "p2sh"):
        return "%s-parser-no-length-check" % leaf
    if leaf == "wif":
        if payload is not None and len(payload) not in (32, 33):
            return "wif-parser-no-length-check"
        if payload is not None and len(payload) == 33 and payload[-1] != 1:
            return "wif-parser-compression-flag-unchecked"
        return "wif-reinterpreted"
    if leaf.startswith("bip"):
        if payload is not None and len(payload) != 74:
            return "bip32-parser-no-length-check"
        if payload is not None and ((leaf.endswith("_prv") and payload[41] != 0) or (leaf.endswith("_pub") and payload[41] == 0)):
            return "bip32-version-key-type-mismatch-accepted"
        return "bip32-reinterpreted"
    return "segwit-address-reinterpreted"


# ----------------------------------------------------------------------------------------------------------------
# (5) C18.kinds
# ----------------------------------------------------------------------------------------------------------------

_LEAF_ACCEPTS = {
    "p2pkh": {"p2pkh"}, "p2sh": {"p2sh"}, "p2pkh_segwit": {"p2wpkh"}, "p2sh_segwit": {"p2wsh"}, "p2tr": {"p2tr"},
    "wif": {"wif_c", "wif_u"},
    "bip32_prv": {"bip32_prv"}, "bip32_pub": {"bip32_pub"}, "bip49_prv": {"bip49_prv"}, "bip49_pub": {"bip49_pub"},
    "bip84_prv": {"bip84_prv"}, "bip84_pub": {"bip84_pub"},
}
_DISPATCH_ACCEPTS = {
    "address": {"p2pkh", "p2sh", "p2wpkh", "p2wsh", "p2tr"},
    "bip32": {"bip32_prv", "bip32_pub"}, "bip49": {"bip49_prv", "bip49_pub"}, "bip84": {"bip84_prv", "bip84_pub"},
    "hierarchical_key": {"bip32_prv", "bip32_pub", "bip49_prv", "bip49_pub", "bip84_prv", "bip84_pub"},
    "private_key": {"wif_c", "wif_u"},
    "secret": {"wif_c", "wif_u", "bip32_prv", "bip32_pub", "bip49_prv", "bip49_pub", "bip84_prv", "bip84_pub"},
    "public_key": set(),
}


def _kind_matches(N, kind, payload, obj):
    """is obj the object that text of `kind` carrying `payload` denotes?"""
    Contract, Key, BIP32Node, BIP49Node, BIP84Node, ElectrumWallet = _types()
    if kind in ADDR_KINDS:
        return isinstance(obj, Contract) and obj.script() == _std_script(kind, payload)
    if kind in ("wif_c", "wif_u"):
        return (type(obj).__mro__[1] is Key and obj.secret_exponent() == int.from_bytes(payload[:32], "big")
                and obj.is_compressed() == (kind == "wif_c"))
    cls = {"bip32": BIP32Node, "bip49": BIP49Node, "bip84": BIP84Node}[kind[:5]]
    return type(obj).__mro__[1] is cls and obj.is_private() == kind.endswith("prv") and obj.serialize() == payload


@bounded("C18.kinds", props=["C18"],
         bound="48 networks x every checksummed kind the network defines (P2PKH, P2SH, P2WPKH, P2WSH, P2TR, WIF compressed/"
               "uncompressed, bip32/49/84 prv/pub) x boundary+seeded payloads x every checksummed leaf parser and every "
               "dispatcher (address, bip32/49/84, hierarchical_key, private_key, secret, public_key, __call__)")
def c18_kinds(opts):
    rng = random.Random(opts["seed"])
    thorough = opts.get("tier") == "thorough"
    t = Tally(rule="case = (network, kind, text, parser); text is built by the harness's own encoders from the network's prefixes; "
                   "non-trivial when the parser is for a different kind (must return None) or for the same kind (must return the "
                   "denoted object); parse(text) must return the object of the text's own kind. " + SKIP_NOTE)
    v = _Viol(t, cap=1)
    nk = 6 if thorough else 2
    keys = _ref_keys(rng, nk) if thorough else [(1, _ec_mul(1)), (_N - 1, _ec_mul(_N - 1))] + _ref_keys(rng, 1)[-1:]
    for N in _nets():
        net, code, P = N.net, N.code, N.net.parse
        texts = []  # (kind, payload, text)
        for kind in N.kinds():
            for h in _hashes(rng, KIND_HASHLEN[kind], nk)[:4 + nk] if thorough else [rng.randbytes(KIND_HASHLEN[kind]), b"\0" * KIND_HASHLEN[kind]]:
                texts.append((kind, h, N.addr(kind, h)))
        for se, pt in keys:
            se_b = se.to_bytes(32, "big")
            if N.prefix["wif"] is not None:
                texts.append(("wif_c", se_b + b"\1", _b58c(N.prefix["wif"] + se_b + b"\1")))
                texts.append(("wif_u", se_b, _b58c(N.prefix["wif"] + se_b)))
            head = bytes([rng.randrange(0, 256)]) + rng.randbytes(4) + rng.randbytes(4) + rng.randbytes(32)
            for fam in ("bip32", "bip49", "bip84"):
                if N.prefix[fam + "_prv"] is not None:
                    blob = head + b"\0" + se_b
                    texts.append((fam + "_prv", blob, _b58c(N.prefix[fam + "_prv"] + blob)))
                if N.prefix[fam + "_pub"] is not None:
                    blob = head + _sec(pt, True)
                    texts.append((fam + "_pub", blob, _b58c(N.prefix[fam + "_pub"] + blob)))
        for kind, payload, s in texts:
            leaf_conf = None
            for group in (_LEAF_ACCEPTS, _DISPATCH_ACCEPTS):
                for pname, accepts in group.items():
                    t.case(key=(code, kind, s, pname), sample={"net": code, "kind": kind, "text": s, "parser": pname} if pname == "wif" and kind == "p2sh" else None)
                    rp = _R(code) + "print(repr(n.parse.%s(%r)))" % (pname, s)
                    r, exc = _call(getattr(P, pname), s)
                    if exc is not None:
                        v.add(_raise_key(exc), "parse.%s raises %r on %s text" % (pname, exc, kind), (code, kind, s), rp)
                    elif kind in accepts:
                        if r is None or not _kind_matches(N, kind, payload, r):
                            key = leaf_conf or ("valid-%s-text-refused-or-misparsed" % kind.split("_")[0])
                            v.add(key, "parse.%s(%s text) returns %r instead of the denoted object" % (pname, kind, r), (code, kind, s), rp, slot=pname)
                    elif r is not None:
                        if group is _LEAF_ACCEPTS:
                            key = _reinterpretation_key(N, pname, s)
                            leaf_conf = leaf_conf or key
                        else:
                            key = leaf_conf or "dispatcher-kind-confusion-" + pname
                        v.add(key, "%s text is parsed by parse.%s as %s %r (a different checksummed kind)" % (kind, pname, type(r).__name__, r),
                              (code, kind, s), rp, slot=(kind.split("_")[0], pname))
            # the catch-all parser returns the text's own kind
            t.case(key=(code, kind, s, "__call__"), sample=None)
            rp = _R(code) + "print(repr(n.parse(%r)))" % s
            r, exc = _call(P, s)
            if exc is not None:
                v.add(_raise_key(exc), "parse(...) raises %r on %s text" % (exc, kind), (code, kind, s), rp)
            elif r is None or not _kind_matches(N, kind, payload, r):
                v.add(leaf_conf or "catch-all-parser-wrong-kind", "parse(%s text) returns %s %r, not the denoted %s object" % (kind, type(r).__name__, r, kind),
                      (code, kind, s), rp, slot=(kind.split("_")[0], "__call__"))
    v.finish()
    t.exhaustive = False
    return t.result()


# ----------------------------------------------------------------------------------------------------------------
# (4) C18.totality
# ----------------------------------------------------------------------------------------------------------------

_DISPATCHERS = {
    "address": ("p2pkh", "p2sh", "p2pkh_segwit", "p2sh_segwit", "p2tr"),
    "payable": ("address", "script"),
    "bip32": ("bip32_prv", "bip32_pub"), "bip49": ("bip49_prv", "bip49_pub"), "bip84": ("bip84_prv", "bip84_pub"),
    "hierarchical_key": ("bip32_seed", "bip32", "bip49", "bip84", "electrum_seed", "electrum_prv", "electrum_pub"),
    "private_key": ("wif", "secret_exponent"),
    "secret": ("private_key", "hierarchical_key"),
    "public_key": ("public_pair", "sec"),
    "__call__": ("payable", "secret"),
}
_CHECKSUMMED_LEAVES = ("p2pkh", "p2sh", "p2pkh_segwit", "p2sh_segwit", "p2tr", "wif", "bip32_prv", "bip32_pub", "bip49_prv",
                       "bip49_pub", "bip84_prv", "bip84_pub")


def _entry_points(parse):
    names = sorted(n for n in dir(parse) if not n.startswith("_") and callable(getattr(parse, n)))
    return names + ["__call__"]


_UNI_RANGES = ((0x20, 0x7e), (0xa0, 0xff), (0x100, 0x17f), (0x370, 0x3ff), (0x400, 0x4ff), (0x5d0, 0x5ea), (0x660, 0x669),
               (0x300, 0x36f), (0x4e00, 0x4eff), (0xff10, 0xff19), (0x1f600, 0x1f64f), (0x2000, 0x200f), (0x0, 0x1f))


def _rand_unicode(rng, n):
    out = []
    for _ in range(n):
        lo, hi = rng.choice(_UNI_RANGES)
        out.append(chr(rng.randint(lo, hi)))
    return "".join(out)


def _generic_texts(rng, thorough):
    """(label, text) pairs that do not depend on the network; no lone surrogates (they are not Unicode scalar values)"""
    gx, gy = "%d" % _GX, "%d" % _GY
    g = _sec((_GX, _GY), True).hex()
    gu = _sec((_GX, _GY), False).hex()
    core = [
        "", " ", "\n", "\x00", "a", ":", "::", "P:", "H:", "E:", "P:foo", "H:666f6f", "H:zz", "H:0", "H:", ":foo", "HP:foo", "p:foo", "X:abc",
        "P:" + "é中\U0001F600", "H:" + "ab" * 64, "P:" + "x" * 300,
        "E:zz", "E:0", "E:" + "00" * 32, "E:" + "%064x" % _N, "E:" + "%064x" % (_N - 1), "E:" + "ff" * 32, "E:" + "%064x" % 1,
        "E:" + gu[2:], "E:" + "00" * 64, "E:" + "01" * 64, "E:" + gu[2:66] + "%064x" % (_GY + 1), "E:" + "ff" * 64, "e:" + "00" * 31 + "01",
        "0", "1", "2", "-1", "+1", " 7 ", "0x1f", "1f", "ff" * 32, "%d" % (_N - 1), "%d" % _N, "%d" % (_N + 1), "%x" % _N, "%x" % (_N - 1),
        "%d" % 2 ** 256, "%d" % (2 ** 256 - 1), "1e3", "1_0", "١٢٣", "１２", "0b11", "0o17", "1.5", "9" * 4400, "f" * 5000,
        "-0", "00", "007",
        gx + "/" + gy, gx + "," + gy, gx + "/even", gx + "/odd", "%x/%x" % (_GX, _GY), "5/even", "5/odd", "5,even", "%d/even" % (_P + 1), "%d/odd" % _P,
        "%d/%d" % (_GX, _GY + 1), "%d/%d" % (_GX + _P, _GY), "0/0", "0/even", "/", ",", "1/", "/1", "1/2/3", "1,2,3", gx + "/EVEN", "-1/even", "-5/odd",
        "%d/even" % 2 ** 256, gx + " / " + gy, "even/odd", "1/1", "1,2/3", gx + "/" + gy + ",", gx + ",/" + gy,
        g, gu, g.upper(), "02" + "%064x" % 5, "03" + "%064x" % 5, "02" + "%064x" % (_P + 1), "02" + "ff" * 32, "04" + gu[2:66] + "%064x" % (_GY + 1),
        "05" + g[2:], "06" + gu[2:], "07" + gu[2:], "02", "02" * 34, "04" + "00" * 64, "00", "02" + "00" * 32, "04" + gu[2:66],
        "OP_DUP OP_HASH160 [%s] OP_EQUALVERIFY OP_CHECKSIG" % ("11" * 20), "OP_RETURN", "OP_0", "OP_1 OP_2 OP_ADD", "op_dup", "DUP", "dup", "[", "[]", "[zz]",
        "'abc'", "'", "''", "0x", "0x4c", "0x4c05", "0x0105", "0x76a94c14" + "11" * 20 + "88ac", "OP_PUSHDATA1", "OP_FOO", "1 2 3", "17", "[00]", "0x00", "[05]",
        "[81]", "0x0181", "OP_NOP " * 600, "[%s]" % ("ab" * 600), "0x6a", "OP_RETURN [deadbeef]", "OP_HASH160 [%s] OP_EQUAL" % ("22" * 20),
        "OP_0 [%s]" % ("33" * 20), "OP_1 [%s]" % ("44" * 32), "1 [%s] 1 OP_CHECKMULTISIG" % g, "\t", "OP_DUP\x00", "18446744073709551616", "-18446744073709551615",
        "1BgGZ9tcN4rm9KBzDn7KprQz87SZ26SAMH", "bc1qw508d6qejxtdg4y5r3zarvary0c5xw7kv8f3t4", "KwDiBf89QgGbjEhKnhXJuH7LrciVrZi3qYjgd9M7rFU73sVHnoWn",
        "BC1QW508D6QEJXTDG4Y5R3ZARVARY0C5XW7KV8F3T4", "bc1", "1", "11111", "1" * 200, "z" * 120, "bc1" + "q" * 100, "tb1" + "é",
    ]
    extra = []
    for n in (0, 1, 15, 17, 31, 33, 63, 65):
        extra.append("E:" + rng.randbytes(n).hex())
    extra.append("E:" + rng.randbytes(32).hex())
    extra.append("E:" + _sec(_ec_mul(7), False)[1:].hex())
    for n in list(range(0, 71)) + [128, 129, 130, 131, 140]:
        extra.append(rng.randbytes((n + 1) // 2).hex()[:n])
    for _ in range(200 if thorough else 60):
        extra.append(_rand_unicode(rng, rng.randint(1, 40)))
    for _ in range(60 if thorough else 20):
        extra.append("".join(rng.choice(_B58) for _ in range(rng.randint(1, 112))))
        extra.append(rng.choice(("bc", "tb", "ltc", "x")) + "1" + "".join(rng.choice(_B32) for _ in range(rng.randint(0, 60))))
        extra.append(rng.choice("PHEX") + ":" + _rand_unicode(rng, rng.randint(0, 20)))
        extra.append("%d%s%d" % (rng.getrandbits(rng.randint(1, 260)), rng.choice("/,"), rng.getrandbits(rng.randint(1, 260))))
        extra.append("%d%s%s" % (rng.getrandbits(256) % _P, rng.choice("/,"), rng.choice(("even", "odd"))))
        extra.append("%d" % rng.getrandbits(rng.randint(1, 300)))
    # the part of the corpus given to *every* network even in the quick tier: one or two texts per behaviour class
    keep = {"", ":", "P:foo", "H:666f6f", "H:zz", ":foo", "E:zz", "E:" + "00" * 32, "E:" + "%064x" % _N, "E:" + "%064x" % 1, "E:" + gu[2:], "E:" + "00" * 64,
            "E:" + gu[2:66] + "%064x" % (_GY + 1), "0", "1", "-1", "0x1f", "ff" * 32, "%d" % (_N - 1), "%d" % _N, "%d" % 2 ** 256, "١٢٣",
            gx + "/" + gy, gx + ",odd", gx + "/even", "5/even", "%d/even" % (_P + 1), "%d/%d" % (_GX, _GY + 1), "%d/%d" % (_GX + _P, _GY), "0/0", "/", "1/2/3",
            "-1/even", g, gu, "02" + "%064x" % 5, "02" + "%064x" % (_P + 1), "05" + g[2:], "02",
            "OP_DUP OP_HASH160 [%s] OP_EQUALVERIFY OP_CHECKSIG" % ("11" * 20), "OP_RETURN", "op_dup", "[zz]", "0x0105", "0x76a94c14" + "11" * 20 + "88ac",
            "1 [%s] 1 OP_CHECKMULTISIG" % g, "P:" + "é中\U0001F600", "1BgGZ9tcN4rm9KBzDn7KprQz87SZ26SAMH", "bc1qw508d6qejxtdg4y5r3zarvary0c5xw7kv8f3t4", "bc1", "tb1" + "é"}
    core.append(gx + ",odd")
    seen, out = set(), []
    for s in core:
        if s not in seen:
            seen.add(s)
            out.append(("generic-core" if s in keep else "generic", s))
    for s in extra:
        if s not in seen:
            seen.add(s)
            out.append(("generic", s))
    return out


def _fit(blob, L, fill=b"\0"):
    return (blob + fill * L)[:L]


def _network_texts(N, rng, lengths, thorough):
    """checksummed Base58 / bech32 strings carrying this network's prefixes: (label, text)"""
    out = []
    se = rng.randrange(1, _N)
    se_b = se.to_bytes(32, "big")
    pt = _KEYS.get(se) or _ec_mul(se)
    _KEYS[se] = pt
    secc = _sec(pt, True)
    head = b"\x03" + rng.randbytes(4) + (5).to_bytes(4, "big") + rng.randbytes(32)
    valid = {"wif": se_b + b"\1", "bip_prv": head + b"\0" + se_b, "bip_pub": head + secc}
    for fam in B58_FAMILIES:
        p = N.prefix[fam]
        if p is None:
            continue
        shape = "wif" if fam == "wif" else "bip_prv" if fam.endswith("_prv") else "bip_pub" if fam.endswith("_pub") else None
        special = []
        if fam == "wif":
            for x in (0, 1, _N - 1, _N, _N + 1, 2 ** 256 - 1):
                xb = x.to_bytes(32, "big")
                special += [("secret exponent %s, uncompressed" % hex(x)[:12], xb), ("secret exponent %s, compressed" % hex(x)[:12], xb + b"\1")]
            special += [("33 bytes, flag 00", se_b + b"\0"), ("33 bytes, flag 02", se_b + b"\2"), ("33 bytes, flag ff", se_b + b"\xff"),
                        ("34 bytes se+0101", se_b + b"\1\1"), ("34 bytes 00+se+01", b"\0" + se_b + b"\1"), ("33 bytes 00+se", b"\0" + se_b),
                        ("31 bytes", se_b[1:]), ("32 bytes with leading zero byte", b"\0" + se_b[1:]), ("65 bytes", se_b + se_b + b"\1")]
        elif shape == "bip_prv":
            for x in (0, 1, _N - 1, _N, 2 ** 256 - 1):
                special.append(("key %s" % hex(x)[:12], head + b"\0" + x.to_bytes(32, "big")))
            special += [("77-byte total: 31-byte key", head + b"\0" + se_b[1:]), ("79-byte total: key + 00", head + b"\0" + se_b + b"\0"),
                        ("79-byte total: 00 + key", head + b"\0\0" + se_b), ("byte 45 = 01", head + b"\1" + se_b), ("byte 45 = ff", head + b"\xff" + se_b),
                        ("private version, compressed public key data", head + secc), ("byte 45 = 04", head + b"\4" + se_b),
                        ("private version, uncompressed public key data", head + _sec(pt, False)), ("depth only", head[:1]), ("up to fingerprint", head[:5]),
                        ("up to child index minus one", head[:8]), ("up to child index", head[:9]), ("no key", head), ("marker only", head + b"\0")]
        elif shape == "bip_pub":
            for lab, x in (("x = 5 (no point)", 5), ("x = p", _P), ("x = p + 1", _P + 1), ("x = 2^256 - 1", 2 ** 256 - 1), ("x = 0", 0), ("x = p - 1", _P - 1)):
                special += [(lab + ", 02", head + b"\2" + x.to_bytes(32, "big")), (lab + ", 03", head + b"\3" + x.to_bytes(32, "big"))]
            special += [("public version, private key data", head + b"\0" + se_b), ("uncompressed key (110-byte total)", head + _sec(pt, False)),
                        ("byte 45 = 04, 32 bytes", head + b"\4" + se_b), ("byte 45 = 05", head + b"\5" + secc[1:]), ("77-byte total", head + secc[:-1]),
                        ("79-byte total", head + secc + b"\0"), ("hybrid 06", head + b"\6" + secc[1:]), ("no key", head), ("up to child index minus one", head[:8])]
        for lab, pl in special:
            out.append(("%s prefix %s: %s" % (fam, p.hex(), lab), _b58c(p + pl)))
        for L in lengths:
            pls = {_fit(valid[shape], L) if shape else b"\0" * L}
            if thorough or L in (20, 32, 33, 74):
                pls.add(rng.randbytes(L))
            if thorough:
                pls.add(b"\xff" * L)
            for pl in sorted(pls):
                out.append(("%s prefix %s + %d-byte payload" % (fam, p.hex(), L), _b58c(p + pl)))
    if N.hrp is not None:
        for ver in (0, 1, 2, 16):
            for ln in (0, 1, 2, 19, 20, 21, 31, 32, 33, 40, 41, 42):
                prog = rng.randbytes(ln)
                for cname, const in (("bech32", BECH32), ("bech32m", BECH32M)):
                    out.append(("%s v%d %d-byte program" % (cname, ver, ln), _segwit(N.hrp, ver, prog, const)))
        out.append(("bech32 no data", _b32_encode(N.hrp, [], BECH32)))
        out.append(("bech32m no data", _b32_encode(N.hrp, [], BECH32M)))
        out.append(("bech32 version only", _b32_encode(N.hrp, [0], BECH32)))
        out.append(("bech32 upper case", _segwit(N.hrp, 0, rng.randbytes(20)).upper()))
        out.append(("bech32 32-byte program non-zero padding", _segwit(N.hrp, 0, rng.randbytes(32), pad_value=5)))
    if N.sec_prefix:
        out.append(("sec prefix + compressed sec", N.sec_prefix + secc.hex()))
        out.append(("sec prefix + uncompressed sec", N.sec_prefix + _sec(pt, False).hex()))
        out.append(("sec prefix + garbage", N.sec_prefix + "zz"))
        out.append(("sec prefix with colon + compressed sec", N.sec_prefix.rstrip(":") + ":" + secc.hex()))
    return out




def _unserialisable_key(obj, exc):
    _C, Key, BIP32Node, _a, _b, _El = _types()
    try:
        if isinstance(obj, Key) and not obj.is_private() and max(obj.public_pair()) >= _P:
            return "public-key-coordinate-not-below-field-prime-accepted-unserialisable"
    except Exception:
        pass
    return "reserialise-raises-" + _exc_name(exc)


def _range_key(obj):
    """contents that the standards (SEC1 / BIP32) put out of range although the object round-trips"""
    _C, Key, BIP32Node, _a, _b, _El = _types()
    if isinstance(obj, BIP32Node) and not obj.is_private():
        x, y = obj.public_pair()
        if not (0 <= x < _P and 0 <= y < _P):
            return "xpub-coordinate-not-below-field-prime-accepted"
    return None


_RP_TAIL = {
    "address()": "; t = o.address(); print(o.script().hex(), t, n.parse.address(t))",
    "disassemble()": "; t = o.disassemble(); print(o.script().hex(), repr(t), n.parse.script(t).script().hex())",
    "wif()": "; t = o.wif(); print(t, repr(n.parse.wif(t)))",
    "as_text()": "; t = o.as_text(); print(t, repr(n.parse.public_key(t)), repr(n.parse(t)))",
    "hwif()": "; print(o.hwif(as_private=o.is_private()), hex(o.public_pair()[0]))",
}
_SLOW_ENTRIES = ("public_pair", "public_key")  # ~0.7 ms per call whatever the input (they build Key(1) first)
_C18_MEMO = {}


def _c18_run(opts):
    """one sweep feeding both C18.totality (never raises) and C18.faithful (re-serialisation, refusal, dispatch)"""
    memo_key = (opts["seed"], opts.get("tier"))
    if memo_key in _C18_MEMO:
        return _C18_MEMO[memo_key]
    rng = random.Random(opts["seed"])
    thorough = opts.get("tier") == "thorough"
    common = ("case = (network, text), the text being given to every public single-string entry point of network.parse "
              "(enumerated with dir(): %d of them incl. __call__); corpus: generic texts (empty, seeded unicode without lone surrogates, "
              "colon forms P:/H:/E:, numeric forms, public pairs, SEC hex, hex of lengths 0..70, script text) and per network "
              "harness-built checksummed strings: each Base58Check prefix (wif, p2pkh, p2sh, bip32/49/84 prv/pub) x payload lengths x "
              "{valid structure cut/padded to the length, random%s} + out-of-range contents (WIF exponent 0/n/2^256-1, 31/33/34-byte WIF, "
              "77/78/79-byte extended keys, key >= n, marker != 0, x without point, x >= p, version/key mismatch) + bech32(m) variants. "
              "Quick tier: full generic corpus on BTC + 2 seeded networks and a core of ~50 texts on all; the two ~0.7 ms entry points %s see "
              "every 8th checksummed text; the 100000-round electrum seed stretch ('E:'+16 bytes) runs on 1 network (thorough: 8). ")
    tt = Tally(rule=common % (0, "", _SLOW_ENTRIES) + "Non-trivial = some entry point gets past the None path (object or exception) or the "
               "text is checksummed with one of the network's prefixes. Oracle: no entry point ever raises. " + SKIP_NOTE)
    tf = Tally(rule="same sweep as C18.totality; non-trivial = some entry point returned an object or the text is checksummed with one of the "
               "network's prefixes. Oracle: a returned object re-serialises (address() / disassemble() / wif() / as_text() / hwif(); "
               "'E:'+hex(serialize()) for Electrum) to text that the matching entry point parses to an equal object; a checksummed leaf "
               "parser that accepts a harness-built string re-serialises to exactly that string (refused rather than reinterpreted) "
               "and extended public keys have coordinates < p; dispatchers agree with their member parsers. " + SKIP_NOTE)
    vt, vf = _Viol(tt, cap=1), _Viol(tf, cap=1)
    nets = _nets()
    generic = _generic_texts(rng, thorough)
    eseed = ("generic-core", "E:" + "00" * 15 + "01")
    full_generic = set(n.code for n in nets) if thorough else {"BTC"} | set(n.code for n in rng.sample(nets, 2))
    eseed_nets = set(n.code for n in rng.sample(nets, 8 if thorough else 1))
    lengths = list(range(0, 91)) if thorough else [0, 19, 20, 21, 31, 32, 33, 34, 73, 74, 75]
    calls = 0
    n_entries = 0
    for N in nets:
        code, P = N.code, N.net.parse
        entries = _entry_points(P)
        n_entries = len(entries)
        funcs = {name: (P if name == "__call__" else getattr(P, name)) for name in entries}
        checked = {}
        texts = [(lab, s, False) for lab, s in generic if lab == "generic-core" or code in full_generic]
        if code in eseed_nets:
            texts.append(eseed + (False,))
        texts += [(lab, s, True) for lab, s in _network_texts(N, rng, lengths, thorough)]
        for idx, (label, s, checksummed) in enumerate(texts):
            results, reached, got_object = {}, False, False
            skip_slow = checksummed and not thorough and idx % 8
            for name in entries:
                if skip_slow and name in _SLOW_ENTRIES:
                    continue
                r, exc = _call(funcs[name], s)
                calls += 1
                results[name] = (r, exc)
                if exc is not None:
                    reached = True
                    cmd = "n.parse(%r)" % s if name == "__call__" else "n.parse.%s(%r)" % (name, s)
                    vt.add(_raise_key(exc), "parse.%s raises %r instead of returning None (%s)" % (name, exc, label),
                           (code, name, s if len(s) < 200 else s[:200] + "..."), _R(code) + cmd)
                    continue
                if r is None or isinstance(r, (int, bytes)):
                    continue
                reached = got_object = True
                rp0 = _R(code) + "o = n.parse%s(%r); print(repr(o))" % ("" if name == "__call__" else "." + name, s)
                rp = rp0
                # faithful: re-serialise -> parse -> equal object
                try:
                    ctext, _f, how0 = _canonical(N, r)
                    rp = rp0 + _RP_TAIL.get(how0, "")
                    memo = (type(r).__name__, ctext, getattr(r, "is_compressed", lambda: None)())
                except Exception as e:
                    vf.add(_unserialisable_key(r, e), "re-serialising the result of parse.%s raises %r (%s)" % (name, e, label), (code, name, s[:200]),
                           rp0 + "; print(o.public_pair()); print(o.as_text())")
                    continue
                if memo not in checked:
                    checked[memo] = _reserialise_ok(N, r)
                ok, text, how, key = checked[memo]
                if not ok:
                    if key == "contract-text-does-not-parse-back" and how == "disassemble()":
                        key = "script-disassembly-does-not-parse-back"
                    vf.add(key, "parse.%s returns %r whose %s = %r does not parse back to an equal object (%s)" % (name, r, how, text, label),
                           (code, name, s[:200]), rp)
                # refused rather than reinterpreted: checksummed leaf parsers must give back exactly the input text
                if checksummed and name in _CHECKSUMMED_LEAVES:
                    if ctext != (s.lower() if name in ("p2pkh_segwit", "p2sh_segwit", "p2tr") else s):
                        vf.add(_reinterpretation_key(N, name, s), "parse.%s accepts a checksummed string (%s) but the object's canonical text is %r: wrong-length / "
                               "out-of-range payload silently reinterpreted" % (name, label, ctext), (code, name, s), rp)
                    else:
                        rk = _range_key(r)
                        if rk:
                            vf.add(rk, "parse.%s accepts an extended public key whose coordinate is >= p (%s)" % (name, label), (code, name, s), rp)
            # dispatchers agree with their members
            for d, members in _DISPATCHERS.items():
                if d not in results or any(m not in results for m in members):
                    continue
                if results[d][1] is not None or any(results[m][1] is not None for m in members):
                    continue
                r = results[d][0]
                ms = [results[m][0] for m in members]
                ok = (r is None and all(m is None for m in ms)) or (r is not None and any(m is not None and _same(r, m) for m in ms))
                if not ok:
                    vf.add("dispatcher-inconsistent-" + d, "parse.%s returns %r but its member parsers %s return %r (%s)" % (d, r, members, ms, label),
                           (code, d, s[:200]), _R(code) + "print(repr(n.parse%s(%r)))" % ("" if d == "__call__" else "." + d, s))
            smp = None
            if checksummed and "+ 74-byte" in label:
                smp = {"net": code, "label": label, "text": s[:120], "accepted_by": [k for k, (r, e) in results.items() if r is not None][:8]}
            tt.case(key=(code, s), nontrivial=reached or checksummed, sample=smp)
            tf.case(key=(code, s), nontrivial=got_object or checksummed, sample=smp)
    tt.rule = tt.rule.replace("(enumerated with dir(): 0 of them", "(enumerated with dir(): %d of them" % n_entries)
    info = {"entry_points": _entry_points(nets[0].net.parse), "parser_calls": calls}
    tt.samples.append(info)
    tf.samples.append({"parser_calls": calls})
    vt.finish()
    vf.finish()
    tt.exhaustive = tf.exhaustive = False
    _C18_MEMO.clear()
    _C18_MEMO[memo_key] = (tt.result(), tf.result())
    return _C18_MEMO[memo_key]


_C18_BOUND = ("48 networks x every public single-string ParseAPI entry point (37) x [generic corpus ~450 texts | per network: every "
              "Base58Check prefix x payload lengths (quick: 11 boundary lengths; thorough: all 0..90) x 1-3 contents + ~60 out-of-range "
              "WIF / extended-key contents + ~100 bech32(m) variants]")


@bounded("C18.totality", props=["C18"], bound=_C18_BOUND)
def c18_totality(opts):
    return _c18_run(opts)[0]


@bounded("C18.faithful", props=["C18"], bound=_C18_BOUND)
def c18_faithful(opts):
    return _c18_run(opts)[1]
