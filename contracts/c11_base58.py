"""C11: Base58 -- the real b2a_base58 / a2b_base58 (with to_long / from_long inlined, generic loop invariants) against the
mathematical definition of the codec: the value of the input read as big-endian digits is written in the other base, and
every leading zero digit is kept as one zero digit ('1' in Base58, 0x00 in bytes).

Assumptions: str.encode('utf8') / bytes.decode('utf8') are the identity on ASCII code points (axioms below); a2b_base58 is
specified for ASCII text.  The inverse property at the level of these definitions (decode(encode(s)) == s) is decided by the
bounded harness C11.base58, not by a lemma here."""
from pyvc.api import *
from spec.core import *
from spec.basex import *
from pycoin.encoding.exceptions import EncodingError
import pycoin.encoding.b58 as _b58
import z3 as _z3
from pyvc.values import SV as _SV, lift as _lift

T = "pycoin.encoding.b58:"
BC = "pycoin.encoding.base_conversion:"


def _sp_utf8(ip, s, *a):
    f = _z3.Function('utf8_bytes', _z3.SeqSort(_z3.IntSort()), _z3.SeqSort(_z3.IntSort()))
    return _SV(f(_lift(s, 'str').e), 'bytes')


@spec(special=_sp_utf8)
def utf8_encode(s, *a):
    return s.encode("utf8")


def _sp_ascii_dec(ip, b, *a):
    f = _z3.Function('utf8_text', _z3.SeqSort(_z3.IntSort()), _z3.SeqSort(_z3.IntSort()))
    return _SV(f(_lift(b, 'bytes').e), 'str')


@spec(special=_sp_ascii_dec)
def ascii_decode(b, *a):
    return b.decode("utf8")


def _sp_codes(ip, t):
    return _SV(_lift(t).e, 'bytes')


@spec(special=_sp_codes)
def codes(t):
    """code points of a text as a byte string (only used on ASCII text)"""
    return t.encode("latin-1") if isinstance(t, str) else t


@axiom(sig={}, reason="CPython: the UTF-8 encoding of ASCII text is the sequence of its code points")
def utf8_ascii(t):
    return implies(ascii_upto(codes(t), len(t)), utf8_encode(t) == codes(t))


# ---------------------------------------------------------------- generic loop invariants of to_long / from_long
@invariant(BC + "to_long", 0)
def _to_long_inv(base, s, v, prefix, _i):
    if _i < len(s):
        digits_ok_prefix(base, s, len(s), _i + 1)       # a bad character here means the whole string is not made of digits
    return (v == dval_upto(base, s, _i), prefix == zpre_upto(base, s, _i), digits_ok_upto(base, s, _i), v >= 0)


@invariant(BC + "from_long", 0, modifies=["ba"])
def _from_long_inv(base, v, ba, old_v):
    return (v >= 0, lsd_chars(base, old_v) == bytes(ba) + lsd_chars(base, v))


# ---------------------------------------------------------------- the codec
@contract(T + "b2a_base58")
class b2a_base58:
    """bytes -> Base58 text: value in base 58, one '1' per leading zero byte"""
    props = ["C11"]
    options = {'reveal': ['digit_of', 'char_of']}
    sig = dict(s=Bytes(sample_max=12, interesting=[b"", b"\x00", b"\x00\x00", b"\x00\x01", b"\xff", b"\x00\xff\x00"]))
    returns = Str()

    def ensures_definition(s, result):
        v = dval_upto(256, s, len(s))
        z = zpre_upto(256, s, len(s))
        return result == ascii_decode(positional(58, v, z))

    canaries = [(BC + "to_long", "if v == 0:", "if v != 0:"), (BC + "to_long", "v *= base", "v *= base + 1"),
                (BC + "from_long", "ba.reverse()", "pass")]


@contract(T + "a2b_base58")
class a2b_base58:
    """Base58 text -> bytes: refused (EncodingError) exactly when a character is not in the alphabet"""
    props = ["C11"]
    options = {'reveal': ['digit_of', 'char_of']}
    sig = dict(s=Str(sample_max=8, alphabet="1112ABCabcz0l"))
    returns = Bytes()

    def requires(s):
        return ascii_upto(codes(s), len(s))

    def hints(s):
        utf8_ascii(s)

    def _bad_char(s):
        return not digits_ok_upto(58, codes(s), len(s))

    def ensures_definition(s, result):
        t = codes(s)
        v = dval_upto(58, t, len(t))
        z = zpre_upto(58, t, len(t))
        return result == positional(256, v, z)

    raises = [(EncodingError, _bad_char, True)]


# ---------------------------------------------------------------- Base58Check
from spec.sighash import dsha256


def b58_text(d):
    """Base58 text of the byte string d (definition)"""
    return ascii_decode(positional(58, dval_upto(256, d, len(d)), zpre_upto(256, d, len(d))))


def b58_bytes(t):
    """bytes denoted by the Base58 digit string t (definition)"""
    return positional(256, dval_upto(58, t, len(t)), zpre_upto(58, t, len(t)))


@contract(T + "b2a_hashed_base58")
class b2a_hashed_base58:
    props = ["C11"]
    sig = dict(data=Bytes(sample_max=12))
    returns = Str()

    def ensures_checksum_appended(data, result):
        return result == b58_text(data + dsha256(data)[:4])

    canaries = [("double_sha256(data)[:4]", "double_sha256(data)[:3]")]


@contract(T + "a2b_hashed_base58")
class a2b_hashed_base58:
    """accepted exactly when every character is a Base58 digit and the last four bytes are the checksum of the rest"""
    props = ["C11"]
    sig = dict(s=Str(sample_max=10, alphabet="1112ABCabcz0l"))
    returns = Bytes()

    def requires(s):
        return ascii_upto(codes(s), len(s))

    def _rejected(s):
        t = codes(s)
        if not digits_ok_upto(58, t, len(t)):
            return True
        d = b58_bytes(t)
        return dsha256(d[:-4])[:4] != d[-4:]

    def ensures_payload(s, result):
        d = b58_bytes(codes(s))
        return (result == d[:-4], dsha256(result)[:4] == d[-4:])

    raises = [(EncodingError, _rejected, True)]
    canaries = [("if double_sha256(data)[:4] == the_hash:", "if double_sha256(data)[:3] == the_hash[:3]:")]


@contract(T + "is_hashed_base58_valid")
class is_hashed_base58_valid:
    props = ["C11"]
    sig = dict(base58=Str(sample_max=10, alphabet="1112ABCabcz0l"))
    returns = Bool()

    def requires(base58):
        return ascii_upto(codes(base58), len(base58))

    def ensures_verdict(base58, result):
        t = codes(base58)
        d = b58_bytes(t)
        return result == (digits_ok_upto(58, t, len(t)) and dsha256(d[:-4])[:4] == d[-4:])


# ---------------------------------------------------------------- decode(encode(s)) == s
@axiom(sig={}, reason="CPython: decoding ASCII bytes as UTF-8 gives the text with those code points")
def ascii_text(b):
    return implies(ascii_upto(b, len(b)), codes(ascii_decode(b)) == b)


def b58_roundtrip(s):
    return _b58.a2b_base58(_b58.b2a_base58(s))


def b58check_roundtrip(data):
    return _b58.a2b_hashed_base58(_b58.b2a_hashed_base58(data))


@contract("contracts.c11_base58:b58_roundtrip")
class c_b58_roundtrip:
    """a2b_base58(b2a_base58(s)) == s for every byte string (through the two contracts above and the lemma family of
    spec/basex.py: value, digits and leading zeros of the positional text; a byte string is the text of its own value)"""
    props = ["C11"]
    sig = dict(s=Bytes(sample_max=12, interesting=[b"", b"\x00", b"\x00\x00\x01", b"\xff" * 5]))
    returns = Bytes()

    def hints(s):
        base58_roundtrip_spec(s)
        ascii_text(positional(58, dval_upto(256, s, len(s)), zpre_upto(256, s, len(s))))

    def ensures_identity(s, result):
        return result == s


@contract("contracts.c11_base58:b58check_roundtrip")
class c_b58check_roundtrip:
    """Base58Check decoding of the Base58Check encoding gives the data back (and is never refused)"""
    props = ["C11"]
    sig = dict(data=Bytes(sample_max=12))
    returns = Bytes()

    def hints(data):
        d = data + dsha256(data)[:4]
        base58_roundtrip_spec(d)
        ascii_text(positional(58, dval_upto(256, d, len(d)), zpre_upto(256, d, len(d))))

    def ensures_identity(data, result):
        return result == data
