"""C19 (Tier B, bounded): hash primitives give standard digests in every configuration.

Oracle: the property statement + the public standards it names: RIPEMD-160 (Dobbertin/Bosselaers/Preneel; the
published test vectors pin the reference), SHA-256 (hashlib), MurmurHash3 x86_32 (Appleby; reference below written with
explicit 32-bit words, pinned by the SMHasher / Bitcoin Core hash_tests vectors) and BIP37 (seed_i = i*0xFBA4C795 +
nTweak mod 2^32, bit = hash mod (8*size), vData[bit >> 3] |= 1 << (bit & 7); pinned by Core's bloom_tests vectors).
hashlib's OpenSSL RIPEMD-160 is the reference digest; it is first validated against the published vectors.

Configurations: the module as imported here (native RIPEMD-160) and a child interpreter started with
PYCOIN_USE_PYTHON_RIPEMD160=1 (subprocess.run; the worker is daemonic so no multiprocessing), in which
pycoin.encoding.hash must have selected the bundled pure-Python implementation.
"""
import hashlib
import json
import os
import random
import struct
import subprocess
import sys

from pyvc.bounded import bounded, Tally

MAX_PER_KEY = 3


class KTally(Tally):
    """Tally that keeps at most MAX_PER_KEY violations per finding key so one defect cannot crowd out another."""

    def __init__(self, rule):
        super().__init__(rule)
        self.per_key = {}

    def violation(self, what, inputs, repro=None, finding_key=None):
        k = finding_key or what
        self.per_key[k] = self.per_key.get(k, 0) + 1
        if self.per_key[k] <= MAX_PER_KEY:
            super().violation(what, inputs, repro, finding_key)

    def result(self):
        r = super().result()
        r["violation_counts_by_key"] = dict(self.per_key)
        return r


# ----------------------------------------------------------------------------------------------------------------
# references
# ----------------------------------------------------------------------------------------------------------------

RIPEMD_VECTORS = [
    (b"", "9c1185a5c5e9fc54612808977ee8f548b2258d31"),
    (b"a", "0bdc9d2d256b3ee9daae347be6f4dc835a467ffe"),
    (b"abc", "8eb208f7e05d987a9b044a8e98c6b087f15a0bfc"),
    (b"message digest", "5d0689ef49d2fae572b881b123a85ffa21595f36"),
    (b"abcdefghijklmnopqrstuvwxyz", "f71c27109c692c1b56bbdceb5b9d2865b3708dbc"),
    (b"abcdbcdecdefdefgefghfghighijhijkijkljklmklmnlmnomnopnopq", "12a053384a9c0c88e405a06c27dcf49ada62eb2b"),
    (b"ABCDEFGHIJKLMNOPQRSTUVWXYZabcdefghijklmnopqrstuvwxyz0123456789", "b0e20b6e3116640286ed3a87a5713079b21f5189"),
    (b"1234567890" * 8, "9b752e45573d4b39f4dbd3323cab82bf63326bfb"),
    (b"a" * 1000000, "52783243c1697bdbe16d37f97f68f08325dc1528"),
]


def ref_ripemd160(b):
    return hashlib.new("ripemd160", b).digest()


def ref_reference_ok():
    return all(ref_ripemd160(m).hex() == h for m, h in RIPEMD_VECTORS)


def ref_sha256d(b):
    return hashlib.sha256(hashlib.sha256(b).digest()).digest()


def ref_hash160(b):
    return ref_ripemd160(hashlib.sha256(b).digest())


M32 = 0xFFFFFFFF


def _rotl(x, r):
    return ((x << r) | (x >> (32 - r))) & M32


def ref_murmur3(data, seed):
    """MurmurHash3_x86_32 on 32-bit words; seed is a uint32_t parameter (wider values wrap as in C)"""
    h = seed & M32
    nblocks = len(data) // 4
    for (k,) in struct.iter_unpack("<I", data[:4 * nblocks]):
        k = (k * 0xCC9E2D51) & M32
        k = _rotl(k, 15)
        k = (k * 0x1B873593) & M32
        h ^= k
        h = _rotl(h, 13)
        h = (h * 5 + 0xE6546B64) & M32
    tail = data[4 * nblocks:]
    if tail:
        k = int.from_bytes(tail, "little")
        k = (k * 0xCC9E2D51) & M32
        k = _rotl(k, 15)
        k = (k * 0x1B873593) & M32
        h ^= k
    h ^= len(data) & M32
    h ^= h >> 16
    h = (h * 0x85EBCA6B) & M32
    h ^= h >> 13
    h = (h * 0xC2B2AE35) & M32
    h ^= h >> 16
    return h


# SMHasher verification values and Bitcoin Core src/test/hash_tests.cpp (murmurhash3)
MURMUR_VECTORS = [
    (0x00000000, 0x00000000, ""), (0x6A396F08, 0xFBA4C795, ""), (0x81F16F39, 0xFFFFFFFF, ""),
    (0x514E28B7, 0x00000000, "00"), (0xEA3F0B17, 0xFBA4C795, "00"), (0xFD6CF10D, 0x00000000, "ff"),
    (0x16C6B7AB, 0x00000000, "0011"), (0x8EB51C3D, 0x00000000, "001122"), (0xB4471BF8, 0x00000000, "00112233"),
    (0xE2301FA8, 0x00000000, "0011223344"), (0xFC2E4A15, 0x00000000, "001122334455"),
    (0xB074502C, 0x00000000, "00112233445566"), (0x8034D2A0, 0x00000000, "0011223344556677"),
    (0xB4698DEF, 0x00000000, "001122334455667788"),
    (0x514E28B7, 0x00000001, ""), (0x76293B50, 0x00000000, "ffffffff"), (0xF55B516B, 0x00000000, "21436587"),
    (0x2362F9DE, 0x5082EDEE, "21436587"), (0x7E4A8634, 0x00000000, "214365"), (0xA0F7B07A, 0x00000000, "2143"),
    (0x72661CF4, 0x00000000, "21"), (0x2362F9DE, 0x00000000, "00000000"), (0x85F0B427, 0x00000000, "000000"),
    (0x30F4C306, 0x00000000, "0000"),
]


def ref_bloom(size, nfuncs, tweak, items):
    """BIP37 / CBloomFilter::insert: the filter bytes after inserting items, and the bit indexes per item"""
    v = bytearray(size)
    idxs = []
    for it in items:
        cur = []
        for i in range(nfuncs):
            seed = (i * 0xFBA4C795 + tweak) & M32
            bit = ref_murmur3(it, seed) % (size * 8)
            v[bit >> 3] |= 1 << (bit & 7)
            cur.append(bit)
        idxs.append(cur)
    return bytes(v), idxs


# Bitcoin Core src/test/bloom_tests.cpp: CBloomFilter(3, 0.01, tweak, BLOOM_UPDATE_ALL) => 3 bytes, 5 hash functions
BLOOM_ITEMS = ["99108ad8ed9bb6274d3980bab5a85c048f0950c8", "b5a2c786d9ef4658287ced5914b37a1b4aa32eee",
               "b9300670b4c5366e95b2699e8b18bc75e5f729c5"]
BLOOM_VECTORS = [(3, 5, 0, "614e9b"), (3, 5, 2147483649, "ce4299")]


def _lengths(rng, thorough):
    ls = list(range(0, 301))
    ls += [311, 319, 320, 321, 375, 376, 383, 384, 447, 448, 511, 512, 513, 1000, 1023, 1024, 4095, 4096, 4999, 5000,
           8191, 8192, 8193, 70000]      # beyond 5000: bit length >= 2^16 / 2^19 in the length field
    ls += [rng.randrange(301, 5001) for _ in range(120 if thorough else 12)]
    if thorough:
        ls += list(range(301, 1100))
    return ls


def _msg(rng, n):
    r = rng.random()
    if r < 0.1:
        return b"\x00" * n
    if r < 0.2:
        return b"\xff" * n
    if r < 0.25:
        return b"\x80" * n
    return rng.randbytes(n)


# ----------------------------------------------------------------------------------------------------------------
# 1. RIPEMD-160 / hash160 / double_sha256, native configuration
# ----------------------------------------------------------------------------------------------------------------

@bounded("C19.digests_native", props=["C19"],
         bound="configuration = default (native hashlib RIPEMD-160 selected): every message length 0..300 (x3 contents "
               "incl. all-00/ff/80 patterns), the block/padding boundaries up to 5000 and seeded lengths up to 5000; the "
               "bundled pure-Python ripemd160() called directly on the same messages; published RIPEMD-160 vectors")
def c19_digests_native(opts):
    rng = random.Random(opts["seed"])
    thorough = opts.get("tier") == "thorough"
    import pycoin.contrib.ripemd160 as pure
    from pycoin.encoding import hash as H
    t = KTally(rule="case = (message length, message); contrib.ripemd160.ripemd160(m), encoding.hash.ripemd160(m).digest(), "
                    "hash160(m) and double_sha256(m) are compared with hashlib (RIPEMD-160 reference validated against "
                    "the published vectors first)")
    if not ref_reference_ok():
        raise AssertionError("hashlib RIPEMD-160 does not reproduce the published vectors: no reference available")
    for m, hx in RIPEMD_VECTORS:
        t.case(key=("vec", len(m), m[:8]), sample={"vector": m[:20].decode(), "len": len(m)})
        if len(m) <= 100000 or thorough:
            if pure.ripemd160(m).hex() != hx:
                t.violation("pure-Python RIPEMD-160 fails a published test vector", (m[:30], len(m)),
                            repro="from pycoin.contrib.ripemd160 import ripemd160; print(ripemd160(%r).hex())" % m[:60],
                            finding_key="ripemd160-python-wrong")
        if H.ripemd160(m).digest().hex() != hx:
            t.violation("encoding.hash.ripemd160 fails a published test vector", (m[:30], len(m)),
                        finding_key="ripemd160-selected-wrong")
    sel = type(H.ripemd160(b"")).__name__
    for n in _lengths(rng, thorough):
        for rep in range(3 if n <= 300 else 1):
            m = _msg(rng, n) if rep else rng.randbytes(n)
            t.case(key=(n, m), sample={"len": n} if n in (55, 56, 64, 120) else None)
            rp = ("import hashlib; from pycoin.contrib.ripemd160 import ripemd160 as r; from pycoin.encoding.hash import *; "
                  "m = bytes.fromhex(%r); print(r(m).hex(), hashlib.new('ripemd160', m).hexdigest(), hash160(m).hex())"
                  % (m.hex() if n <= 400 else m[:400].hex()))
            want = ref_ripemd160(m)
            try:
                if pure.ripemd160(m) != want:
                    t.violation("pure-Python RIPEMD-160 differs from the standard digest (length %d)" % n, (n, m[:40].hex()),
                                repro=rp, finding_key="ripemd160-python-wrong")
                if H.ripemd160(m).digest() != want:
                    t.violation("encoding.hash.ripemd160 (%s) differs from the standard digest" % sel, (n, m[:40].hex()),
                                repro=rp, finding_key="ripemd160-selected-wrong")
                h = H.hash160(m)
                if h != ref_hash160(m) or len(h) != 20:
                    t.violation("hash160(m) != RIPEMD160(SHA256(m))", (n, m[:40].hex()), repro=rp,
                                finding_key="hash160-wrong")
                d = H.double_sha256(m)
                if bytes(d) != ref_sha256d(m) or d != ref_sha256d(m) or len(d) != 32:
                    t.violation("double_sha256(m) != SHA256(SHA256(m))", (n, m[:40].hex()), repro=rp,
                                finding_key="double-sha256-wrong")
                if str(d) != ref_sha256d(m)[::-1].hex():
                    t.violation("str(double_sha256(m)) is not the byte-reversed hex", (n,), repro=rp,
                                finding_key="double-sha256-wrong")
            except Exception as ex:
                t.violation("hash primitive raises %s" % type(ex).__name__, (n, repr(ex)), repro=rp,
                            finding_key="hash-raises")
    # hash160 of the pure implementation composed by hand (what the fallback configuration computes)
    for n in (0, 1, 33, 65, 55, 56, 64):
        m = rng.randbytes(n)
        t.case(key=("h160-pure", m))
        if pure.ripemd160(hashlib.sha256(m).digest()) != ref_hash160(m):
            t.violation("pure RIPEMD160(SHA256(m)) differs from hash160", (n, m.hex()), finding_key="ripemd160-python-wrong")
    t.exhaustive = False
    return t.result()


# ----------------------------------------------------------------------------------------------------------------
# 2. the PYCOIN_USE_PYTHON_RIPEMD160 configuration (child interpreter)
# ----------------------------------------------------------------------------------------------------------------

CHILD = r"""
import sys, json, os
sys.path[:0] = [%(repo)r]
import pycoin.encoding.hash as H
import pycoin.contrib.ripemd160 as pure
from pycoin.symbols.btc import network
msgs = [bytes.fromhex(h) for h in json.load(sys.stdin)]
out = {
    "env": os.environ.get("PYCOIN_USE_PYTHON_RIPEMD160"),
    "selected": getattr(H.ripemd160, "__name__", repr(H.ripemd160)),
    "obj": type(H.ripemd160(b"")).__name__,
    "rmd": [H.ripemd160(m).digest().hex() for m in msgs],
    "h160": [H.hash160(m).hex() for m in msgs],
    "dsha": [bytes(H.double_sha256(m)).hex() for m in msgs],
    "addr1": network.keys.private(1).address(),
    "addr1u": network.keys.private(1, is_compressed=False).address(),
}
json.dump(out, sys.stdout)
"""


def _run_child(msgs, env_value):
    import pycoin
    repo = os.path.dirname(os.path.dirname(os.path.abspath(pycoin.__file__)))
    env = dict(os.environ)
    env.pop("PYCOIN_USE_PYTHON_RIPEMD160", None)
    if env_value is not None:
        env["PYCOIN_USE_PYTHON_RIPEMD160"] = env_value
    env["PYTHONDONTWRITEBYTECODE"] = "1"
    p = subprocess.run([sys.executable, "-B", "-c", CHILD % {"repo": repo}], input=json.dumps([m.hex() for m in msgs]),
                       capture_output=True, text=True, env=env, timeout=300)
    if p.returncode != 0:
        return None, p.stderr[-600:]
    return json.loads(p.stdout), None


@bounded("C19.digests_python_fallback", props=["C19"],
         bound="configuration = PYCOIN_USE_PYTHON_RIPEMD160=1 in a child interpreter: every message length 0..300, the "
               "padding boundaries and seeded lengths up to 5000; implementation selection checked in both "
               "configurations; BTC addresses of key 1 pinned")
def c19_digests_python_fallback(opts):
    rng = random.Random(opts["seed"] + 1)
    thorough = opts.get("tier") == "thorough"
    t = KTally(rule="case = (configuration, message); in the child interpreter encoding.hash must have selected the "
                    "pure-Python implementation when the variable is set (and the native one when it is not), and "
                    "ripemd160(m).digest(), hash160(m), double_sha256(m) must equal the hashlib digests computed here")
    if not ref_reference_ok():
        raise AssertionError("hashlib RIPEMD-160 does not reproduce the published vectors: no reference available")
    msgs = []
    for n in _lengths(rng, thorough):
        msgs.append(rng.randbytes(n))
        if n <= 130 or n in (119, 120, 183, 184):
            msgs.append(_msg(rng, n))
    msgs += [m for m, _ in RIPEMD_VECTORS if len(m) < 1000]
    rp = ("PYCOIN_USE_PYTHON_RIPEMD160=1 python3 -c \"import hashlib; from pycoin.encoding.hash import *; m = bytes.fromhex('%s'); "
          "print(ripemd160, hash160(m).hex(), hashlib.new('ripemd160', hashlib.sha256(m).digest()).hexdigest())\"")
    for env_value, label in (("1", "python-fallback"), (None, "native")):
        use = msgs if env_value else msgs[:80]
        out, err = _run_child(use, env_value)
        t.case(key=("config", label), sample={"config": label, "selected": out and out["selected"], "obj": out and out["obj"]})
        if out is None:
            t.violation("child interpreter for configuration %s failed" % label, err, finding_key="hash-config-import-fails")
            continue
        pure_selected = out["obj"] == "_PurePythonRIPEMD160"
        if env_value and not pure_selected:
            t.violation("PYCOIN_USE_PYTHON_RIPEMD160 is set but the pure-Python RIPEMD-160 was not selected",
                        (out["selected"], out["obj"]), repro=rp % "", finding_key="ripemd160-selection-ignores-env")
        if not env_value and pure_selected:
            t.violation("native RIPEMD-160 is available but the pure-Python one was selected",
                        (out["selected"], out["obj"]), finding_key="ripemd160-selection-wrong")
        if out["addr1"] != "1BgGZ9tcN4rm9KBzDn7KprQz87SZ26SAMH" or out["addr1u"] != "1EHNa6Q4Jz2uvNExL497mE43ikXhwF6kZm":
            t.violation("address of secret exponent 1 wrong in configuration %s" % label, (out["addr1"], out["addr1u"]),
                        repro=rp % "", finding_key="hash160-wrong-in-%s" % label)
        for i, m in enumerate(use):
            t.case(key=(label, m), sample={"config": label, "len": len(m)} if len(m) in (55, 56, 64) else None)
            mh = m.hex() if len(m) <= 300 else m[:300].hex()
            if out["rmd"][i] != ref_ripemd160(m).hex():
                t.violation("ripemd160 differs from the standard digest in configuration %s (length %d)" % (label, len(m)),
                            (len(m), mh[:80]), repro=rp % mh, finding_key="ripemd160-wrong-in-%s" % label)
            if out["h160"][i] != ref_hash160(m).hex():
                t.violation("hash160 differs from RIPEMD160(SHA256(m)) in configuration %s (length %d)" % (label, len(m)),
                            (len(m), mh[:80]), repro=rp % mh, finding_key="hash160-wrong-in-%s" % label)
            if out["dsha"][i] != ref_sha256d(m).hex():
                t.violation("double_sha256 wrong in configuration %s" % label, (len(m), mh[:80]), repro=rp % mh,
                            finding_key="double-sha256-wrong")
    t.exhaustive = False
    return t.result()


# ----------------------------------------------------------------------------------------------------------------
# 3. murmur3
# ----------------------------------------------------------------------------------------------------------------

def _seeds(rng, k):
    return [0, 1, 0xFBA4C795, 2 ** 32 - 1, 2 ** 32, 2 ** 40 + 5, 2 ** 31, 2 ** 31 - 1, 2 * 0xFBA4C795, 49 * 0xFBA4C795 + 2 ** 32 - 1,
            2 ** 64 - 1, 2 ** 64 + 7] + [rng.randrange(2 ** 32) for _ in range(k)] + [rng.randrange(2 ** 32, 2 ** 70) for _ in range(k)]


@bounded("C19.murmur3", props=["C19"],
         bound="every data length 0..40 (x several contents incl. bytes >= 0x80 in every lane) and seeded lengths to 600 "
               "x seeds {0,1,0xFBA4C795,2^31-1,2^31,2^32-1,2^32,2^40+5,2^64-1,..., seeded 32-bit and wider}; the "
               "SMHasher / Bitcoin Core murmurhash3 vectors")
def c19_murmur3(opts):
    rng = random.Random(opts["seed"] + 2)
    thorough = opts.get("tier") == "thorough"
    from pycoin.bloomfilter import murmur3
    t = KTally(rule="case = (data, seed); murmur3(data, seed) must equal MurmurHash3_x86_32 computed on 32-bit words with "
                    "the seed taken mod 2^32 (uint32_t parameter), and be an int in [0, 2^32)")
    bad = [(h, s, d) for h, s, d in MURMUR_VECTORS if ref_murmur3(bytes.fromhex(d), s) != h]
    if bad:
        raise AssertionError("harness MurmurHash3 reference fails published vectors: %r" % bad)
    for h, s, d in MURMUR_VECTORS:
        t.case(key=("vec", s, d), sample={"data": d, "seed": s, "hash": h})
        got = murmur3(bytes.fromhex(d), s)
        if got != h:
            t.violation("murmur3 fails a published MurmurHash3_x86_32 vector", (d, s, got, h),
                        repro="from pycoin.bloomfilter import murmur3; print(hex(murmur3(bytes.fromhex(%r), %d)))" % (d, s),
                        finding_key="murmur3-wrong")
        if s == 0 and murmur3(bytes.fromhex(d)) != h:
            t.violation("murmur3 default seed is not 0", d, finding_key="murmur3-wrong")
    seeds = _seeds(rng, 12 if thorough else 3)
    lengths = list(range(0, 41)) + [63, 64, 65, 100, 255, 256, 600] + [rng.randrange(41, 600) for _ in range(20 if thorough else 4)]
    for n in lengths:
        datas = [rng.randbytes(n), b"\xff" * n, b"\x80" * n, b"\x00" * n]
        datas += [rng.randbytes(n) for _ in range(6 if thorough else 1)]
        if n:
            datas.append(bytes(0x80 + (i * 37) % 128 for i in range(n)))
        for data in datas:
            for seed in seeds:
                t.case(key=(data, seed), sample={"len": n, "seed": seed} if seed in (2 ** 32, 0xFBA4C795) and n in (0, 3) else None)
                rp = "from pycoin.bloomfilter import murmur3; print(hex(murmur3(bytes.fromhex(%r), %d)))" % (data.hex(), seed)
                try:
                    got = murmur3(data, seed=seed)
                    want = ref_murmur3(data, seed)
                    if got != want or not isinstance(got, int):
                        t.violation("murmur3 differs from MurmurHash3_x86_32" + (" for a seed >= 2^32" if seed >= 2 ** 32 else ""),
                                    (data.hex()[:80], seed, got, want), repro=rp,
                                    finding_key="murmur3-wrong-wide-seed" if seed >= 2 ** 32 else "murmur3-wrong")
                    if isinstance(data, bytes) and n in (0, 5, 16) and murmur3(bytearray(data), seed) != want:
                        t.violation("murmur3(bytearray) differs", (data.hex()[:80], seed), repro=rp, finding_key="murmur3-wrong")
                except Exception as ex:
                    t.violation("murmur3 raises %s" % type(ex).__name__, (data.hex()[:80], seed, repr(ex)), repro=rp,
                                finding_key="murmur3-raises")
    t.exhaustive = False
    return t.result()


# ----------------------------------------------------------------------------------------------------------------
# 4. Bloom filter bit positions
# ----------------------------------------------------------------------------------------------------------------

class _Spendable:
    def __init__(self, tx_hash, idx):
        self.tx_hash = tx_hash
        self.tx_out_index = idx


@bounded("C19.bloom_bits", props=["C19"],
         bound="filter sizes 1..40 bytes x hash counts 1..20 x tweaks {0,1,5,2^31,2147483649,2^32-1,2^32,2^32+99,2^40+5,"
               "seeded} (quick: 4 tweaks per shape) x 3 seeded items of 20/32/36/0..50 bytes inserted cumulatively; Core "
               "bloom_tests vectors; add_hash160/add_address/add_spendable")
def c19_bloom_bits(opts):
    rng = random.Random(opts["seed"] + 3)
    thorough = opts.get("tier") == "thorough"
    from pycoin.bloomfilter import BloomFilter, murmur3
    t = KTally(rule="case = (size, hash count, tweak, items); after every add_item the whole filter_bytes must equal the "
                    "BIP37 reference filter (so exactly the prescribed bits and no other are set), check_bit must be true "
                    "for every prescribed index (and for the raw 32-bit hash, which it reduces itself) and false for "
                    "every other index, filter_load_params must hand back (bytes, count, tweak)")
    # pinned vectors
    for size, nf, tweak, hx in BLOOM_VECTORS:
        t.case(key=("vec", tweak), sample={"size": size, "nfuncs": nf, "tweak": tweak, "filter": hx})
        items = [bytes.fromhex(i) for i in BLOOM_ITEMS]
        if ref_bloom(size, nf, tweak, items)[0].hex() != hx:
            raise AssertionError("harness BIP37 reference fails Bitcoin Core's bloom_tests vector")
        bf = BloomFilter(size, nf, tweak)
        for it in items:
            bf.add_item(it)
        if bytes(bf.filter_bytes).hex() != hx:
            t.violation("BloomFilter does not reproduce Bitcoin Core's bloom_tests vector", (size, nf, tweak, bytes(bf.filter_bytes).hex()),
                        repro="from pycoin.bloomfilter import BloomFilter; b = BloomFilter(3, 5, %d); "
                              "[b.add_item(bytes.fromhex(i)) for i in %r]; print(bytes(b.filter_bytes).hex())" % (tweak, BLOOM_ITEMS),
                        finding_key="bloom-core-vector-mismatch")
    base_tweaks = [0, 1, 5, 2 ** 31, 2147483649, 2 ** 32 - 1, 2 ** 32, 2 ** 32 + 99, 2 ** 40 + 5, 2 ** 64 + 3]
    for size in range(1, 41):
        for nf in range(1, 21):
            tweaks = base_tweaks + [rng.randrange(2 ** 32), rng.randrange(2 ** 32, 2 ** 48)] if thorough else \
                rng.sample(base_tweaks, 3) + [rng.randrange(2 ** 33)]
            for tweak in tweaks:
                items = [rng.randbytes(rng.choice((20, 32, 36, rng.randrange(0, 51)))) for _ in range(3)]
                t.case(key=(size, nf, tweak, tuple(items)), sample={"size": size, "nfuncs": nf, "tweak": tweak})
                rp = ("from pycoin.bloomfilter import BloomFilter; b = BloomFilter(%d, %d, %d); "
                      "[b.add_item(bytes.fromhex(i)) for i in %r]; print(bytes(b.filter_bytes).hex())"
                      % (size, nf, tweak, [i.hex() for i in items]))
                try:
                    bf = BloomFilter(size, nf, tweak)
                    if bytes(bf.filter_bytes) != b"\0" * size:
                        t.violation("fresh filter is not all zero", (size,), repro=rp, finding_key="bloom-bits-wrong")
                    ok = True
                    for k in range(1, len(items) + 1):
                        bf.add_item(items[k - 1])
                        want, idxs = ref_bloom(size, nf, tweak, items[:k])
                        if bytes(bf.filter_bytes) != want:
                            ok = False
                            extra = bytes(a & ~b for a, b in zip(bf.filter_bytes, want))
                            missing = bytes(b & ~a for a, b in zip(bf.filter_bytes, want))
                            t.violation("add_item does not set exactly the BIP37 bit positions"
                                        + (" (tweak >= 2^32)" if tweak >= 2 ** 32 else ""),
                                        (size, nf, tweak, "extra=" + extra.hex(), "missing=" + missing.hex()), repro=rp,
                                        finding_key="bloom-bits-wrong-wide-tweak" if tweak >= 2 ** 32 else "bloom-bits-wrong")
                            break
                    if ok:
                        want, idxs = ref_bloom(size, nf, tweak, items)
                        setbits = {b for cur in idxs for b in cur}
                        for b in range(size * 8):
                            if bf.check_bit(b) != (b in setbits):
                                t.violation("check_bit disagrees with the BIP37 bit set", (size, nf, tweak, b), repro=rp,
                                            finding_key="bloom-check-bit-wrong")
                                break
                        # membership as a peer computes it: every hash of every inserted item hits a set bit
                        for it in items:
                            for i in range(nf):
                                hv = ref_murmur3(it, (i * 0xFBA4C795 + tweak) & M32)
                                if not bf.check_bit(hv) or not bf.check_bit(hv % (size * 8)):
                                    t.violation("an inserted element is not matched (check_bit false on its own hash)",
                                                (size, nf, tweak, it.hex(), i), repro=rp, finding_key="bloom-membership-lost")
                        fb, c, tw = bf.filter_load_params()
                        if bytes(fb) != want or c != nf or tw != tweak:
                            t.violation("filter_load_params does not return (bytes, hash count, tweak)", (size, nf, tweak),
                                        repro=rp, finding_key="bloom-load-params-wrong")
                except Exception as ex:
                    t.violation("BloomFilter raises %s" % type(ex).__name__, (size, nf, tweak, repr(ex)), repro=rp,
                                finding_key="bloom-raises")
    # the convenience adders insert the right serialisations
    h160 = rng.randbytes(20)
    from pycoin.symbols.btc import network
    addr = network.address.for_p2pkh(h160)
    txh = rng.randbytes(32)
    for size, nf, tweak in ((36, 11, 0), (20, 7, 2 ** 32 - 1), (5, 20, 12345)):
        t.case(key=("adders", size, nf, tweak))
        a, b, c = BloomFilter(size, nf, tweak), BloomFilter(size, nf, tweak), BloomFilter(size, nf, tweak)
        a.add_hash160(h160)
        b.add_address(addr)
        want = ref_bloom(size, nf, tweak, [h160])[0]
        if bytes(a.filter_bytes) != want or bytes(b.filter_bytes) != want:
            t.violation("add_hash160 / add_address do not insert the 20-byte hash160", (size, nf, tweak, addr),
                        repro="from pycoin.bloomfilter import BloomFilter; b = BloomFilter(%d, %d, %d); b.add_address(%r); "
                              "print(bytes(b.filter_bytes).hex())" % (size, nf, tweak, addr), finding_key="bloom-adder-wrong")
        for idx in (0, 1, 255, 256, 2 ** 32 - 1):
            c = BloomFilter(size, nf, tweak)
            c.add_spendable(_Spendable(txh, idx))
            if bytes(c.filter_bytes) != ref_bloom(size, nf, tweak, [txh + idx.to_bytes(4, "little")])[0]:
                t.violation("add_spendable does not insert the serialised outpoint (hash || index LE32)", (size, nf, tweak, idx),
                            finding_key="bloom-adder-wrong")
    t.exhaustive = False
    return t.result()
