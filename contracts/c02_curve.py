"""C02: Curve.add -- the control flow and coordinate formulas of the real method (SMT), and the formulas == Mathlib's
group law (Lean, statements regenerated from /repo's source by tools/gen_curve_lean.py on every run)."""
from pyvc.api import *
from spec.core import *
from spec.group import inv_mod
from spec.numth import *
from pycoin.ecdsa.Curve import Curve

INFINITY = (None, None)


class PointXY(Builder):
    """a point given by integer coordinates, or the point at infinity (None, None)"""

    def symbolic(self, ip, name):
        isinf = fresh(name + "_isinf", 'bool')
        if ip.st.branch(isinf.e, name + " is infinity"):
            return (None, None)
        return (fresh(name + "_x", 'int'), fresh(name + "_y", 'int'))

    def sample(self, rng):
        from pycoin.ecdsa.secp256k1 import secp256k1_generator as g
        r = rng.random()
        if r < 0.15:
            return g.infinity()
        return g * rng.randrange(1, 50)

    def to_engine(self, ip, native):
        return (native[0], native[1])

    def from_model(self, ip, model, value):
        if value[0] is None:
            return (None, None)
        return (Int().from_model(ip, model, value[0]), Int().from_model(ip, model, value[1]))


def _plain_point(x, y):
    """stand-in for Curve.Point inside this unit: the coordinates themselves (the range/on-curve check of Point() is not
    part of the formulas; that the sum is on the curve is Mathlib's nonsingular_add)"""
    return (x, y)


def _mk_curve(v):
    from pycoin.ecdsa.secp256k1 import secp256k1_generator
    return secp256k1_generator


CURVE = Obj(Curve, dict(_p=Int(3), _a=Int(), _b=Int(), _infinity=Const(INFINITY), Point=Const(_plain_point)), make=_mk_curve, shared=True)


@axiom(sig=dict(a=Int(), m=Int(2)), reason="definition of the symbol inv_mod: where a residue coprime to m has an inverse in (0, m) (it does: Bezout; "
                                             "lean/ModArith.lean exists_inverse), inv_mod(a mod m, m) denotes it")
def inv_mod_def(a, m):
    w = inv_mod(a % m, m)
    return implies(m >= 2 and gcd(m, a % m) == 1, (w * a) % m == 1 and 0 < w and w < m)


@contract("pycoin.ecdsa.Curve:Curve.inverse_mod")
class inverse_mod:
    """extended Euclid (Ferguson-Schneier form): Bezout coefficients as loop invariant, the classical size invariant
    |uc| d + |ud| c = m for the range of the result, uniqueness of inverses (Lean) for the link to inv_mod"""
    props = ["C02"]
    sig = dict(self=CURVE, a=Int(), m=Int(2))
    returns = Int()

    def requires(self, a, m):
        return m >= 2 and a % m != 0 and is_prime(m)

    def hints(self, a, m):
        prime_coprime(m, a)

    def at_return(self, a, m, ud, vd, old_a):
        bezout_mod(ud, a, vd, m)             # (ud * a) % m == 1 for the reduced a
        mod_mul_cong(ud, old_a, m)           # ... and so for the argument itself
        mod_shift(ud, old_a, m)              # ... and for ud + m
        inv_mod_def(old_a, m)
        inverse_unique(m, old_a, ud, inv_mod(old_a % m, m))
        inverse_unique(m, old_a, ud + m, inv_mod(old_a % m, m))

    def ensures_range(self, a, m, result):
        return (0 < result, result < m)

    def ensures_product(self, a, m, result):
        return (result * a) % m == 1

    def ensures_spec(self, a, m, result):
        return result == inv_mod(a % m, m)

    canaries = [("ud - q * uc", "ud + q * uc"), ("return ud + m", "return ud")]

    def samples(rng):
        m = rng.choice([2, 3, 5, 7, 11, 13, 101, 65537, 2 ** 127 - 1, 2 ** 256 - 2 ** 32 - 977,
                        0xFFFFFFFFFFFFFFFFFFFFFFFFFFFFFFFEBAAEDCE6AF48A03BBFD25E8CD0364141])
        a = rng.choice([rng.randrange(-3 * m, 3 * m), rng.randrange(1, m) if m > 2 else 1, -1, 1, m - 1, m + 1])
        return {'self': _mk_curve(None), 'a': a, 'm': m}


@invariant("pycoin.ecdsa.Curve:Curve.inverse_mod", 0)
def _euclid_inv(self, a, m, c, d, uc, vc, ud, vd, old_a):
    return (a == old_a % m, 0 <= c, c < d, gcd(d, c) == 1,
            uc * a + vc * m == c, ud * a + vd * m == d,
            (uc >= 0 and ud <= 0) or (uc <= 0 and ud >= 0),
            abs(ud) <= abs(uc),
            abs(uc) * d + abs(ud) * c == m)


def add_spec(p, a, p0, p1):
    """chord-and-tangent addition on y^2 = x^3 + a x + b over F_p in integer coordinates; these are the formulas whose Lean
    counterparts (lean/gen/CurveAddGen.lean, generated from the source) are proved equal to Mathlib's addX/addY"""
    if p0[0] is None:
        return p1
    if p1[0] is None:
        return p0
    x0, y0, x1, y1 = p0[0], p0[1], p1[0], p1[1]
    if (x0 - x1) % p == 0:
        if (y0 + y1) % p == 0:
            return INFINITY
        slope = ((3 * x0 * x0 + a) * inv_mod((2 * y0) % p, p)) % p
    else:
        slope = ((y1 - y0) * inv_mod((x1 - x0) % p, p)) % p
    x3 = (slope * slope - x0 - x1) % p
    y3 = (slope * (x0 - x3) - y0) % p
    return (x3, y3)


@contract("pycoin.ecdsa.Curve:Curve.add")
class curve_add:
    props = ["C02"]
    sig = dict(self=CURVE, p0=PointXY(), p1=PointXY())
    lean_gen = ("tools/gen_curve_lean.py", "lean/gen/CurveAddGen.lean")
    # the (nonlinear) product clause of inverse_mod's contract is not needed here and only slows the solvers down
    options = {'callee_ensures': {"pycoin.ecdsa.Curve:Curve.inverse_mod": ["range", "spec"]}}

    def requires(self, p0, p1):
        # doubling needs an invertible 2*y0 (true for points of odd order on the curve: Lean theorem add_double derives it)
        if p0[0] is None or p1[0] is None:
            return True
        return (is_prime(self._p),
                implies((p0[0] - p1[0]) % self._p == 0 and (p0[1] + p1[1]) % self._p != 0, (2 * p0[1]) % self._p != 0))

    def ensures_formulas(self, p0, p1, result):
        return result == add_spec(self._p, self._a, p0, p1)

    def ensures_range(self, p0, p1, result):
        if p0[0] is None or p1[0] is None:
            return True
        if (p0[0] - p1[0]) % self._p == 0 and (p0[1] + p1[1]) % self._p == 0:
            return result == INFINITY
        return 0 <= result[0] and result[0] < self._p and 0 <= result[1] and result[1] < self._p

    canaries = [("slope * slope - x0 - x1", "slope * slope - x0 - x0"), ("if (y0 + y1) % p == 0:", "if (y0 - y1) % p == 0:")]


@contract("pycoin.ecdsa.Curve:Curve.contains_point")
class contains_point:
    """membership in the curve: the point at infinity, or y^2 = x^3 + a x + b (mod p)"""
    props = ["C02"]
    sig = dict(self=CURVE, x=Opt(Int()), y=Opt(Int()))
    returns = Bool()

    def requires(self, x, y):
        return (x is None) == (y is None)

    def ensures_equation(self, x, y, result):
        if x is None:
            return result == True
        return result == ((y * y - (x * x * x + self._a * x + self._b)) % self._p == 0)

    canaries = [("self._a * x", "self._a * y")]
