"""C01 Tier B (bounded stand-in): ECDSA - deterministic signatures verify for the signer and for nobody else.

Oracle: the property statement + RFC 6979 (own HMAC-SHA256 implementation below) + the textbook ECDSA verification
predicate evaluated with an independent affine reference (ref_add/ref_mul).  Nothing from pycoin is used to compute
expected values.

Configurations covered: pure-Python Generator (toy curves, secp256k1, secp256r1 parameters) and the shipped
OpenSSL-accelerated generators.  libsecp256k1 is NOT loadable in this sandbox (its mix-in is a no-op), so the native
sign/verify overrides of pycoin/ecdsa/native/secp256k1.py are not exercised.

Cost notes: Generator.raw_mul always performs 256 point additions (~0.8 ms on a toy curve, ~15 ms pure-Python on a
256-bit curve); a pure-Python variable-base multiplication on a 256-bit curve is ~35 ms; OpenSSL ~1 ms; the affine
reference ladder ~10 ms.  Counts per tier are stated in each bound.
"""
import hashlib
import hmac
import random

from pyvc.bounded import bounded, Tally

from pycoin.ecdsa.Generator import Generator

REPO_HDR = "import sys; sys.path[:0]=['/repo']; "
INF = (None, None)


# ----------------------------------------------------------------------------------------------- reference
def ref_add(P, Q, p, a):
    if P is None:
        return Q
    if Q is None:
        return P
    x1, y1 = P
    x2, y2 = Q
    if x1 == x2:
        if (y1 + y2) % p == 0:
            return None
        lam = (3 * x1 * x1 + a) * pow(2 * y1, -1, p) % p
    else:
        lam = (y2 - y1) * pow(x2 - x1, -1, p) % p
    x3 = (lam * lam - x1 - x2) % p
    return (x3, (lam * (x1 - x3) - y1) % p)


def ref_mul_affine(P, k, p, a, n):
    k %= n
    R = None
    for bit in bin(k)[2:] if k else "":
        R = ref_add(R, R, p, a)
        if bit == "1":
            R = ref_add(R, P, p, a)
    return R


def ref_mul(P, k, p, a, n):
    """same ladder in Jacobian coordinates (one inversion at the end): ~4x faster on 256-bit fields.  Cross-checked
    against the affine ladder in _selftest()."""
    k %= n
    if P is None or k == 0:
        return None
    if p < 2 ** 32:
        return ref_mul_affine(P, k, p, a, n)
    px, py = P
    X, Y, Z = 0, 1, 0   # infinity
    for bit in bin(k)[2:]:
        # double
        if Z:
            if Y == 0:
                X, Y, Z = 0, 1, 0
            else:
                YY = Y * Y % p
                S = 4 * X * YY % p
                ZZ = Z * Z % p
                M = (3 * X * X + a * ZZ * ZZ) % p
                X2 = (M * M - 2 * S) % p
                Z = 2 * Y * Z % p
                Y = (M * (S - X2) - 8 * YY * YY) % p
                X = X2
        if bit == "1":
            if not Z:
                X, Y, Z = px, py, 1
            else:
                ZZ = Z * Z % p
                U2 = px * ZZ % p
                S2 = py * ZZ * Z % p
                H = (U2 - X) % p
                Rr = (S2 - Y) % p
                if H == 0:
                    if Rr == 0:
                        # doubling of the current point (cannot happen inside a ladder for prime order, kept for safety)
                        aff = _jac_to_affine(X, Y, Z, p)
                        d = ref_add(aff, aff, p, a)
                        X, Y, Z = (0, 1, 0) if d is None else (d[0], d[1], 1)
                    else:
                        X, Y, Z = 0, 1, 0
                else:
                    HH = H * H % p
                    HHH = H * HH % p
                    V_ = X * HH % p
                    X3 = (Rr * Rr - HHH - 2 * V_) % p
                    Y = (Rr * (V_ - X3) - Y * HHH) % p
                    Z = Z * H % p
                    X = X3
    return _jac_to_affine(X, Y, Z, p)


def _jac_to_affine(X, Y, Z, p):
    if not Z:
        return None
    zi = pow(Z, -1, p)
    zi2 = zi * zi % p
    return (X * zi2 % p, Y * zi2 * zi % p)


class RefCurve(object):
    def __init__(self, p, a, b, G, n):
        self.p, self.a, self.b, self.G, self.n = p, a % p, b, G, n
        self._gcache = {}

    def mulG(self, k):
        k %= self.n
        if k not in self._gcache:
            if len(self._gcache) > 20000:
                self._gcache.clear()
            self._gcache[k] = ref_mul(self.G, k, self.p, self.a, self.n)
        return self._gcache[k]

    def mul(self, P, k):
        return ref_mul(P, k, self.p, self.a, self.n)

    def add(self, P, Q):
        return ref_add(P, Q, self.p, self.a)

    def on_curve(self, P):
        return P is None or (P[1] * P[1] - P[0] ** 3 - self.a * P[0] - self.b) % self.p == 0

    def verify(self, Q, z, r, s):
        """textbook predicate of the property statement"""
        n = self.n
        if not (isinstance(r, int) and isinstance(s, int) and 1 <= r < n and 1 <= s < n):
            return False
        w = pow(s, -1, n)
        X = self.add(self.mulG(z * w % n), self.mul(Q, r * w % n))
        if X is None:
            return False
        return X[0] % n == r

    def nonce_point_for(self, Q, z, r, s):
        n = self.n
        w = pow(s, -1, n)
        return self.add(self.mulG(z * w % n), self.mul(Q, r * w % n))


def rfc6979_nonces(q, x, h1):
    """RFC 6979 section 3.2 with HMAC-SHA256; h1 = the 32-byte message hash.  Yields k candidates in order."""
    qlen = q.bit_length()
    rlen = (qlen + 7) // 8

    def bits2int(bs):
        v = int.from_bytes(bs, "big")
        blen = len(bs) * 8
        return v >> (blen - qlen) if blen > qlen else v

    def int2octets(v):
        return v.to_bytes(rlen, "big")

    def bits2octets(bs):
        z1 = bits2int(bs)
        return int2octets(z1 - q if z1 >= q else z1)

    def H(key, msg):
        return hmac.new(key, msg, hashlib.sha256).digest()
    V = b"\x01" * 32
    K = b"\x00" * 32
    K = H(K, V + b"\x00" + int2octets(x) + bits2octets(h1))
    V = H(K, V)
    K = H(K, V + b"\x01" + int2octets(x) + bits2octets(h1))
    V = H(K, V)
    while True:
        T = b""
        while len(T) * 8 < qlen:
            V = H(K, V)
            T += V
        k = bits2int(T)
        if 1 <= k < q:
            yield k
        K = H(K, V + b"\x00")
        V = H(K, V)


def rfc6979_first_sig(rc, d, z):
    """(k, R, r, s) for the FIRST RFC 6979 nonce; e = z mod n as in the property's verification equation"""
    n = rc.n
    k = next(rfc6979_nonces(n, d, z.to_bytes(32, "big")))
    R = rc.mulG(k)
    r = R[0] % n
    s = pow(k, -1, n) * (z + r * d) % n
    return k, R, r, s


# self-test of the reference RFC 6979 against the RFC's own appendix vectors (A.1 and A.2.5/P-256, SHA-256)
def _selftest():
    q = 0x4000000000000000000020108A2E0CC0D99F8A5EF
    x = 0x09A4D6792295A7F730FC3F2B49CBC0F62E862272F
    assert next(rfc6979_nonces(q, x, hashlib.sha256(b"sample").digest())) == 0x23AF4074C90A02B3FE61D286D5C87F425E6BDD81B
    q = 0xFFFFFFFF00000000FFFFFFFFFFFFFFFFBCE6FAADA7179E84F3B9CAC2FC632551
    x = 0xC9AFA9D845BA75166B5C215767B1D6934E50C3DB36E89B127B8A622B120F6721
    assert next(rfc6979_nonces(q, x, hashlib.sha256(b"sample").digest())) == 0xA6E3C57DD01ABE90086538398355DD4C3B17AA873382B0F24D6129493D8AAD60
    assert next(rfc6979_nonces(q, x, hashlib.sha256(b"test").digest())) == 0xD16B6AE827F17175E040871A1C7EC3500192C4C92677336EC2537ACAEE0008E0


    # Jacobian ladder == affine ladder (secp256k1 and P-256 parameters)
    for (p, a, G, n) in ((2 ** 256 - 2 ** 32 - 977, 0, (0x79BE667EF9DCBBAC55A06295CE870B07029BFCDB2DCE28D959F2815B16F81798, 0x483ADA7726A3C4655DA4FBFC0E1108A8FD17B448A68554199C47D08FFB10D4B8), 0xFFFFFFFFFFFFFFFFFFFFFFFFFFFFFFFEBAAEDCE6AF48A03BBFD25E8CD0364141),
                         (0xFFFFFFFF00000001000000000000000000000000FFFFFFFFFFFFFFFFFFFFFFFF, -3 % 0xFFFFFFFF00000001000000000000000000000000FFFFFFFFFFFFFFFFFFFFFFFF, (0x6B17D1F2E12C4247F8BCE6E563A440F277037D812DEB33A0F4A13945D898C296, 0x4FE342E2FE1A7F9B8EE7EB4A7C0F9E162BCE33576B315ECECBB6406837BF51F5), 0xFFFFFFFF00000000FFFFFFFFFFFFFFFFBCE6FAADA7179E84F3B9CAC2FC632551)):
        for k in (1, 2, 3, 7, n - 1, n, n + 1, 0x1234567890ABCDEF ** 3, 2 ** 255 + 12345):
            assert ref_mul(G, k, p, a, n) == ref_mul_affine(G, k, p, a, n)
        Q = ref_mul(G, 987654321, p, a, n)
        assert ref_mul(Q, 2 ** 200 + 5, p, a, n) == ref_mul_affine(Q, 2 ** 200 + 5, p, a, n)


_selftest()


def _is_prime(n):
    if n < 2:
        return False
    i = 2
    while i * i <= n:
        if n % i == 0:
            return False
        i += 1
    return True


def toy_curves(pmax):
    out = []
    for p in range(3, pmax + 1):
        if not _is_prime(p) or p % 4 != 3:
            continue
        for a in range(p):
            for b in range(p):
                if (4 * a ** 3 + 27 * b * b) % p == 0:
                    continue
                pts = [(x, y) for x in range(p) for y in range(p) if (y * y - x ** 3 - a * x - b) % p == 0]
                N = len(pts) + 1
                if N % 2 == 1 and _is_prime(N):
                    out.append((p, a, b, pts, N))
    return out


def pick_curve(curves, p, n, rng=None):
    c = [c for c in curves if c[0] == p and c[4] == n]
    if not c:
        return None
    return c[0] if rng is None else c[rng.randrange(len(c))]


class V(object):
    """at most 2 recorded violations per finding_key"""

    def __init__(self, t):
        self.t = t
        self.count = {}

    def __call__(self, key, what, inputs, repro):
        c = self.count.get(key, 0)
        self.count[key] = c + 1
        if c < 2:
            self.t.violation(what=what, inputs=inputs, repro=repro, finding_key=key)


def tup(P):
    return (P[0], P[1])


def gen_src(p, a, b, base, n):
    return "from pycoin.ecdsa.Generator import Generator; G=Generator(%d,%d,%d,(%d,%d),%d); " % (p, a, b, base[0], base[1], n)


def check_verify(v, G, rc, Q, z, r, s, src, label=""):
    """pycoin verify must equal the textbook predicate and never raise.  Returns the expected value."""
    exp = rc.verify(Q, z, r, s)
    repro = REPO_HDR + src + "print(G.verify((%d,%d), %d, (%d,%d)))" % (Q[0], Q[1], z, r, s)
    try:
        got = G.verify(Q, z, (r, s))
    except Exception as e:  # noqa
        at_inf = 1 <= r < rc.n and 1 <= s < rc.n and rc.nonce_point_for(Q, z, r, s) is None
        if at_inf and isinstance(e, TypeError):
            v("verify-typeerror-at-infinity", "verify raises TypeError instead of returning False when (z/s)G+(r/s)Q is the point at infinity" + label,
              (Q, z, r, s), repro)
        else:
            v("verify-raises", "verify raises %s%s" % (type(e).__name__, label), (Q, z, r, s), repro)
        return exp
    if got is not exp and not (got == exp and isinstance(got, bool)):
        if got and not exp:
            key = "verify-accepts-invalid"
        elif exp and not got:
            key = "verify-rejects-valid"
        else:
            key = "verify-not-bool"
        v(key, "verify returns %r, textbook predicate is %r%s" % (got, exp, label), (Q, z, r, s), repro)
    return exp


def check_recovery(v, G, rc, z, r, s, src, label=""):
    """possible_public_pairs_for_signature returns only keys under which (r,s) verifies for z.  Returns the list or None."""
    n = rc.n
    repro = REPO_HDR + src + "ks=G.possible_public_pairs_for_signature(%d,(%d,%d)); print(ks, [G.verify(k,%d,(%d,%d)) for k in ks])" % (z, r, s, z, r, s)
    try:
        keys = G.possible_public_pairs_for_signature(z, (r, s))
    except Exception as e:  # noqa
        return ("raised", type(e).__name__)
    out = []
    for K in keys:
        K = None if tup(K) == INF else tup(K)
        # the point at infinity is judged by the same predicate ((z/s)G + (r/s)*infinity = (z/s)G); it can only come out
        # for in-range (r,s) on toy curves (probability 1/n)
        ok = rc.on_curve(K) and rc.verify(K, z, r, s)
        out.append(K)
        if not ok:
            if not (1 <= r < n):
                key, why = ("recovery-returns-key-for-r-ge-n", "recovery returns a key for r >= n, which verification rejects") if r >= n else \
                    ("recovery-returns-key-for-r-out-of-range", "recovery returns a key for r < 1")
            elif not (1 <= s < n):
                key, why = "recovery-returns-key-for-s-out-of-range", "recovery returns a key for s outside [1,n-1], which verification rejects"
            elif r >= rc.p:
                key, why = "recovery-accepts-r-ge-p", "recovery treats r >= p (curve with n > p) as an x-coordinate and returns a key under which the signature does not verify"
            else:
                key, why = "recovery-returns-nonverifying-key", "recovery returns a key under which the signature does not verify"
            v(key, why + label, (z, r, s, K), repro)
    return out


# ----------------------------------------------------------------------- toy curves: verify + recovery, exhaustive
@bounded("C01.toy_verify_recover_exhaustive", props=["C01"],
         bound="toy prime-order curves (p,n): quick (7,5),(11,7),(3,7: n>p); thorough + (7,11),(19,13),(23,17: 6 z values): every public "
               "key Q = d*G (all d in [1,n-1]), every z in [1,n+1] + {2n, 2^256-1, 2^255+3} (thorough: [1,2n+1] + same), "
               "every (r,s) in [0,n+1]^2: Generator.verify == textbook predicate, no exception (infinity case z=-r*d "
               "arises for every (d,r,s)); recovery for every such z and (r,s) with r in [0,max(n,p)+1]: only verifying "
               "keys; every verifying (Q,z,r,s) whose nonce point has x<n is recovered")
def c01_toy_verify_recover(opts):
    rng = random.Random(opts["seed"])
    quick = opts.get("tier") == "quick"
    t = Tally(rule="one case per (curve, Q, z, r, s) for verify and per (curve, z, r, s) for recovery; nontrivial = "
                   "1<=r,s<n (range checks alone do not decide)")
    v = V(t)
    curves = toy_curves(23)
    plan = [(7, 5, None), (11, 7, None), (3, 7, None)] if quick else [(7, 5, None), (11, 7, None), (3, 7, None), (7, 11, None), (19, 13, None), (23, 17, 6)]
    notes = {}
    for (p_, n_, zlimit) in plan:
        c = pick_curve(curves, p_, n_, rng)
        assert c is not None, (p_, n_)
        p, a, b, pts, n = c
        base = pts[rng.randrange(len(pts))]
        G = Generator(p, a, b, base, n)
        rc = RefCurve(p, a, b, base, n)
        src = gen_src(p, a, b, base, n)
        cid = (p, a, b, base, n)
        zs = list(range(1, (n + 2) if quick else (2 * n + 2))) + [2 * n, 2 ** 256 - 1, 2 ** 255 + 3]
        zs = sorted(set(zs))
        if zlimit:
            zs = sorted(set([1, n - 1, n, n + 1, 2 ** 256 - 1] + rng.sample(zs, zlimit)))
        Qs = [(d, rc.mulG(d)) for d in range(1, n)]
        for z in zs:
            recovered = {}
            for r in range(0, max(n, p) + 2):
                for s in range(0, n + 2):
                    t.case(key=(cid, "rec", z, r, s), nontrivial=1 <= r < n and 1 <= s < n)
                    rec = check_recovery(v, G, rc, z, r, s, src)
                    if isinstance(rec, tuple):
                        notes.setdefault("recovery raises %s for r mod n == 0 or similar degenerate input" % rec[1], []).append((cid, z, r, s)) \
                            if len(notes.get("recovery raises %s for r mod n == 0 or similar degenerate input" % rec[1], [])) < 3 else None
                        rec = None
                    recovered[(r, s)] = rec
            for (d, Q) in Qs:
                for r in range(0, n + 2):
                    for s in range(0, n + 2):
                        t.case(key=(cid, "ver", d, z, r, s), nontrivial=1 <= r < n and 1 <= s < n,
                               sample={"curve": cid, "Q": Q, "z": z, "r": r, "s": s})
                        exp = check_verify(v, G, rc, Q, z, r, s, src)
                        if exp:
                            R = rc.nonce_point_for(Q, z, r, s)
                            if R[0] < n:
                                rec = recovered.get((r, s))
                                if rec is None or Q not in rec:
                                    v("recovery-misses-signer", "valid signature whose nonce point has x < n: signer's key not among the recovered keys",
                                      (cid, Q, z, r, s), REPO_HDR + src + "print(G.possible_public_pairs_for_signature(%d,(%d,%d)))" % (z, r, s))
        # other-key / other-hash rejection is implied by equality with the predicate; assert the predicate itself is
        # selective on this curve (harness sanity: each (z,r,s) valid for exactly the keys of 0..2 nonce points)
    t.exhaustive = True
    res = t.result()
    res["violation_counts"] = dict(v.count)
    res["notes"] = notes
    return res


# ----------------------------------------------------------------------------------------- toy curves: signing
@bounded("C01.toy_sign", props=["C01"],
         bound="toy prime-order curves, pure Python: quick 4 seeded curves p<=23 (2 with n<p, 2 with n>p; 35 seeded z each), "
               "thorough 16 seeded curves p<=59 (8 with n<p, 8 with n>p); every d in [1,n-1]; z drawn from: every leading-qlen-bit "
               "pattern (placed in the top bits of a 256-bit hash, random low bits) + [1,2n+1] + {2^256-1, 2^255, n<<k} - all of "
               "them for p<=11 (thorough), else 45 seeded + edges {1,n-1,n,n+1,2^256-1}: 1<=r,s<n; verifies (pycoin and textbook) under "
               "d*G; equals own RFC 6979 signature when its first nonce gives r,s != 0; sign == sign_with_recid[:2]; recid "
               "describes the nonce point; recovery returns only verifying keys and contains d*G when nonce x<n; the other "
               "d' keys and another hash are rejected")
def c01_toy_sign(opts):
    rng = random.Random(opts["seed"])
    quick = opts.get("tier") == "quick"
    t = Tally(rule="one case per (curve, d, z); nontrivial = first RFC 6979 nonce usable (r,s != 0)")
    v = V(t)
    curves = toy_curves(23 if quick else 59)
    small_n = [c for c in curves if c[4] < c[0]]
    big_n = [c for c in curves if c[4] > c[0]]
    ncur = 4 if quick else 16
    chosen = rng.sample(small_n, ncur // 2) + rng.sample(big_n, ncur - ncur // 2)
    retried = ncase = 0
    for (p, a, b, pts, n) in chosen:
        base = pts[rng.randrange(len(pts))]
        G = Generator(p, a, b, base, n)
        rc = RefCurve(p, a, b, base, n)
        src = gen_src(p, a, b, base, n)
        cid = (p, a, b, base, n)
        qlen = n.bit_length()
        zs = set(range(1, 2 * n + 2)) | {2 ** 256 - 1, 2 ** 255, n << 200, (n << 200) + 1}
        for top in range(2 ** qlen):
            zs.add((top << (256 - qlen)) | rng.getrandbits(256 - qlen))
            zs.add((top << (256 - qlen)) | 1)
        zs = sorted(zs)
        if quick or p > 11:
            # (all z for p <= 11 in the thorough tier; a seeded subset of 30 / 45 z beyond, always with the edges)
            zs = sorted(set(rng.sample(zs, min(len(zs), 30 if quick else 45)) + [1, n - 1, n, n + 1, 2 ** 256 - 1]))
        for d in range(1, n):
            Q = rc.mulG(d)
            for z in zs:
                k0, R0, r0, s0 = rfc6979_first_sig(rc, d, z)
                usable = r0 != 0 and s0 != 0
                retried += not usable
                t.case(key=(cid, d, z), nontrivial=usable, sample={"curve": cid, "d": d, "z": hex(z), "rfc6979": (r0, s0)})
                repro = REPO_HDR + src + "print(G.sign(%d, %d), G.sign_with_recid(%d, %d))" % (d, z, d, z)
                ncase += 1
                try:
                    r2, s2, recid = G.sign_with_recid(d, z)
                    r, s = G.sign(d, z) if ncase % 3 == 0 else (r2, s2)
                except Exception as e:  # noqa
                    # which nonces did the retry loop (k, k+1, ...) walk through?  if every k0..n-1 gives r or s == 0 the loop
                    # reaches k = n, i.e. k*G = infinity
                    kk, walked_off = k0, True
                    while kk < n:
                        Rk = rc.mulG(kk)
                        rk = Rk[0] % n
                        if rk and pow(kk, -1, n) * (z + rk * d) % n:
                            walked_off = False
                            break
                        kk += 1
                    # does ANY nonce in [1, n-1] give a signature?  if none does, no signature exists for (d, z) on this toy
                    # curve and refusing with ValueError is the correct outcome (the property only speaks about first nonces
                    # that give non-zero r and s); TypeError etc. is still a violation
                    exists = any((rc.mulG(k_)[0] % n) and (pow(k_, -1, n) * (z + (rc.mulG(k_)[0] % n) * d) % n) for k_ in range(1, n))
                    if not usable and not exists and isinstance(e, ValueError):
                        continue
                    if walked_off and not usable:
                        v("sign-retry-reaches-order", "sign raises %s: first nonce k0=%d gives r or s == 0 and the k+=1 retry loop reaches k = n (k*G = infinity)" % (type(e).__name__, k0),
                          (cid, d, z), repro)
                    else:
                        v("sign-raises", "sign raises %s" % type(e).__name__, (cid, d, z), repro)
                    continue
                if not (isinstance(r, int) and isinstance(s, int) and 1 <= r < n and 1 <= s < n):
                    v("sign-out-of-range", "sign returns r or s outside [1,n-1]", (cid, d, z, r, s), repro)
                    continue
                if (r, s) != (r2, s2):
                    v("sign-vs-sign-with-recid", "sign and sign_with_recid disagree", (cid, d, z), repro)
                if usable and (r, s) not in ((r0, s0), (r0, n - s0)):
                    v("sign-not-rfc6979", "signature differs from the RFC 6979 deterministic signature", (cid, d, z, (r, s), (r0, s0)), repro)
                if not rc.verify(Q, z, r, s):
                    v("sign-does-not-verify", "signature does not satisfy the textbook predicate under d*G", (cid, d, z, r, s), repro)
                check_verify(v, G, rc, Q, z, r, s, src, " [own signature]")
                # recovery
                rec = check_recovery(v, G, rc, z, r, s, src, " [own signature]")
                R = rc.nonce_point_for(Q, z, r, s)
                if R is not None and R[0] < n and (isinstance(rec, tuple) or Q not in rec):
                    v("recovery-misses-signer", "signer's key not recovered although nonce x < n", (cid, d, z, r, s), repro)
                # recid: bit0 = parity of nonce y, bit1 = nonce x >= n (the nonce point is determined by (Q,z,r,s))
                if usable and (r, s) == (r0, s0) and recid != (R0[1] & 1) + (2 if R0[0] >= n else 0):
                    v("recid-wrong", "recid does not describe the nonce point (y parity, x >= n)", (cid, d, z, recid, R0), repro)
                # nobody else: a different key / a different hash
                if ncase % 3 == 1:
                    check_verify(v, G, rc, rc.mulG(rng.randrange(1, n)), z, r, s, src, " [other key]")
                elif ncase % 3 == 2:
                    z2 = z ^ (1 << rng.randrange(256)) or 1
                    check_verify(v, G, rc, Q, z2, r, s, src, " [other hash]")
    t.exhaustive = False
    res = t.result()
    res["violation_counts"] = dict(v.count)
    res["first_nonce_unusable_cases"] = retried
    res["curves"] = [(c[0], c[1], c[2], c[4]) for c in chosen]
    return res


# --------------------------------------------------------------------------------------- production curves
def _named():
    from pycoin.ecdsa import secp256k1 as k1, secp256r1 as r1
    return [("secp256k1", k1.secp256k1_generator, (k1._p, k1._a, k1._b, (k1._Gx, k1._Gy), k1._r),
             "from pycoin.ecdsa.secp256k1 import secp256k1_generator as G0; "),
            ("secp256r1", r1.secp256r1_generator, (r1._p, r1._a, r1._b, (r1._Gx, r1._Gy), r1._r),
             "from pycoin.ecdsa.secp256r1 import secp256r1_generator as G0; ")]


def _configs(name, Gn, params, imp):
    from pycoin.ecdsa.Curve import Curve
    p, a, b, Gxy, n = params
    out = []
    native = type(Gn).multiply is not Curve.multiply
    out.append(("openssl" if native else "shipped(no native)", Gn, imp + "G=G0; "))
    Gp = Generator(p, a, b, Gxy, n)
    out.append(("pure", Gp, imp + "from pycoin.ecdsa.Generator import Generator; G=Generator(G0._p,G0._a,G0._b,(G0[0],G0[1]),G0._order); "))
    return out


def _z_values(n, rng, nrand):
    zs = [1, 2, n - 1, n, n + 1, 2 * n - 1 if 2 * n - 1 < 2 ** 256 else 2 ** 256 - 2, 2 ** 255, 2 ** 256 - 1, 2 ** 256 - 2,
          2 ** 256 - n, 1 << 128]
    zs = [z for z in zs if 1 <= z < 2 ** 256]
    zs += [rng.getrandbits(256) or 1 for _ in range(nrand)]
    zs += [rng.randrange(n, 2 ** 256) for _ in range(max(1, nrand // 4))]      # z >= n
    zs += [rng.getrandbits(rng.randrange(1, 255)) or 1 for _ in range(max(1, nrand // 4))]   # short hashes
    return zs


@bounded("C01.production_sign", props=["C01"],
         bound="secp256k1 and secp256r1, configurations {shipped OpenSSL-accelerated generator, pure-Python Generator on the "
               "same parameters}; d in {1,2,n-2,n-1,2^255 mod n,seeded}; z in {1,2,n-1,n,n+1,2n-1|2^256-2,2^255,2^256-1,"
               "2^256-2,2^256-n,2^128, seeded 256-bit, seeded z>=n, seeded short}.  quick: openssl 60 / pure 5 (d,z) pairs "
               "per curve; thorough: openssl 300 / pure 24.  Checks: range; textbook verify under d*G; == own RFC 6979 "
               "signature up to s<->n-s; both configurations return the identical signature; sign==sign_with_recid[:2]; "
               "recid; recovery sound and contains d*G; other key/hash rejected; nonces pairwise distinct for distinct "
               "(d, z mod n); deterministic_generate_k == own RFC 6979 nonce; Key.sign/Key.verify DER wrapper (secp256k1)")
def c01_production_sign(opts):
    rng = random.Random(opts["seed"])
    quick = opts.get("tier") == "quick"
    n_native, n_pure = (60, 5) if quick else (300, 24)
    t = Tally(rule="one case per (curve, configuration, d, z); all non-trivial (RFC 6979 first nonce always usable on 256-bit curves)")
    v = V(t)
    from pycoin.ecdsa.rfc6979 import deterministic_generate_k
    for (name, Gn, params, imp) in _named():
        p, a, b, Gxy, n = params
        rc = RefCurve(p, a, b, Gxy, n)
        cfgs = _configs(name, Gn, params, imp)
        ds_b = [1, 2, n - 2, n - 1, 2 ** 255 % n]
        zs_b = _z_values(n, rng, 4)
        pairs = []
        # boundary d x boundary z first, then seeded
        for i in range(max(n_native, n_pure)):
            if i < len(zs_b):
                d, z = ds_b[i % len(ds_b)], zs_b[i]
            elif i < len(zs_b) + len(ds_b):
                d, z = ds_b[i - len(zs_b)], rng.getrandbits(256) or 1
            else:
                d = rng.randrange(1, n)
                z = rng.choice(_z_values(n, rng, 4)[-6:])
            pairs.append((d, z))
        nonces = {}
        for ci, (cname, G, src) in enumerate(cfgs):
            count = n_pure if cname == "pure" else n_native
            # the pure configuration takes a spread of the same pairs (so the two configurations are compared)
            sel = pairs[:count] if cname != "pure" else ([pairs[i] for i in range(0, len(pairs), max(1, len(pairs) // count))][:count])
            for (d, z) in sel:
                Q = rc.mulG(d)
                k0, R0, r0, s0 = rfc6979_first_sig(rc, d, z)
                assert r0 and s0
                t.case(key=(name, cname, d, z), sample={"curve": name, "config": cname, "d": hex(d), "z": hex(z)})
                repro = REPO_HDR + src + "print(G.sign(%d, %d))" % (d, z)
                # pycoin's nonce function itself
                try:
                    kk = deterministic_generate_k(n, d, z)
                except Exception as e:  # noqa
                    kk = "raises %s" % type(e).__name__
                if kk != k0:
                    v("rfc6979-nonce-differs", "deterministic_generate_k differs from RFC 6979", (name, d, z, kk, k0),
                      REPO_HDR + "from pycoin.ecdsa.rfc6979 import deterministic_generate_k as f; print(hex(f(%d,%d,%d)))" % (n, d, z))
                prev = nonces.setdefault(k0, (d, z % n))
                if prev != (d, z % n):
                    v("nonce-reused", "two distinct (key, hash) pairs share a nonce", (name, prev, (d, z)), None)
                try:
                    r, s = G.sign(d, z)
                    r2, s2, recid = G.sign_with_recid(d, z)
                except Exception as e:  # noqa
                    v("sign-raises", "sign raises %s [%s]" % (type(e).__name__, cname), (name, d, z), repro)
                    continue
                if not (isinstance(r, int) and isinstance(s, int) and 1 <= r < n and 1 <= s < n):
                    v("sign-out-of-range", "sign returns r or s outside [1,n-1] [%s]" % cname, (name, d, z, r, s), repro)
                    continue
                if (r, s) != (r2, s2):
                    v("sign-vs-sign-with-recid", "sign and sign_with_recid disagree [%s]" % cname, (name, d, z), repro)
                if (r, s) not in ((r0, s0), (r0, n - s0)):
                    v("sign-not-rfc6979", "signature differs from the RFC 6979 deterministic signature [%s]" % cname, (name, d, z, (r, s), (r0, s0)), repro)
                if not rc.verify(Q, z, r, s):
                    v("sign-does-not-verify", "signature does not satisfy the textbook predicate under d*G [%s]" % cname, (name, d, z, r, s), repro)
                check_verify(v, G, rc, Q, z, r, s, src, " [own signature, %s]" % cname)
                # malleated twin is also textbook-valid; out-of-range twins are not
                check_verify(v, G, rc, Q, z, r, n - s, src, " [n-s twin, %s]" % cname)
                for (rr, ss) in ((r + n, s), (r, s + n), (0, s), (r, 0), (n, s), (r, n), (-r, s), (r, -s), (r - n, s), (r, s - n)):
                    check_verify(v, G, rc, Q, z, rr, ss, src, " [out-of-range r/s, %s]" % cname)
                # recovery
                rec = check_recovery(v, G, rc, z, r, s, src, " [own signature, %s]" % cname)
                if R0[0] < n and (isinstance(rec, tuple) or Q not in rec):
                    v("recovery-misses-signer", "signer's key not recovered although nonce x < n [%s]" % cname, (name, d, z, r, s), repro)
                if (r, s) == (r0, s0) and recid != (R0[1] & 1) + (2 if R0[0] >= n else 0):
                    v("recid-wrong", "recid does not describe the nonce point [%s]" % cname, (name, d, z, recid), repro)
                # nobody else
                if cname != "pure" or rng.random() < 0.5:
                    d2 = rng.randrange(1, n)
                    check_verify(v, G, rc, rc.mulG(d2), z, r, s, src, " [other key, %s]" % cname)
                    check_verify(v, G, rc, Q, z ^ (1 << rng.randrange(256)) or 1, r, s, src, " [other hash, %s]" % cname)
                    check_verify(v, G, rc, Q, z, r, (s ^ 1) or 2, src, " [s xor 1, %s]" % cname)
        # Key.sign / Key.verify DER wrapper (secp256k1 only: the BTC network key class)
        if name == "secp256k1":
            from pycoin.symbols.btc import network
            for (d, z) in pairs[:(12 if quick else 100)]:
                t.case(key=(name, "Key", d, z))
                h = z.to_bytes(32, "big")
                krepro = REPO_HDR + "from pycoin.symbols.btc import network as N; k=N.keys.private(%d); sig=k.sign(bytes.fromhex('%s')); print(sig.hex(), k.verify(bytes.fromhex('%s'), sig))" % (d, h.hex(), h.hex())
                try:
                    key = network.keys.private(secret_exponent=d)
                    der = key.sign(h)
                    rs = _der_decode(der)
                    k0, R0, r0, s0 = rfc6979_first_sig(rc, d, z)
                    ok = rs in ((r0, s0), (r0, n - s0)) and key.verify(h, der) is True
                    pub = network.keys.public(tup(key.public_pair()))
                    ok = ok and pub.verify(h, der) is True and tup(key.public_pair()) == rc.mulG(d)
                    h2 = (z ^ 1 or 2).to_bytes(32, "big")
                    ok = ok and key.verify(h2, der) is False
                    d3 = d % (n - 1) + 1   # (for z = 0 mod n the key -Q verifies too: take the expectation from the predicate)
                    ok = ok and network.keys.private(secret_exponent=d3).verify(h, der) is rc.verify(rc.mulG(d3), z, rs[0], rs[1])
                    ok = ok and key.verify(h, _der_encode(r0, 0)) is False and key.verify(h, _der_encode(n, s0)) is False
                    ok = ok and key.verify(h, der[:-1]) is False and key.verify(h, b"") is False
                    why = "Key.sign/Key.verify inconsistent with RFC 6979 / textbook verification"
                except Exception as e:  # noqa
                    ok, why = False, "Key.sign/Key.verify raises %s" % type(e).__name__
                if not ok:
                    v("key-der-wrapper-wrong", why, (d, z), krepro)
    t.exhaustive = False
    res = t.result()
    res["violation_counts"] = dict(v.count)
    res["libsecp256k1_loaded"] = False
    return res


def _der_int(v):
    bs = v.to_bytes((v.bit_length() + 8) // 8 or 1, "big")
    return b"\x02" + bytes([len(bs)]) + bs


def _der_encode(r, s):
    body = _der_int(r) + _der_int(s)
    return b"\x30" + bytes([len(body)]) + body


def _der_decode(der):
    assert der[0] == 0x30 and der[1] == len(der) - 2
    assert der[2] == 2
    lr = der[3]
    r = int.from_bytes(der[4:4 + lr], "big")
    assert der[4 + lr] == 2
    ls = der[5 + lr]
    s = int.from_bytes(der[6 + lr:6 + lr + ls], "big")
    assert 6 + lr + ls == len(der)
    return (r, s)


@bounded("C01.production_verify_adversarial", props=["C01"],
         bound="secp256k1 and secp256r1 x {OpenSSL, pure}: crafted (Q,z,r,s) NOT produced by sign: (i) z = -r*d mod n for "
               "r = x(kG) mod n, any s (sum is the point at infinity) must be False; (ii) forged-valid signatures built from "
               "a chosen nonce point incl. nonce x in [n,p) when the curve has such x (r = x-n) and odd/even y; (iii) seeded "
               "random (r,s) (invalid w.h.p.), r,s in {0,1,n-1,n,n+1,2^256-1}; recovery on all of them and on r in [n,p) "
               "(r = x of a real curve point): only verifying keys.  quick: openssl 25 / pure 3 per class per curve; "
               "thorough: 200 / 16")
def c01_production_verify_adversarial(opts):
    rng = random.Random(opts["seed"])
    quick = opts.get("tier") == "quick"
    n_native, n_pure = (25, 3) if quick else (200, 16)
    t = Tally(rule="one case per (curve, configuration, class, Q, z, r, s); nontrivial = 1<=r,s<n")
    v = V(t)
    notes = {}
    for (name, Gn, params, imp) in _named():
        p, a, b, Gxy, n = params
        rc = RefCurve(p, a, b, Gxy, n)
        for (cname, G, src) in _configs(name, Gn, params, imp):
            cnt = n_pure if cname == "pure" else n_native
            lab = " [%s]" % cname
            # (i) infinity
            for i in range(cnt):
                d, k = rng.randrange(1, n), rng.randrange(1, n)
                Q = rc.mulG(d)
                r = rc.mulG(k)[0] % n
                s = rng.choice([1, n - 1, rng.randrange(1, n)])
                z = (-r * d) % n
                if i % 3 == 1 and z + n < 2 ** 256:
                    z += n
                assert z != 0 and rc.nonce_point_for(Q, z, r, s) is None
                t.case(key=(name, cname, "inf", d, r, s, z), sample={"class": "infinity", "curve": name, "d": hex(d), "r": hex(r), "s": hex(s), "z": hex(z)})
                check_verify(v, G, rc, Q, z, r, s, src, lab)
                check_recovery(v, G, rc, z, r, s, src, lab)
            # (ii) forged-valid from a chosen nonce point: pick k, r = x(kG) mod n, choose s, z := s*k - r*d mod n
            for i in range(cnt):
                d, k = rng.randrange(1, n), rng.randrange(1, n)
                Q = rc.mulG(d)
                R = rc.mulG(k)
                r = R[0] % n
                s = rng.randrange(1, n)
                z = (s * k - r * d) % n or n
                if i % 4 == 3 and z + n < 2 ** 256:
                    z += n
                assert rc.verify(Q, z, r, s)
                t.case(key=(name, cname, "forged", d, r, s, z))
                check_verify(v, G, rc, Q, z, r, s, src, lab)
                rec = check_recovery(v, G, rc, z, r, s, src, lab)
                if R[0] < n and (isinstance(rec, tuple) or Q not in rec):
                    v("recovery-misses-signer", "key not recovered although nonce x < n" + lab, (name, d, z, r, s), None)
            # (ii') nonce x >= n: only when p > n (secp256k1: p-n ~ 2^128: such x exist but cannot be hit by sampling k;
            # construct the point from x directly: x in [n, p) with a curve point, then Q := (s*R - z*G)/r
            if p > n:
                made = 0
                x = n + rng.randrange(0, min(p - n, 2 ** 64))
                while made < max(2, cnt // 5):
                    x += 1
                    if x >= p:
                        break
                    alpha = (x ** 3 + a * x + b) % p
                    y = pow(alpha, (p + 1) // 4, p)
                    if y * y % p != alpha:
                        continue
                    made += 1
                    R = (x, y if made % 2 else p - y)
                    r = x - n
                    if r == 0:
                        continue
                    s, z = rng.randrange(1, n), rng.getrandbits(256) or 1
                    # Q = r^-1 (s*R - z*G)
                    zG = rc.mulG(-z % n)
                    Q = rc.mul(rc.add(rc.mul(R, s), zG), pow(r, -1, n))
                    if Q is None:
                        continue
                    assert rc.verify(Q, z, r, s) and rc.nonce_point_for(Q, z, r, s) == R
                    t.case(key=(name, cname, "x>=n", x, s, z), sample={"class": "nonce x >= n", "curve": name, "x": hex(x)})
                    check_verify(v, G, rc, Q, z, r, s, src, lab + " [nonce x >= n]")
                    check_recovery(v, G, rc, z, r, s, src, lab)
                    # and the same x presented as r (>= n): verify must reject, recovery must not return keys
                    t.case(key=(name, cname, "r>=n", x, s, z), nontrivial=False)
                    check_verify(v, G, rc, Q, z, x, s, src, lab + " [r >= n]")
                    check_recovery(v, G, rc, z, x, s, src, lab + " [r >= n]")
            # (iii) random and boundary (r,s)
            d = rng.randrange(1, n)
            Q = rc.mulG(d)
            edge = [0, 1, n - 1, n, n + 1, 2 ** 256 - 1]
            combos = [(r, s) for r in edge for s in edge] + [(rng.randrange(1, n), rng.randrange(1, n)) for _ in range(cnt)]
            if cname == "pure":
                combos = rng.sample(combos[:36], 6 if quick else 36) + combos[36:]
            for (r, s) in combos:
                z = rng.getrandbits(256) or 1
                t.case(key=(name, cname, "rand", r, s, z), nontrivial=1 <= r < n and 1 <= s < n)
                check_verify(v, G, rc, Q, z, r, s, src, lab)
                rec = check_recovery(v, G, rc, z, r, s, src, lab)
                if isinstance(rec, tuple):
                    nk = "recovery raises %s on degenerate input (r mod n == 0)" % rec[1]
                    if len(notes.setdefault(nk, [])) < 3:
                        notes[nk].append((name, cname, hex(r), hex(s)))
    t.exhaustive = False
    res = t.result()
    res["violation_counts"] = dict(v.count)
    res["notes"] = notes
    res["libsecp256k1_loaded"] = False
    return res
