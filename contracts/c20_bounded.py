"""C20 (Tier B, bounded): the context-free transaction check accepts exactly the well-formed transactions.

Oracle: the property statement + Bitcoin Core's `CheckTransaction` (consensus/tx_check.cpp), `CTransaction::IsCoinBase`
and `COutPoint::IsNull` (hash all zero AND n == 0xffffffff), transcribed below on plain tuples (no pycoin call):

    vin empty -> reject; vout empty -> reject; witness-stripped size > 1,000,000 -> reject;
    each vout: value < 0 or > MAX_MONEY -> reject; running total outside [0, MAX_MONEY] -> reject;
    two inputs with the same outpoint -> reject;
    coinbase (exactly one input and its outpoint is null): scriptSig length not in [2,100] -> reject;
    otherwise any input with a null outpoint -> reject.

Per the statement a transaction with none of these defects must be accepted when its TOTAL size (with witness data) is
at most 1,000,000 bytes; between the two size bounds either outcome is allowed.  MAX_MONEY is 21,000,000 coins, except
105,000,000 coins for the Groestlcoin networks.  Also: check() never modifies the transaction, Tx.is_coinbase() agrees
with Core's IsCoinBase, and bad_solution_count() == 0 for a coinbase.

Code under test: Tx.check / is_coinbase / bad_solution_count of every distinct transaction class reachable through
pycoin.symbols (bitcoin Tx [BTC, DOGE, DASH, ... 43 netcodes], LTCTx, bcash Tx, bgold Tx, groestlcoin Tx).
"""
import importlib
import pkgutil
import random

from pyvc.bounded import bounded, Tally

import pycoin.symbols
from pycoin.coins.exceptions import ValidationFailureError

MAX_PER_KEY = 3
COIN = 100000000
MAX_SIZE = 1000000
NULL_INDEX = 0xffffffff
ZERO32 = bytes(32)


class KTally(Tally):
    """Tally that keeps at most MAX_PER_KEY violations per finding key so one defect cannot crowd out another."""

    def __init__(self, rule):
        super().__init__(rule)
        self.per_key = {}

    def violation(self, what, inputs, repro=None, finding_key=None):
        k = finding_key or what
        self.per_key[k] = self.per_key.get(k, 0) + 1
        if self.per_key[k] <= MAX_PER_KEY:
            super().violation(what, inputs, repro, finding_key)

    def result(self):
        r = super().result()
        r["violation_counts_by_key"] = dict(self.per_key)
        return r


# ----------------------------------------------------------------------------------------------------------------
# reference: Core CheckTransaction on plain tuples
# ----------------------------------------------------------------------------------------------------------------

def cs_len(n):
    return 1 if n < 0xfd else 3 if n <= 0xffff else 5 if n <= 0xffffffff else 9


class RTx(object):
    """ins = [(prev_hash32, prev_index, script, sequence, witness_tuple)], outs = [(value, script)]"""

    def __init__(self, version, ins, outs, lock_time=0):
        self.version, self.ins, self.outs, self.lock_time = version, list(ins), list(outs), lock_time

    def stripped_size(self):
        n = 4 + cs_len(len(self.ins)) + cs_len(len(self.outs)) + 4
        n += sum(32 + 4 + cs_len(len(s)) + len(s) + 4 for _h, _i, s, _q, _w in self.ins)
        n += sum(8 + cs_len(len(s)) + len(s) for _v, s in self.outs)
        return n

    def total_size(self):
        if not any(w for _h, _i, _s, _q, w in self.ins):
            return self.stripped_size()
        return self.stripped_size() + 2 + sum(cs_len(len(w)) + sum(cs_len(len(x)) + len(x) for x in w) for _h, _i, _s, _q, w in self.ins)

    def fields(self):
        return (self.version, tuple((h, i, s, q, tuple(w)) for h, i, s, q, w in self.ins), tuple(self.outs), self.lock_time)


def outpoint_is_null(h, i):
    return h == ZERO32 and i == NULL_INDEX


def ref_is_coinbase(rtx):
    return len(rtx.ins) == 1 and outpoint_is_null(rtx.ins[0][0], rtx.ins[0][1])


def ref_defects(rtx, max_money):
    """every CheckTransaction rule the transaction breaks (Core stops at the first; the verdict is the same)"""
    d = []
    if not rtx.ins:
        d.append("no-inputs")
    if not rtx.outs:
        d.append("no-outputs")
    if rtx.stripped_size() > MAX_SIZE:
        d.append("oversize-stripped")
    total = 0
    for v, _s in rtx.outs:
        if v < 0:
            d.append("value-negative")
            break
        if v > max_money:
            d.append("value-too-large")
            break
        total += v
        if total < 0 or total > max_money:
            d.append("total-too-large")
            break
    seen = set()
    for h, i, _s, _q, _w in rtx.ins:
        if (h, i) in seen:
            d.append("duplicate-outpoint")
            break
        seen.add((h, i))
    if ref_is_coinbase(rtx):
        if not 2 <= len(rtx.ins[0][2]) <= 100:
            d.append("coinbase-script-length")
    else:
        if any(outpoint_is_null(h, i) for h, i, _s, _q, _w in rtx.ins):
            d.append("null-outpoint-in-non-coinbase")
    return d


def ref_verdict(rtx, max_money):
    d = ref_defects(rtx, max_money)
    if d:
        return "reject", d
    if rtx.total_size() <= MAX_SIZE:
        return "accept", d
    return "either", d


# ----------------------------------------------------------------------------------------------------------------
# glue
# ----------------------------------------------------------------------------------------------------------------

class Cfg(object):
    def __init__(self, Tx, netcodes, max_money):
        self.Tx, self.netcodes, self.max_money = Tx, netcodes, max_money
        self.code = netcodes[0].upper()


GRS_NETCODES = ("grs", "grsrt", "tgrs")
PREFERRED = ["btc", "ltc", "bch", "btg", "grs", "doge"]


def configs():
    """one configuration per distinct Tx class reachable from pycoin.symbols"""
    by_class = {}
    names = sorted(m.name for m in pkgutil.iter_modules(pycoin.symbols.__path__))
    names = [n for n in PREFERRED if n in names] + [n for n in names if n not in PREFERRED]
    for name in names:
        try:
            net = importlib.import_module("pycoin.symbols." + name).network
        except Exception:
            continue
        by_class.setdefault(net.tx, []).append(name)
    out = []
    for T, codes in by_class.items():
        mm = (105000000 if any(c in GRS_NETCODES for c in codes) else 21000000) * COIN
        out.append(Cfg(T, codes, mm))
    return out


def build(T, rtx):
    txs_in = []
    for h, i, s, q, w in rtx.ins:
        ti = T.TxIn(h, i, s, q)
        ti.witness = list(w)
        txs_in.append(ti)
    return T(rtx.version, txs_in, [T.TxOut(v, s) for v, s in rtx.outs], rtx.lock_time)


def fields_of(tx):
    return (tx.version,
            tuple((bytes(t.previous_hash), t.previous_index, bytes(t.script), t.sequence, tuple(bytes(x) for x in t.witness)) for t in tx.txs_in),
            tuple((o.coin_value, bytes(o.script)) for o in tx.txs_out), tx.lock_time)


def run_check(tx):
    try:
        r = tx.check()
        return ("accept", None) if r is None else ("returned %r" % (r,), None)
    except ValidationFailureError as e:
        return "reject", str(e)
    except Exception as e:
        return "raised %s" % type(e).__name__, str(e)[:100]


def describe(rtx):
    return {"n_in": len(rtx.ins), "n_out": len(rtx.outs),
            "ins": [(h.hex() if h != ZERO32 else "00*32", i, len(s), len(w)) for h, i, s, _q, w in rtx.ins[:6]],
            "outs": [(v, len(s)) for v, s in rtx.outs[:6]], "stripped_size": rtx.stripped_size(), "total_size": rtx.total_size()}


def repro(cfg, rtx, tail="tx.check()"):
    def sh(b):
        return "bytes.fromhex(%r)" % b.hex() if len(b) <= 40 and b != ZERO32 else "bytes(%d)" % len(b)
    ins = ", ".join("T.TxIn(%s, %d, %s, %d)" % (sh(h), i, sh(s), q) for h, i, s, q, _w in rtx.ins[:8])
    outs = ", ".join("T.TxOut(%d, %s)" % (v, sh(s)) for v, s in rtx.outs[:8])
    return ("import sys; sys.path.insert(0,'/repo'); from pycoin.symbols.%s import network as n; T=n.tx; tx=T(%d, [%s], [%s], %d); %s"
            % (cfg.netcodes[0], rtx.version, ins, outs, rtx.lock_time, tail))


def zero_hash_nonnull(rtx):
    return [k for k, (h, i, _s, _q, _w) in enumerate(rtx.ins) if h == ZERO32 and i != NULL_INDEX]


def evaluate(t, cfg, label, rtx, check_unchanged=True):
    """one transaction against the contract; returns nothing, records into t"""
    verdict, defects = ref_verdict(rtx, cfg.max_money)
    tx = build(cfg.Tx, rtx)
    before = fields_of(tx)
    got, msg = run_check(tx)
    desc = dict(describe(rtx), coin=cfg.code, label=label, expected=verdict, defects=defects, got=got, message=msg)
    t.case(key=(cfg.code, label), nontrivial=True, sample=desc)
    zh = zero_hash_nonnull(rtx)
    if got not in ("accept", "reject"):
        t.violation(what="Tx.check() neither returned None nor raised ValidationFailureError [%s]" % cfg.code, inputs=desc, repro=repro(cfg, rtx), finding_key="check-unexpected-outcome")
    elif verdict == "reject" and got == "accept":
        t.violation(what="Tx.check() accepts a transaction Core's CheckTransaction rejects (%s) [%s]" % ("+".join(defects), cfg.code), inputs=desc,
                    repro=repro(cfg, rtx, "tx.check()  # must raise ValidationFailureError"), finding_key="check-accepts-%s" % defects[0])
    elif verdict == "accept" and got == "reject":
        if zh and len(rtx.ins) == 1:
            what = "a transaction whose only input spends (zero hash, index != 0xffffffff) is treated as a coinbase: rejected for its script length, Core accepts it"
            key = "check-zero-hash-nonnull-index-treated-as-coinbase"
        elif zh:
            what = "non-coinbase input (zero hash, index != 0xffffffff) rejected as 'prevout is null'; the null outpoint is zero hash AND index 0xffffffff, Core accepts"
            key = "check-null-outpoint-ignores-index"
        else:
            what = "Tx.check() rejects a well-formed transaction of size <= 1,000,000"
            key = "check-rejects-wellformed"
        t.violation(what="%s [%s]" % (what, cfg.code), inputs=desc, repro=repro(cfg, rtx, "tx.check()  # must not raise"), finding_key=key)
    if check_unchanged:
        after = fields_of(tx)
        if after != before or before != rtx.fields():
            t.violation(what="Tx.check() modified the transaction [%s]" % cfg.code, inputs=desc, repro=repro(cfg, rtx), finding_key="check-modifies-transaction")
    # coinbase detection
    want_cb = ref_is_coinbase(rtx)
    try:
        got_cb = bool(tx.is_coinbase())
    except Exception as e:
        got_cb = "raised %s" % type(e).__name__
    if got_cb != want_cb:
        t.violation(what="Tx.is_coinbase() is %r but the transaction %s a coinbase (one input with the null outpoint = zero hash AND index 0xffffffff) [%s]"
                         % (got_cb, "is" if want_cb else "is not", cfg.code),
                    inputs=desc, repro=repro(cfg, rtx, "print(tx.is_coinbase(), tx.bad_solution_count())  # Core IsCoinBase: %r" % want_cb),
                    finding_key="is-coinbase-ignores-outpoint-index" if zh else "is-coinbase-mismatch")
    if want_cb:
        try:
            bsc = tx.bad_solution_count()
        except Exception as e:
            bsc = "raised %s" % type(e).__name__
        if bsc != 0:
            t.violation(what="bad_solution_count() != 0 for a coinbase transaction [%s]" % cfg.code, inputs=dict(desc, bad_solution_count=bsc),
                        repro=repro(cfg, rtx, "print(tx.bad_solution_count())"), finding_key="coinbase-counted-as-unsigned")
        if fields_of(tx) != before:
            t.violation(what="bad_solution_count() modified the coinbase transaction [%s]" % cfg.code, inputs=desc, repro=None, finding_key="check-modifies-transaction")


# ----------------------------------------------------------------------------------------------------------------
# generators
# ----------------------------------------------------------------------------------------------------------------

def rbytes(rng, n):
    return rng.getrandbits(8 * n).to_bytes(n, "big") if n else b""


def nz_hash(rng):
    while True:
        h = rbytes(rng, 32)
        if h != ZERO32:
            return h


def good_in(rng, script_len=None, witness=()):
    return (nz_hash(rng), rng.choice([0, 1, 5, NULL_INDEX, rng.getrandbits(32)]), rbytes(rng, rng.randrange(0, 110) if script_len is None else script_len),
            rng.choice([0, NULL_INDEX, NULL_INDEX - 1, rng.getrandbits(32)]), witness)


def good_out(rng, value=None, script_len=None):
    return (rng.randrange(0, 50 * COIN) if value is None else value, rbytes(rng, rng.choice([0, 22, 23, 25, 34]) if script_len is None else script_len))


def boundary_cases(rng, max_money):
    """(label, RTx) for every boundary named in the quantifier text"""
    M = max_money
    out = []
    g_in, g_out = (lambda **k: good_in(rng, **k)), (lambda *a, **k: good_out(rng, *a, **k))
    # counts
    out.append(("no-inputs", RTx(1, [], [g_out()])))
    out.append(("no-outputs", RTx(1, [g_in()], [])))
    out.append(("no-inputs-no-outputs", RTx(1, [], [])))
    out.append(("no-outputs-coinbase", RTx(1, [(ZERO32, NULL_INDEX, b"\x01\x02\x03", NULL_INDEX, ())], [])))
    out.append(("plain-1-1", RTx(1, [g_in()], [g_out()])))
    # single output values
    for v in [0, 1, M - 1, M, M + 1, 2 * M, 2 ** 63 - 1, 2 ** 63, 2 ** 64 - 1, -1, -M, -2 ** 63]:
        out.append(("value-%d" % v, RTx(1, [g_in()], [g_out(v)])))
        out.append(("value-%d-second-of-three" % v, RTx(1, [g_in()], [g_out(0), g_out(v), g_out(0)])))
    # totals crossing MAX_MONEY only cumulatively
    for vals in [[M, 0], [0, M], [M, 1], [1, M], [M - 1, 1], [M - 1, 2], [M // 2, M - M // 2], [M // 2, M - M // 2 + 1], [M // 2 + 1, M // 2 + 1] if M % 2 == 0 else [M // 2 + 1, M // 2 + 2],
                 [M // 3] * 3, [M // 3 + 1] * 3, [M // 3, M // 3, M - 2 * (M // 3)], [M // 3, M // 3, M - 2 * (M // 3) + 1], [1] * 9 + [M - 9], [1] * 9 + [M - 8],
                 [M, 0, 0, 0, 1], [M // 4] * 4 + [0], [M // 4] * 4 + [1] if M % 4 == 0 else [M // 4 + 1] * 4, [M, M], [M, 1, -1], [M + 1, -1], [-1, 1], [2 ** 63, 2 ** 63]]:
        out.append(("total-%s" % "+".join(str(v) for v in vals)[:80], RTx(1, [g_in()], [g_out(v) for v in vals])))
    # duplicate outpoints at any two positions (the two inputs differ in script and sequence), and near-duplicates
    for n in range(2, 7):
        for a in range(n):
            for b in range(a + 1, n):
                ins = [g_in() for _ in range(n)]
                ins[b] = (ins[a][0], ins[a][1], rbytes(rng, 7), ins[a][3] ^ 1, ())
                out.append(("dup-%d-of-%d-at-%d,%d" % (2, n, a, b), RTx(1, ins, [g_out()])))
    ins = [g_in() for _ in range(3)]
    out.append(("dup-identical-input-object-values", RTx(1, [ins[0], ins[1], ins[0]], [g_out()])))
    h = nz_hash(rng)
    out.append(("same-hash-different-index", RTx(1, [(h, 0, b"", 0, ()), (h, 1, b"", 0, ())], [g_out()])))
    out.append(("same-index-different-hash", RTx(1, [(nz_hash(rng), 3, b"", 0, ()), (nz_hash(rng), 3, b"", 0, ())], [g_out()])))
    out.append(("dup-zero-hash-index5-twice", RTx(1, [(ZERO32, 5, b"\x51", 0, ()), (ZERO32, 5, b"\x52", 1, ())], [g_out()])))
    out.append(("dup-null-outpoint-twice", RTx(1, [(ZERO32, NULL_INDEX, b"\x51\x51", 0, ()), (ZERO32, NULL_INDEX, b"\x52\x52", 1, ())], [g_out()])))
    out.append(("triple-same-outpoint", RTx(1, [(h, 9, b"", 0, ()), (h, 9, b"\x00", 0, ()), (h, 9, b"\x00\x00", 0, ())], [g_out()])))
    # coinbase script lengths
    for n in [0, 1, 2, 3, 50, 99, 100, 101, 102, 0xfd, 1000]:
        out.append(("coinbase-script-len-%d" % n, RTx(1, [(ZERO32, NULL_INDEX, rbytes(rng, n), NULL_INDEX, ())], [g_out(50 * COIN)])))
        out.append(("coinbase-script-len-%d-seq0-witness" % n, RTx(2, [(ZERO32, NULL_INDEX, rbytes(rng, n), 0, (bytes(32),))], [g_out(50 * COIN), g_out(0, 38)])))
    # the exact null outpoint in non-coinbase transactions, at every position
    for n in range(2, 5):
        for pos in range(n):
            ins = [g_in() for _ in range(n)]
            ins[pos] = (ZERO32, NULL_INDEX, rbytes(rng, 10), 7, ())
            out.append(("null-outpoint-at-%d-of-%d" % (pos, n), RTx(1, ins, [g_out()])))
    # near-null outpoints: only one half of the null condition holds -> NOT null (Core accepts)
    for idx in [0, 1, 5, NULL_INDEX - 1, 0x7fffffff]:
        for slen in [0, 1, 2, 50, 100, 101, 150]:
            out.append(("single-input-zero-hash-index-%d-script-%d" % (idx, slen), RTx(1, [(ZERO32, idx, rbytes(rng, slen), NULL_INDEX, ())], [g_out()])))
        for n in range(2, 4):
            for pos in range(n):
                ins = [g_in() for _ in range(n)]
                ins[pos] = (ZERO32, idx, rbytes(rng, 10), 7, ())
                out.append(("zero-hash-index-%d-at-%d-of-%d" % (idx, pos, n), RTx(1, ins, [g_out()])))
    for slen in [0, 1, 2, 100, 101]:
        out.append(("single-input-nonzero-hash-index-ffffffff-script-%d" % slen, RTx(1, [(nz_hash(rng), NULL_INDEX, rbytes(rng, slen), 0, ())], [g_out()])))
        out.append(("single-input-hash-00..01-index-ffffffff-script-%d" % slen, RTx(1, [(bytes(31) + b"\x01", NULL_INDEX, rbytes(rng, slen), 0, ())], [g_out()])))
        out.append(("single-input-hash-01..00-index-ffffffff-script-%d" % slen, RTx(1, [(b"\x01" + bytes(31), NULL_INDEX, rbytes(rng, slen), 0, ())], [g_out()])))
    out.append(("two-inputs-nonzero-hash-index-ffffffff", RTx(1, [(nz_hash(rng), NULL_INDEX, b"", 0, ()), g_in()], [g_out()])))
    return out


def sized(rng, stripped, extra_witness=0, coinbase=False, in_input=False):
    """a defect-free tx with exactly the given witness-stripped size and total size stripped + extra_witness (0 = no witness)"""
    if coinbase:
        tin = (ZERO32, NULL_INDEX, b"\x03\x01\x02\x03", NULL_INDEX, ())
    else:
        tin = (nz_hash(rng), 1, b"", NULL_INDEX, ())
    rtx = RTx(1, [tin], [(1, b"")])
    # grow one script until the stripped size matches
    base = rtx.stripped_size()
    for ln in (stripped - base, stripped - base - 2, stripped - base - 4, stripped - base - 8):
        if ln < 0:
            continue
        if in_input and not coinbase:
            r2 = RTx(1, [tin[:2] + (bytes(ln),) + tin[3:]], [(1, b"")])
        else:
            r2 = RTx(1, [tin], [(1, bytes(ln))])
        if r2.stripped_size() == stripped:
            rtx = r2
            break
    else:
        raise AssertionError("cannot hit size %d" % stripped)
    if extra_witness:
        h, i, s, q, _w = rtx.ins[0]
        for ln in (extra_witness - 2 - 2, extra_witness - 2 - 4, extra_witness - 2 - 6, extra_witness - 2 - 10):
            if ln < 0:
                continue
            r3 = RTx(1, [(h, i, s, q, (bytes(ln),))], rtx.outs)
            if r3.total_size() == stripped + extra_witness:
                return r3
        raise AssertionError("cannot hit witness size %d" % extra_witness)
    return rtx


def size_cases(rng):
    out = []
    for st in [MAX_SIZE - 1, MAX_SIZE, MAX_SIZE + 1, MAX_SIZE + 2, 2 * MAX_SIZE]:
        out.append(("stripped-size-%d" % st, sized(rng, st)))
        out.append(("stripped-size-%d-in-input-script" % st, sized(rng, st, in_input=True)))
    out.append(("stripped-size-%d-coinbase" % MAX_SIZE, sized(rng, MAX_SIZE, coinbase=True)))
    out.append(("stripped-size-%d-coinbase" % (MAX_SIZE + 1), sized(rng, MAX_SIZE + 1, coinbase=True)))
    # witness: total exactly at the bound must be accepted; total above with stripped below: either; stripped above: reject
    out.append(("total-size-%d-with-witness" % MAX_SIZE, sized(rng, MAX_SIZE - 1000, extra_witness=1000)))
    out.append(("total-size-%d-with-witness" % (MAX_SIZE - 1), sized(rng, MAX_SIZE - 1001, extra_witness=1000)))
    out.append(("total-size-%d-with-witness-stripped-small" % MAX_SIZE, sized(rng, 500, extra_witness=MAX_SIZE - 500)))
    out.append(("total-size-%d-stripped-%d" % (MAX_SIZE + 1, MAX_SIZE - 999), sized(rng, MAX_SIZE - 999, extra_witness=1000)))
    out.append(("total-size-%d-stripped-%d" % (MAX_SIZE + 5, MAX_SIZE), sized(rng, MAX_SIZE, extra_witness=5)))
    out.append(("total-size-3000000-stripped-500", sized(rng, 500, extra_witness=2999500)))
    out.append(("stripped-size-%d-plus-witness" % (MAX_SIZE + 1), sized(rng, MAX_SIZE + 1, extra_witness=100)))
    for label, r in out:
        assert r.stripped_size() <= r.total_size()
    return out


def seeded_case(rng, max_money):
    """a random well-formed transaction with 0..2 randomly chosen defects / near-defects applied"""
    M = max_money
    n_in, n_out = rng.choice([1, 1, 2, 3, 5]), rng.choice([1, 1, 2, 3, 5])
    wit = rng.random() < 0.3
    ins = [good_in(rng, witness=((rbytes(rng, rng.choice([0, 33, 72])),) if wit and rng.random() < 0.7 else ())) for _ in range(n_in)]
    share = M // n_out
    outs = [good_out(rng, rng.choice([0, 1, rng.randrange(0, share + 1), share])) for _ in range(n_out)]
    ops = []
    for _ in range(rng.choice([0, 1, 1, 1, 2])):
        op = rng.choice(["no-in", "no-out", "value", "total", "dup", "coinbase", "null", "zero-hash", "top-up", "neg"])
        ops.append(op)
        if op == "no-in":
            ins = []
        elif op == "no-out":
            outs = []
        elif op == "value" and outs:
            k = rng.randrange(len(outs))
            outs[k] = (rng.choice([M, M + 1, M - 1, 2 ** 63, 2 ** 64 - 1, M + rng.randrange(1, 1000)]), outs[k][1])
        elif op == "neg" and outs:
            k = rng.randrange(len(outs))
            outs[k] = (-rng.choice([1, 2, M, rng.randrange(1, 10 ** 6)]), outs[k][1])
        elif op == "total" and outs:
            # make the sum exactly M or M+1 (only cumulatively too large)
            s = sum(v for v, _ in outs[:-1])
            if 0 <= s <= M:
                outs[-1] = (M - s + rng.choice([0, 0, 1]), outs[-1][1])
        elif op == "top-up" and outs:
            s = sum(v for v, _ in outs)
            if 0 <= s < M:
                outs.append((M - s, b"\x51"))
        elif op == "dup" and len(ins) >= 1:
            a = rng.randrange(len(ins))
            ins.insert(rng.randrange(len(ins) + 1), (ins[a][0], ins[a][1], rbytes(rng, 3), rng.getrandbits(32), ()))
        elif op == "coinbase":
            ins = [(ZERO32, NULL_INDEX, rbytes(rng, rng.choice([0, 1, 2, 3, 42, 99, 100, 101, 120])), rng.choice([0, NULL_INDEX]), ())]
        elif op == "null" and ins:
            k = rng.randrange(len(ins))
            ins[k] = (ZERO32, NULL_INDEX, rbytes(rng, rng.choice([0, 2, 50, 101])), 0, ())
        elif op == "zero-hash" and ins:
            k = rng.randrange(len(ins))
            ins[k] = (ZERO32, rng.choice([0, 1, 5, NULL_INDEX - 1, rng.getrandbits(31)]), rbytes(rng, rng.choice([0, 1, 2, 50, 100, 101])), 0, ())
    return "+".join(ops) or "clean", RTx(rng.choice([1, 2, 0, 0xffffffff]), ins, outs, rng.choice([0, 1, 0xffffffff]))


# ----------------------------------------------------------------------------------------------------------------
# the checks
# ----------------------------------------------------------------------------------------------------------------

@bounded("C20.check_boundaries", props=["C20"],
         bound="every distinct Tx class in pycoin.symbols (bitcoin [BTC/DOGE/DASH/..], LTC, BCH, BTG, GRS) x enumerated boundary txs: "
               "no inputs/outputs; values 0,1,M-1,M,M+1,2M,2^63-1,2^63,2^64-1,-1,-M,-2^63 (M = per-coin MAX_MONEY); totals crossing M "
               "only cumulatively (2..10 outputs, exact M and M+1); duplicate outpoints at every pair of positions for 2..6 inputs; "
               "coinbase script lengths 0,1,2,3,50,99,100,101,102,253,1000; null outpoint at every position of 2..4 inputs; "
               "half-null outpoints (zero hash with index 0,1,5,0x7fffffff,0xfffffffe; non-zero hash with index 0xffffffff)")
def c20_check_boundaries(opts):
    rng = random.Random(opts["seed"])
    t = KTally(rule="case = (tx class, labelled boundary tx): Tx.check() verdict vs Core CheckTransaction transcription (reject iff a "
                    "defect; accept iff none and total size <= 1,000,000); plus tx unchanged, is_coinbase() == Core IsCoinBase, "
                    "bad_solution_count()==0 for coinbases; distinct by (class, label); all non-trivial")
    for cfg in configs():
        for label, rtx in boundary_cases(rng, cfg.max_money):
            evaluate(t, cfg, label, rtx)
    t.exhaustive = False
    return t.result()


@bounded("C20.check_size_bounds", props=["C20"],
         bound="every distinct Tx class x defect-free txs with witness-stripped size exactly 999,999 / 1,000,000 / 1,000,001 / 1,000,002 / "
               "2,000,000 (bulk in an output script, in an input script, in a coinbase) and witness-carrying txs with total size exactly "
               "999,999 / 1,000,000 (must accept), total above but stripped at or below the bound (either), stripped above (reject)")
def c20_check_size_bounds(opts):
    rng = random.Random(opts["seed"] + 1)
    t = KTally(rule="case = (tx class, sized tx); sizes are computed by an independent size formula and cross-checked against "
                    "len(Tx.as_bin()) (mismatch = harness error, raised as AssertionError); 'either' cases are evaluated for "
                    "non-modification and unexpected exceptions only; all non-trivial")
    cases = size_cases(rng)
    for cfg in configs():
        for label, rtx in cases:
            tx = build(cfg.Tx, rtx)
            assert len(tx.as_bin()) == rtx.total_size() and len(tx.as_bin(include_witness_data=False)) == rtx.stripped_size(), label
            evaluate(t, cfg, label, rtx)
    t.exhaustive = False
    return t.result()


@bounded("C20.check_seeded", props=["C20"],
         bound="every distinct Tx class x seeded txs (1..5 inputs/outputs, with/without witnesses, values up to MAX_MONEY/n) with 0..2 random "
               "defects or near-defects (no inputs, no outputs, value/total at M / M+1 / negative, duplicate outpoint inserted anywhere, "
               "coinbase with boundary script lengths, null outpoint, zero hash with non-null index)")
def c20_check_seeded(opts):
    rng = random.Random(opts["seed"] + 2)
    thorough = opts.get("tier") == "thorough"
    t = KTally(rule="case = (tx class, seeded tx #k); same contract as the boundary check; a case is non-trivial when at least one mutation "
                    "operator was applied or the tx is accepted; distinct by (class, k)")
    cfgs = configs()
    n = 60000 if thorough else 6000
    counts = {}
    for k in range(n):
        for cfg in cfgs:
            label, rtx = seeded_case(rng, cfg.max_money)
            v, d = ref_verdict(rtx, cfg.max_money)
            counts[v] = counts.get(v, 0) + 1
            evaluate(t, cfg, "seeded-%d-%s" % (k, label), rtx)
    r = t.result()
    r["reference_verdicts"] = counts
    return r
