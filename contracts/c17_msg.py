"""C17: compact message signatures -- layout, decoding, totality of key recovery (abstract group, base64 as an idiom)."""
from pyvc.api import *
from spec.core import *
from spec.group import *
import contracts.c02_group_assumed  # noqa: F401
import contracts.c01_ecdsa as E
from pycoin.contrib.msg_signing import MessageSigner
from pycoin.encoding.exceptions import EncodingError

GEN = AbsGenerator()


def _mk_signer(v):
    from pycoin.symbols.btc import network
    return MessageSigner(network, v['_generator'])


SIGNER = Obj(MessageSigner, dict(_generator=GEN, _network=Const(None), _network_name=Const("Bitcoin")), make=_mk_signer)
T = "pycoin.contrib.msg_signing:MessageSigner."


def _sig_fields(self, signature):
    """(first byte, r, s) of a 65-byte compact signature text"""
    raw = b64dec(signature)
    return raw[0], be_int_k(raw[1:33], 32), be_int_k(raw[33:65], 32)


def _sig_malformed(self, signature):
    raw = b64dec(signature)
    n = self._generator._order
    if not b64_ok(signature) or len(raw) != 65:
        return True
    first, r, s = _sig_fields(self, signature)
    return not (1 <= r and r < n and 1 <= s and s < n) or not (27 <= first and first < 35)


@contract(T + "_decode_signature")
class decode_signature:
    props = ["C17"]
    sig = dict(self=SIGNER, signature=Str())
    returns = Tup(Bool(), Int(), Int(), Int())

    def requires(self, signature):
        return True

    def ensures_layout(self, signature, result):
        first, r, s = _sig_fields(self, signature)
        return (result[0] == ((first - 27) // 4 % 2 == 1), result[1] == (first - 27) % 4, result[2] == r, result[3] == s)

    raises = [(EncodingError, _sig_malformed, True)]
    canaries = [("27 <= first < 35", "27 <= first <= 35"), ("s = from_bytes_32(sig[33:33 + 32])", "s = from_bytes_32(sig[32:32 + 32])")]


@contract(T + "signature_for_message_hash")
class signature_for_message_hash:
    props = ["C17"]
    sig = dict(self=SIGNER, secret_exponent=Int(1), msg_hash=Int(1, 2 ** 256 - 1), is_compressed=Bool())
    returns = Str()

    def requires(self, secret_exponent, msg_hash, is_compressed):
        return E.sign_with_recid.requires(self._generator, secret_exponent, msg_hash, None)

    def ensures_compact_layout(self, secret_exponent, msg_hash, is_compressed, result):
        k, R, r, s = E._sign_values(self._generator, secret_exponent, msg_hash)
        recid = yc(R) % 2 + (2 if xc(R) > self._generator._order else 0)
        return result == b64text(bytes([27 + recid + (4 if is_compressed else 0)]) + be(r, 32) + be(s, 32))

    canaries = [("4 if is_compressed else 0", "0 if is_compressed else 4"), ("to_bytes_32(r) + to_bytes_32(s)", "to_bytes_32(s) + to_bytes_32(r)")]


@lemma(sig=dict(first=Int(27, 34), r=Int(0, 2 ** 256 - 1), s=Int(0, 2 ** 256 - 1)), props=["C17"])
def compact_sig_roundtrip(first, r, s):
    """decoding the text produced for (first, r, s) gives back exactly these fields"""
    text = b64text(bytes([first]) + be(r, 32) + be(s, 32))
    raw = b64dec(text)
    return (b64_ok(text), len(raw) == 65, raw[0] == first, be_int_k(raw[1:33], 32) == r, be_int_k(raw[33:65], 32) == s)


@contract(T + "pair_for_message_hash")
class pair_for_message_hash:
    props = ["C17"]
    sig = dict(self=SIGNER, signature=Str(), msg_hash=Int(1))

    def requires(self, signature, msg_hash):
        return True

    def ensures_recovered_key_verifies(self, signature, msg_hash, result):
        first, r, s = _sig_fields(self, signature)
        recid = (first - 27) % 4
        q = result[0]
        return (result[1] == ((first - 27) // 4 % 2 == 1), q != INF(),
                implies(recid <= 1, E._verifies_pt(self._generator, q, msg_hash, r, s)))

    def _any(self, signature, msg_hash):
        return True

    # totality: whatever the text, the only exception that can leave is EncodingError (which verify_message maps to False)
    raises = [(EncodingError, _any, False)]
    canaries = [("if not pairs:\n        raise EncodingError('no curve point for r')", "if False:\n        raise EncodingError('no curve point for r')")]


# ---------------------------------------------------------------- the signed digest
from spec.sighash import dsha256
from contracts.c11_base58 import utf8_encode     # str.encode('utf8') as an uninterpreted function of the text
import contracts.c07_prims  # noqa: F401


@contract(T + "hash_for_signing")
class hash_for_signing:
    """the message digest: double SHA-256 over var-string(magic) || var-string(message), both UTF-8 encoded, as a number;
    the magic is '<network name> Signed Message:\\n' (here: Bitcoin)"""
    props = ["C17"]
    sig = dict(self=SIGNER, msg=Str(sample_max=30))
    returns = Int()

    def requires(self, msg):
        return len(utf8_encode(msg)) < 2 ** 32

    def ensures_digest(self, msg, result):
        magic = b"Bitcoin Signed Message:\n"
        return (result == be_int_k(dsha256(varstr(magic) + varstr(utf8_encode(msg))), 32), 0 <= result, result < 2 ** 256)

    canaries = [("stream_satoshi_string(fd, magic.encode('utf8'))", "pass")]
