"""C10: WIF text of a private key -- Key.wif of the real BTC key class: Base58Check of
prefix || 32-byte big-endian secret exponent || (01 when the key is marked compressed), through the contract of
b2a_hashed_base58 (C11).  Parsing WIF text back goes through the per-network text parsers (parseable_str caches, prefix
tables): bounded only (C10 / C18 harnesses)."""
from pyvc.api import *
from spec.core import *
from spec.basex import *
from spec.sighash import dsha256
from contracts.c11_base58 import b58_text
from pycoin.symbols.btc import network as BTC
from pycoin.key.Key import Key as BaseKey

KeyBTC = BTC.keys.private(1).__class__
WIF_PREFIX = b"\x80"
N_K1 = 0xFFFFFFFFFFFFFFFFFFFFFFFFFFFFFFFEBAAEDCE6AF48A03BBFD25E8CD0364141


def _mk_key(v):
    return KeyBTC(secret_exponent=v['_secret_exponent'], is_compressed=v['_is_compressed'])


KEY = Obj(KeyBTC, dict(_secret_exponent=Int(1, N_K1 - 1, interesting=[1, 2 ** 255, N_K1 - 1]), _is_compressed=Bool()), make=_mk_key, shared=True)


@contract("pycoin.key.Key:Key.wif")
class key_wif:
    props = ["C10"]
    sig = dict(self=KEY, is_compressed=Opt(Bool()))
    returns = Str()

    def ensures_layout(self, is_compressed, result):
        c = self._is_compressed if is_compressed is None else is_compressed
        blob = WIF_PREFIX + be(self._secret_exponent, 32) + (b"\x01" if c else b"")
        return result == b58_text(blob + dsha256(blob)[:4])

    canaries = [("if is_compressed:", "if not is_compressed:")]


# ---------------------------------------------------------------- SEC and hash160 of a key, with the cache as a representation invariant
from spec.sighash import sha256, ripemd160
from contracts.c10_sec import sec_layout
import contracts.c10_sec  # noqa: F401  (public_pair_to_sec's contract)


def _mk_pubkey(v):
    from pycoin.ecdsa.secp256k1 import secp256k1_generator as g
    k = KeyBTC(public_pair=g * 7, is_compressed=v['_is_compressed'])
    return k


PUBKEY = Obj(KeyBTC, dict(_secret_exponent=Const(None), _public_pair=Tup(Int(0, 2 ** 256 - 1), Int(0, 2 ** 256 - 1)), _is_compressed=Bool(),
                          _hash160_compressed=Opt(Bytes(n=20)), _hash160_uncompressed=Opt(Bytes(n=20))), make=_mk_pubkey, shared=True)


def h160_of(pair, compressed):
    return ripemd160(sha256(sec_layout(pair[0], pair[1], compressed)))


def key_wf(k):
    """representation invariant of the two hash160 cache slots: empty, or the hash160 of the corresponding SEC form"""
    return (implies(k._hash160_compressed is not None, k._hash160_compressed == h160_of(k._public_pair, True))
            and implies(k._hash160_uncompressed is not None, k._hash160_uncompressed == h160_of(k._public_pair, False)))


@contract("pycoin.key.Key:Key.sec")
class key_sec:
    props = ["C10"]
    sig = dict(self=PUBKEY, is_compressed=Opt(Bool()))
    returns = Bytes()

    def ensures_layout(self, is_compressed, result):
        c = self._is_compressed if is_compressed is None else is_compressed
        return result == sec_layout(self._public_pair[0], self._public_pair[1], c)


@contract("pycoin.key.Key:Key.hash160")
class key_hash160:
    """hash160 of the SEC form; the cache slots keep their invariant (a stale slot would violate the precondition, which every
    constructor and this method establish)"""
    props = ["C10"]
    sig = dict(self=PUBKEY, is_compressed=Opt(Bool()))
    returns = Bytes()
    assigns = ["self!"]

    def requires(self, is_compressed):
        return key_wf(self)

    def ensures_value(self, is_compressed, result):
        c = self._is_compressed if is_compressed is None else is_compressed
        return (result == h160_of(self._public_pair, c), key_wf(self), self._public_pair == old(self._public_pair),
                self._is_compressed == old(self._is_compressed))
