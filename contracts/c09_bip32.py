"""C09: BIP32 child key derivation (CKDpriv / CKDpub) with HMAC-SHA512 uninterpreted, on the standard's validity domain."""
from pyvc.api import *
from spec.core import *
from spec.group import *
import contracts.c02_group_assumed  # noqa: F401
from pycoin.key.bip32 import DerivationError

B = "pycoin.key.bip32:"
GEN = AbsGenerator()


def ser32(i):
    return be(i, 4)


def sec_compressed(x, y):
    return bytes([2 + y % 2]) + be(x, 32)


def ckd_priv_data(k, px, py, i, hardened):
    """BIP32: hardened -> 0x00 || ser256(k) || ser32(i); normal -> serP(point(k)) || ser32(i)"""
    return (b"\x00" + be(k, 32) + ser32(i)) if hardened else (sec_compressed(px, py) + ser32(i))


@contract(B + "subkey_secret_exponent_chain_code_pair")
class ckd_priv:
    slow_canaries = True
    props = ["C09"]
    sig = dict(generator=GEN, secret_exponent=Int(1), chain_code_bytes=Bytes(n=32), i=Int(0, 2 ** 32 - 1), is_hardened=Bool(),
               public_pair=Tup(Int(0), Int(0)))

    def requires(generator, secret_exponent, chain_code_bytes, i, is_hardened, public_pair):
        n = generator._order
        I = hmac512(chain_code_bytes, ckd_priv_data(secret_exponent, public_pair[0], public_pair[1], i, is_hardened))
        IL = be_int_k(I[:32], 32)
        return (secret_exponent < n and n < 2 ** 256 and public_pair[0] < 2 ** 256 and public_pair[1] < 2 ** 256
                and IL < n and (IL + secret_exponent) % n != 0)      # BIP32's validity domain (the complement has probability < 2^-127)

    def ensures_bip32(generator, secret_exponent, chain_code_bytes, i, is_hardened, public_pair, result):
        n = generator._order
        I = hmac512(chain_code_bytes, ckd_priv_data(secret_exponent, public_pair[0], public_pair[1], i, is_hardened))
        return (result[0] == (be_int_k(I[:32], 32) + secret_exponent) % n, result[1] == I[32:])

    canaries = [("struct.pack('>L', i)", "struct.pack('<L', i)"), ("b'\\x00' + to_bytes_32(secret_exponent) + i_as_bytes", "to_bytes_32(secret_exponent) + b'\\x00' + i_as_bytes")]


@contract(B + "subkey_public_pair_chain_code_pair")
class ckd_pub:
    props = ["C09"]
    sig = dict(generator=GEN, public_pair=Tup(Int(0), Int(0)), chain_code_bytes=Bytes(n=32), i=Int(0, 2 ** 31 - 1))

    def requires(generator, public_pair, chain_code_bytes, i):
        return (generator._order < 2 ** 256 and public_pair[0] < 2 ** 256 and public_pair[1] < 2 ** 256
                and oncurve(public_pair[0], public_pair[1]))

    def _point(generator, public_pair, chain_code_bytes, i):
        I = hmac512(chain_code_bytes, sec_compressed(public_pair[0], public_pair[1]) + ser32(i))
        return padd(smul(be_int_k(I[:32], 32) % generator._order, GPT()), mkpt(public_pair[0], public_pair[1]))

    def _infinite(generator, public_pair, chain_code_bytes, i):
        return ckd_pub._point(generator, public_pair, chain_code_bytes, i) == INF()

    def ensures_bip32(generator, public_pair, chain_code_bytes, i, result):
        I = hmac512(chain_code_bytes, sec_compressed(public_pair[0], public_pair[1]) + ser32(i))
        return (result[0] == ckd_pub._point(generator, public_pair, chain_code_bytes, i), result[1] == I[32:])

    raises = [(DerivationError, _infinite, True)]
    canaries = [("from_bytes_32(I64[:32]) % ORDER", "from_bytes_32(I64[32:]) % ORDER")]


# ---------------------------------------------------------------- public / private commutation (group lemma)
@axiom(sig=dict(a=Int(), b=Int()), reason="in a group, (a+b)P = aP + bP (Mathlib: add_smul)", lean="lean/GroupLaws.lean")
def smul_add(a, b, P):
    return smul(a + b, P) == padd(smul(a, P), smul(b, P))


@axiom(sig=dict(a=Int(), n=Int()), reason="G has order n: aG depends only on a mod n (n*G = 0)", lean="lean/GroupLaws.lean")
def smul_mod_order(a, n):
    return smul(a % n, GPT()) == smul(a, GPT())


@lemma(sig=dict(k=Int(1), IL=Int(0), n=Int(3)), props=["C09"])
def ckd_commutes(k, IL, n):
    """public derivation of the parent's public key gives the public key of the privately derived child:
    ((IL + k) mod n) G  ==  (IL mod n) G + kG"""
    smul_mod_order(IL + k, n)
    smul_mod_order(IL, n)
    smul_add(IL, k, GPT())
    return smul((IL + k) % n, GPT()) == padd(smul(IL % n, GPT()), smul(k, GPT()))
