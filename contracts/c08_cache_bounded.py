"""C08 (bounded): acceptance of a text by a network depends on the text and the network only -- not on which other
network parsed the same (caching) parseable_str object first.  All registered networks are included, also the Groestl
family whose parsers return None here because the groestlcoin_hash extension is not installed."""
import random

from pyvc.bounded import bounded, Tally


@bounded("C08.shared_text_cache", props=["C08", "C18"], bound="all ordered pairs of the registered networks x {p2pkh, p2sh, segwit kinds} x both parse orders, 2 (quick) / 6 (thorough) seeded hashes")
def shared_text_cache(opts):
    import builtins
    from pycoin.networks.parseable_str import parseable_str
    from pycoin.networks.registry import network_codes, network_for_netcode
    rng = random.Random(opts.get('seed', 0) + 808)
    t = Tally(rule="case = (producing network, parsing network, kind, hash, order); non-trivial = the parsing network accepts the text in at least one order, or the two networks differ")
    real_print = builtins.print
    builtins.print = lambda *a, **k: None          # the groestl wrapper print()s a notice on every call
    try:
        nets = [network_for_netcode(c) for c in network_codes()]
        hashes = [bytes(range(7, 27))] + [bytes(rng.randrange(256) for _ in range(20)) for _ in range(1 if opts.get('tier') != 'thorough' else 5)]
        kinds = [("p2pkh", "for_p2pkh", 20), ("p2sh", "for_p2sh", 20), ("address", "for_p2pkh_wit", 20), ("address", "for_p2sh_wit", 32)]
        for kind, maker, hl in kinds:
            for h in hashes:
                h = (h * 2)[:hl]
                for a in nets:
                    try:
                        text = getattr(a.address, maker)(h)
                    except Exception:
                        continue
                    if not text or text == '???':
                        continue
                    for b in nets:
                        def scr(c):
                            return None if c is None else c.script()
                        try:
                            fresh_a = scr(getattr(a.parse, kind)(str(text)))
                            fresh_b = scr(getattr(b.parse, kind)(str(text)))
                        except Exception as ex:
                            t.violation("parser raised %r" % ex, repr((a.symbol, b.symbol, kind, text)), finding_key="shared-cache-parser-raises")
                            continue
                        for first in (a, b):
                            ps = parseable_str(str(text))
                            try:
                                getattr(first.parse, kind)(ps)
                                got_a = scr(getattr(a.parse, kind)(ps))
                                got_b = scr(getattr(b.parse, kind)(ps))
                            except Exception as ex:
                                t.violation("parser raised %r on a shared parseable_str" % ex, repr((a.symbol, b.symbol, kind, text)), finding_key="shared-cache-parser-raises")
                                continue
                            t.case((a.symbol, b.symbol, kind, h, first.symbol), nontrivial=(fresh_b is not None or a is not b))
                            if got_a != fresh_a or got_b != fresh_b:
                                t.violation("what %s / %s make of the %s text %s changes when %s parses the same parseable_str first"
                                            % (a.symbol, b.symbol, kind, text, first.symbol),
                                            repr({'producer': a.symbol, 'other': b.symbol, 'kind': kind, 'text': text, 'first': first.symbol,
                                                  'fresh': [fresh_a and fresh_a.hex(), fresh_b and fresh_b.hex()], 'shared': [got_a and got_a.hex(), got_b and got_b.hex()]}),
                                            repro="from pycoin.networks.parseable_str import parseable_str; from pycoin.networks.registry import network_for_netcode as N; "
                                                  "ps=parseable_str(%r); N(%r).parse.%s(ps); print(N(%r).parse.%s(ps), N(%r).parse.%s(%r))"
                                                  % (text, first.symbol, kind, b.symbol, kind, b.symbol, kind, text),
                                            finding_key="parse-result-depends-on-who-parsed-the-text-first")
    finally:
        builtins.print = real_print
    return t.result()
