"""C03 (continued): the remaining opcode handlers of the real table: verify ops, alt stack, conditionals, NOPs,
lock-time ops, hashing ops, and -- enumerated mechanically over all 256 table entries -- the always-failing and the
no-op (data push) entries."""
from pyvc.api import *
from spec.core import *
from spec.scriptnum import *
from contracts.c03_handlers import (VM, handler, register, stack_op, num_op, num_ok, minimal_flag, boolbytes, cast_to_bool, OPCODE, BitcoinVM,
                                    ScriptError, param_name, _REGISTERED)
from pycoin.coins.bitcoin.ScriptStreamer import BitcoinScriptStreamer
import hashlib

NAME_OF = {v: k for k, v in OPCODE.items()}


# ------------------------------------------------------------------ *VERIFY
class h_OP_VERIFY:
    assigns = ["vm.stack"]

    def _fails(vm):
        s = listval(vm.stack)
        return len(s) < 1 or not cast_to_bool(s[len(s) - 1])

    def ensures_stack(vm, result):
        s = old(listval(vm.stack))
        return listval(vm.stack) == s[:len(s) - 1]
    raises = [(ScriptError, _fails, True)]


register("OP_VERIFY", h_OP_VERIFY)


class h_OP_EQUALVERIFY:
    assigns = ["vm.stack"]

    def _fails(vm):
        s = listval(vm.stack)
        return len(s) < 2 or s[len(s) - 1] != s[len(s) - 2]

    def ensures_stack(vm, result):
        s = old(listval(vm.stack))
        return listval(vm.stack) == s[:len(s) - 2]
    raises = [(ScriptError, _fails, True)]


register("OP_EQUALVERIFY", h_OP_EQUALVERIFY)


class h_OP_NUMEQUALVERIFY:
    assigns = ["vm.stack"]

    def _fails(vm):
        s = listval(vm.stack)
        n = len(s)
        return n < 2 or not (num_ok(vm, s[n - 1]) and num_ok(vm, s[n - 2])) or scriptnum_dec(s[n - 1]) != scriptnum_dec(s[n - 2])

    def ensures_stack(vm, result):
        s = old(listval(vm.stack))
        return listval(vm.stack) == s[:len(s) - 2]
    raises = [(ScriptError, _fails, True)]


register("OP_NUMEQUALVERIFY", h_OP_NUMEQUALVERIFY)


# ------------------------------------------------------------------ PICK / ROLL
class h_OP_PICK:
    assigns = ["vm.stack"]

    def _fails(vm):
        s = listval(vm.stack)
        n = len(s)
        if n < 2 or not num_ok(vm, s[n - 1]):
            return True
        k = scriptnum_dec(s[n - 1])
        return k < 0 or k >= n - 1

    def ensures_stack(vm, result):
        s = old(listval(vm.stack))
        n = len(s)
        k = scriptnum_dec(s[n - 1])
        return listval(vm.stack) == s[:n - 1] + (s[n - 2 - k],)
    raises = [(ScriptError, _fails, True)]


register("OP_PICK", h_OP_PICK)


class h_OP_ROLL:
    assigns = ["vm.stack"]

    def _fails(vm):
        s = listval(vm.stack)
        n = len(s)
        if n < 2 or not num_ok(vm, s[n - 1]):
            return True
        k = scriptnum_dec(s[n - 1])
        return k < 0 or k >= n - 1

    def ensures_stack(vm, result):
        s = old(listval(vm.stack))
        n = len(s)
        k = scriptnum_dec(s[n - 1])
        return listval(vm.stack) == s[:n - 2 - k] + s[n - 1 - k:n - 1] + (s[n - 2 - k],)
    raises = [(ScriptError, _fails, True)]


register("OP_ROLL", h_OP_ROLL)


# ------------------------------------------------------------------ alt stack, code separator
class h_OP_TOALTSTACK:
    assigns = ["vm.stack", "vm.altstack"]

    def _fails(vm):
        return len(listval(vm.stack)) < 1

    def ensures_stacks(vm, result):
        s = old(listval(vm.stack))
        a = old(listval(vm.altstack))
        return (listval(vm.stack) == s[:len(s) - 1], listval(vm.altstack) == a + (s[len(s) - 1],))
    raises = [(ScriptError, _fails, True)]


register("OP_TOALTSTACK", h_OP_TOALTSTACK)


class h_OP_FROMALTSTACK:
    assigns = ["vm.stack", "vm.altstack"]

    def _fails(vm):
        return len(listval(vm.altstack)) < 1

    def ensures_stacks(vm, result):
        s = old(listval(vm.stack))
        a = old(listval(vm.altstack))
        return (listval(vm.altstack) == a[:len(a) - 1], listval(vm.stack) == s + (a[len(a) - 1],))
    raises = [(ScriptError, _fails, True)]


register("OP_FROMALTSTACK", h_OP_FROMALTSTACK)


class h_OP_CODESEPARATOR:
    assigns = ["vm!"]

    def ensures_mark(vm, result):
        return (vm.begin_code_hash == old(vm.pc), vm.pc == old(vm.pc), vm.flags == old(vm.flags), vm.op_count == old(vm.op_count),
                vm.script == old(vm.script))


register("OP_CODESEPARATOR", h_OP_CODESEPARATOR)


# ------------------------------------------------------------------ conditionals (counter representation of Core's vfExec:
# true_count = number of leading true entries, false_count = number of entries from the first false one on)
def if_contract(name, negate):
    class C:
        assigns = ["vm.stack", "vm.conditional_stack"]

        def _fails(vm):
            cs = vm.conditional_stack
            if cs.false_count > 0:
                return False
            s = listval(vm.stack)
            if len(s) < 1:
                return True
            top = s[len(s) - 1]
            return (vm.flags // 8192) % 2 == 1 and top != b"" and top != b"\x01"

        def ensures_if(vm, result):
            cs = vm.conditional_stack
            t0 = old(vm.conditional_stack.true_count)
            f0 = old(vm.conditional_stack.false_count)
            s = old(listval(vm.stack))
            if f0 > 0:
                return (cs.false_count == f0 + 1, cs.true_count == t0, listval(vm.stack) == s)
            v = cast_to_bool(s[len(s) - 1])
            taken = (not v) if negate else v
            return (listval(vm.stack) == s[:len(s) - 1],
                    cs.true_count == (t0 + 1 if taken else t0), cs.false_count == (0 if taken else 1))
        raises = [(ScriptError, _fails, True)]
    C.__name__ = "h_" + name
    return register(name, C)


if_contract("OP_IF", False)
if_contract("OP_NOTIF", True)


class h_OP_ELSE:
    assigns = ["vm.conditional_stack"]

    def _fails(vm):
        cs = vm.conditional_stack
        return cs.false_count == 0 and cs.true_count == 0

    def ensures_else(vm, result):
        cs = vm.conditional_stack
        t0 = old(vm.conditional_stack.true_count)
        f0 = old(vm.conditional_stack.false_count)
        if f0 > 1:
            return (cs.true_count == t0, cs.false_count == f0)
        if f0 == 1:
            return (cs.true_count == t0 + 1, cs.false_count == 0)
        return (cs.true_count == t0 - 1, cs.false_count == 1)
    raises = [(ScriptError, _fails, True)]


register("OP_ELSE", h_OP_ELSE)


class h_OP_ENDIF:
    assigns = ["vm.conditional_stack"]

    def _fails(vm):
        cs = vm.conditional_stack
        return cs.false_count == 0 and cs.true_count == 0

    def ensures_endif(vm, result):
        cs = vm.conditional_stack
        t0 = old(vm.conditional_stack.true_count)
        f0 = old(vm.conditional_stack.false_count)
        if f0 > 0:
            return (cs.true_count == t0, cs.false_count == f0 - 1)
        return (cs.true_count == t0 - 1, cs.false_count == 0)
    raises = [(ScriptError, _fails, True)]


register("OP_ENDIF", h_OP_ENDIF)


class h_OP_RESERVED:
    assigns = ["vm!"]

    def _fails(vm):
        return vm.conditional_stack.false_count == 0

    def ensures_uncounted(vm, result):
        return (vm.op_count == old(vm.op_count) - 1, vm.pc == old(vm.pc), vm.flags == old(vm.flags), vm.begin_code_hash == old(vm.begin_code_hash),
                vm.script == old(vm.script))
    raises = [(ScriptError, _fails, True)]


register("OP_RESERVED", h_OP_RESERVED)


# ------------------------------------------------------------------ NOPs
class h_nop_plain:
    assigns = []


register("OP_NOP", h_nop_plain)


def upgradable_nop(name):
    class C:
        assigns = []

        def _fails(vm):
            return (vm.flags // 128) % 2 == 1
        raises = [(ScriptError, _fails, True)]
    C.__name__ = "h_" + name
    return register(name, C)


for _n in "OP_NOP1 OP_NOP4 OP_NOP5 OP_NOP6 OP_NOP7 OP_NOP8 OP_NOP9 OP_NOP10".split():
    upgradable_nop(_n)


# ------------------------------------------------------------------ lock-time opcodes (BIP65 / BIP112)
LOCKTIME_THRESHOLD = 500000000


class h_OP_CLTV:
    assigns = []

    def _fails(vm):
        if (vm.flags // 512) % 2 == 0:
            return (vm.flags // 128) % 2 == 1
        s = listval(vm.stack)
        if len(s) < 1:
            return True
        top = s[len(s) - 1]
        if len(top) > 5 or (minimal_flag(vm) and not is_minimal_num(top)):
            return True
        n = scriptnum_dec(top)
        lt = vm.tx_context.lock_time
        if n < 0:
            return True
        if (n >= LOCKTIME_THRESHOLD) != (lt >= LOCKTIME_THRESHOLD):
            return True
        if n > lt:
            return True
        return vm.tx_context.sequence == 0xFFFFFFFF
    raises = [(ScriptError, _fails, True)]


register("OP_CHECKLOCKTIMEVERIFY", h_OP_CLTV)


class h_OP_CSV:
    assigns = []

    def _fails(vm):
        if (vm.flags // 1024) % 2 == 0:
            return (vm.flags // 128) % 2 == 1
        s = listval(vm.stack)
        if len(s) < 1:
            return True
        top = s[len(s) - 1]
        if len(top) > 5 or (minimal_flag(vm) and not is_minimal_num(top)):
            return True
        n = scriptnum_dec(top)
        if n < 0:
            return True
        if (n // 2147483648) % 2 == 1:          # SEQUENCE_LOCKTIME_DISABLE_FLAG set in the operand: NOP
            return False
        seq = vm.tx_context.sequence
        if vm.tx_context.version < 2:
            return True
        if (seq // 2147483648) % 2 == 1:
            return True
        n_type = (n // 4194304) % 2             # SEQUENCE_LOCKTIME_TYPE_FLAG (1 << 22)
        s_type = (seq // 4194304) % 2
        if n_type != s_type:
            return True
        return n_type * 4194304 + n % 65536 > s_type * 4194304 + seq % 65536
    raises = [(ScriptError, _fails, True)]


register("OP_CHECKSEQUENCEVERIFY", h_OP_CSV)


# ------------------------------------------------------------------ every other table entry, classified mechanically
TIER_B_ONLY = {"OP_CHECKSIG", "OP_CHECKSIGVERIFY", "OP_CHECKMULTISIG", "OP_CHECKMULTISIGVERIFY"}
_done = {t[t.index('[') + 1:-1] for t in _REGISTERED}
ALWAYS_FAIL, PUSH_NOOP, UNCLASSIFIED = [], [], []
for _k in range(256):
    _f = BitcoinVM.INSTRUCTION_LOOKUP[_k]
    _name = NAME_OF.get(_k, "x%02x" % _k)
    if _name in _done or _name in TIER_B_ONLY:
        continue
    _qn = getattr(_f, '__qualname__', '')
    if _qn.endswith('_make_bad_instruction.<locals>.f') or _qn.endswith('make_bad_opcode.<locals>.bad_opcode') or _name in ("OP_VER", "OP_RETURN", "OP_RESERVED1", "OP_RESERVED2"):
        ALWAYS_FAIL.append(_k)
    elif _qn == '_no_op' or _qn.endswith('extra_opcodes.<locals>.<lambda>'):
        PUSH_NOOP.append(_k)
    else:
        UNCLASSIFIED.append((_k, _name, _qn))


def _register_by_value(k, cls):
    f = BitcoinVM.INSTRUCTION_LOOKUP[k]
    p = param_name(f)
    name = NAME_OF.get(k, "x%02x" % k)
    cls.props = ["C03"]
    cls.func = staticmethod(lambda f=f: f)
    target = "pycoin.coins.bitcoin.VM:INSTRUCTION_LOOKUP[%s]" % name
    contract(target)(cls)
    c = REG.contracts[target]
    c.sig = {p: VM}
    c.param_alias = {p: 'vm'}
    REG.by_func.setdefault(id(f), c)
    _REGISTERED.append(target)


for _k in ALWAYS_FAIL:
    class _AF:
        assigns = []

        def _always(vm):
            return True
        raises = [(ScriptError, _always, True)]
    _AF.__name__ = "h_fail_%02x" % _k
    _register_by_value(_k, _AF)

for _k in PUSH_NOOP:
    class _NP:
        assigns = []

        def ensures_noop(vm, result):
            return (listval(vm.stack) == old(listval(vm.stack)), listval(vm.altstack) == old(listval(vm.altstack)), vm.op_count == old(vm.op_count))
    _NP.__name__ = "h_push_%02x" % _k
    _register_by_value(_k, _NP)
