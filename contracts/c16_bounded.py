"""C16 (Tier B, bounded): every peer-to-peer message type round-trips through pack and parse, and the packed bytes are
the Bitcoin wire encoding of the fields.

Oracle: the property statement + the Bitcoin P2P wire format (little-endian integers, compact-size counts, network
order ports, 16-byte (IPv4-mapped) addresses, 6-byte LE short ids, embedded tx / header / block serialisations).
The reference encoder below is written independently of pycoin's Streamer; the expected field layout of each message
is pinned in EXPECTED_LAYOUT (so a typo in pycoin's layout table shows up as a byte mismatch).  Message names are read
from the real table (pycoin.message.make_parser_and_packer.standard_messages()); a name that is not in EXPECTED_LAYOUT
is still exercised, type-directed from its declared layout.
"""
import hashlib
import random

from pyvc.bounded import bounded, Tally

from pycoin.message.make_parser_and_packer import standard_messages
from pycoin.message.InvItem import InvItem
from pycoin.message.PeerAddress import PeerAddress
from pycoin.symbols.btc import network as BTC
from pycoin.symbols.ltc import network as LTC

MAX_PER_KEY = 3


class KTally(Tally):
    """Tally that keeps at most MAX_PER_KEY violations per finding key so one defect cannot crowd out another."""

    def __init__(self, rule):
        super().__init__(rule)
        self.per_key = {}

    def violation(self, what, inputs, repro=None, finding_key=None):
        k = finding_key or what
        self.per_key[k] = self.per_key.get(k, 0) + 1
        if self.per_key[k] <= MAX_PER_KEY:
            super().violation(what, inputs, repro, finding_key)

    def result(self):
        r = super().result()
        r["violation_counts_by_key"] = dict(self.per_key)
        return r


# ----------------------------------------------------------------------------------------------------------------
# independent reference encoder
# ----------------------------------------------------------------------------------------------------------------

def sha256d(b):
    return hashlib.sha256(hashlib.sha256(b).digest()).digest()


def compact_size(n):
    if n < 0xfd:
        return bytes([n])
    if n <= 0xffff:
        return b"\xfd" + n.to_bytes(2, "little")
    if n <= 0xffffffff:
        return b"\xfe" + n.to_bytes(4, "little")
    return b"\xff" + n.to_bytes(8, "little")


def ref_header(fields):
    version, prev, root, ts, bits, nonce = fields
    return (version.to_bytes(4, "little") + prev + root + ts.to_bytes(4, "little") + bits.to_bytes(4, "little")
            + nonce.to_bytes(4, "little"))


def ref_tx(parts, with_witness=True):
    version, ins, outs, lock_time, witnesses = parts
    if not with_witness:
        witnesses = None
    out = [version.to_bytes(4, "little")]
    if witnesses is not None:
        out.append(b"\x00\x01")
    out.append(compact_size(len(ins)))
    for ph, idx, script, seq in ins:
        out += [ph, idx.to_bytes(4, "little"), compact_size(len(script)), script, seq.to_bytes(4, "little")]
    out.append(compact_size(len(outs)))
    for value, script in outs:
        out += [value.to_bytes(8, "little"), compact_size(len(script)), script]
    if witnesses is not None:
        for stack in witnesses:
            out.append(compact_size(len(stack)))
            for item in stack:
                out += [compact_size(len(item)), item]
    out.append(lock_time.to_bytes(4, "little"))
    return b"".join(out)


def ref_merkle_root(leaves):
    row = list(leaves)
    while len(row) > 1:
        nxt = []
        for i in range(0, len(row), 2):
            a = row[i]
            b = row[i + 1] if i + 1 < len(row) else a
            nxt.append(sha256d(a + b))
        row = nxt
    return row[0]


IP4_MAPPED = b"\x00" * 10 + b"\xff\xff"


def ip16(ip):
    return IP4_MAPPED + ip if len(ip) == 4 else ip


def enc(letter, v):
    """wire encoding of a spec value of the declared type"""
    if letter == "L":
        return v.to_bytes(4, "little")
    if letter == "Q":
        return v.to_bytes(8, "little")
    if letter == "6":
        return v.to_bytes(6, "little")
    if letter == "1":
        return bytes([v])
    if letter == "I":
        return compact_size(v)
    if letter == "S":
        return compact_size(len(v)) + v
    if letter == "#":
        assert len(v) == 32
        return v
    if letter == "b":
        return b"\x01" if v else b"\x00"
    if letter == "O":
        return b"" if v is None else (b"\x01" if v else b"\x00")
    if letter == "A":
        services, ip, port = v
        return services.to_bytes(8, "little") + ip16(ip) + port.to_bytes(2, "big")
    if letter == "v":
        return v[0].to_bytes(4, "little") + v[1]
    if letter == "T":
        return ref_tx(v)
    if letter == "z":
        return ref_header(v)
    if letter == "B":
        fields, txs = v
        return ref_header(fields) + compact_size(len(txs)) + b"".join(ref_tx(p) for p in txs)
    raise KeyError(letter)


def split_layout(layout):
    """'a:L b:[LA]' -> [('a', 'L', False), ('b', 'LA', True)]"""
    out = []
    for item in layout.split():
        name, typ = item.split(":")
        if typ.startswith("["):
            assert typ.endswith("]")
            out.append((name, typ[1:-1], True))
        else:
            assert len(typ) == 1
            out.append((name, typ, False))
    return out


def enc_message(layout, values):
    out = []
    for name, typ, is_array in split_layout(layout):
        v = values[name]
        if is_array:
            out.append(compact_size(len(v)))
            for el in v:
                if len(typ) == 1:
                    out.append(enc(typ, el))
                else:
                    out.append(b"".join(enc(c, x) for c, x in zip(typ, el)))
        else:
            out.append(enc(typ, v))
    return b"".join(out)


# the layouts of the 28 messages (field name : declared type), pinned from the Bitcoin protocol as the library names it
EXPECTED_LAYOUT = {
    "version": "version:L services:Q timestamp:Q remote_address:A local_address:A nonce:Q subversion:S"
               " last_block_index:L relay:O",
    "verack": "",
    "addr": "date_address_tuples:[LA]",
    "inv": "items:[v]",
    "getdata": "items:[v]",
    "notfound": "items:[v]",
    "reject": "message:S code:1 reason:S data:#",
    "getblocks": "version:L hashes:[#] hash_stop:#",
    "getheaders": "version:L hashes:[#] hash_stop:#",
    "sendheaders": "",
    "tx": "tx:T",
    "block": "block:B",
    "headers": "headers:[zI]",
    "getaddr": "",
    "mempool": "",
    "feefilter": "fee_filter_value:Q",
    "sendcmpct": "enabled:b version:Q",
    "cmpctblock": "header_hash:# nonce:Q short_ids:[6] prefilled_txs:[IT]",
    "getblocktxn": "header_hash:# indices:[I]",
    "blocktxn": "header_hash:# txs:[T]",
    "sendaddrv2": "",
    "ping": "nonce:Q",
    "pong": "nonce:Q",
    "filterload": "filter:[1] hash_function_count:L tweak:L flags:b",
    "filteradd": "data:[1]",
    "filterclear": "",
    "merkleblock": "header:z total_transactions:L hashes:[#] flags:[1]",
    "alert": "payload:S signature:S",
}
ALERT_LAYOUT = ("version:L relayUntil:Q expiration:Q id:L cancel:L setCancel:[L] minVer:L maxVer:L setSubVer:[S] "
                "priority:L comment:S statusBar:S reserved:S")


# ----------------------------------------------------------------------------------------------------------------
# spec values <-> pycoin objects
# ----------------------------------------------------------------------------------------------------------------

def make_tx(net, parts):
    version, ins, outs, lock, wit = parts
    Tx = net.tx
    txs_in = []
    for k, (ph, idx, script, seq) in enumerate(ins):
        ti = Tx.TxIn(ph, idx, script, seq)
        if wit is not None:
            ti.witness = list(wit[k])
        txs_in.append(ti)
    return Tx(version, txs_in, [Tx.TxOut(v, s) for v, s in outs], lock)


def to_obj(net, letter, v):
    if letter == "A":
        return PeerAddress(v[0], v[1], v[2])
    if letter == "v":
        return InvItem(v[0], v[1], dont_check=True)
    if letter == "T":
        return make_tx(net, v)
    if letter == "z":
        return net.block(*v)
    if letter == "B":
        b = net.block(*v[0])
        b.set_txs([make_tx(net, p) for p in v[1]])
        return b
    return v


def to_kwargs(net, layout, values):
    kw = {}
    for name, typ, is_array in split_layout(layout):
        v = values[name]
        if is_array:
            if len(typ) == 1:
                kw[name] = [to_obj(net, typ, el) for el in v]
            else:
                kw[name] = [tuple(to_obj(net, c, x) for c, x in zip(typ, el)) for el in v]
        else:
            kw[name] = to_obj(net, typ, v)
    return kw


def tx_to_spec(tx):
    wit = [[bytes(w) for w in ti.witness] for ti in tx.txs_in]
    if not any(len(s) for s in wit):
        wit = None
    return (tx.version, [(bytes(ti.previous_hash), ti.previous_index, bytes(ti.script), ti.sequence) for ti in tx.txs_in],
            [(to.coin_value, bytes(to.script)) for to in tx.txs_out], tx.lock_time, wit)


def hdr_to_spec(b):
    return (b.version, bytes(b.previous_block_hash), bytes(b.merkle_root), b.timestamp, b.difficulty, b.nonce)


def from_obj(letter, o):
    """normalise a parsed value to the canonical spec form"""
    if letter in "LQ61I":
        if type(o) is not int:
            raise TypeError("parsed %r for integer type %s" % (o, letter))
        return o
    if letter in "S#":
        if not isinstance(o, bytes):
            raise TypeError("parsed %r for bytes type %s" % (o, letter))
        return bytes(o)
    if letter == "b":
        if type(o) is not bool:
            raise TypeError("parsed %r for bool" % (o,))
        return o
    if letter == "O":
        return o  # compared as is: True / False / None
    if letter == "A":
        return (o.services, bytes(o.ip_bin), o.port)
    if letter == "v":
        return (o.item_type, bytes(o.data))
    if letter == "T":
        return tx_to_spec(o)
    if letter == "z":
        return hdr_to_spec(o)
    if letter == "B":
        return (hdr_to_spec(o), [tx_to_spec(t) for t in o.txs])
    raise KeyError(letter)


def canon(letter, v):
    """canonical form of an input spec value (what an exact round trip must give back)"""
    if letter == "A":
        return (v[0], ip16(v[1]), v[2])
    if letter == "v":
        return (v[0], v[1])
    if letter == "T":
        return canon_tx(v)
    if letter == "B":
        return (tuple(v[0]), [canon_tx(p) for p in v[1]])
    if letter == "z":
        return tuple(v)
    if letter == "b":
        return bool(v)
    return v


def canon_tx(p):
    version, ins, outs, lock, wit = p
    if wit is not None:
        wit = [list(s) for s in wit]
    return (version, [tuple(i) for i in ins], [tuple(o) for o in outs], lock, wit)


def canon_values(layout, values):
    out = {}
    for name, typ, is_array in split_layout(layout):
        v = values[name]
        if is_array:
            out[name] = [canon(typ, el) if len(typ) == 1 else tuple(canon(c, x) for c, x in zip(typ, el)) for el in v]
        else:
            out[name] = canon(typ, v)
    return out


def parsed_to_spec(layout, d):
    out = {}
    for name, typ, is_array in split_layout(layout):
        v = d[name]
        if is_array:
            out[name] = [from_obj(typ, el) if len(typ) == 1 else tuple(from_obj(c, x) for c, x in zip(typ, el))
                         for el in v]
        else:
            out[name] = from_obj(typ, v)
    return out


# ----------------------------------------------------------------------------------------------------------------
# value generation (boundary + seeded)
# ----------------------------------------------------------------------------------------------------------------

def rand_bytes(rng, n):
    return rng.getrandbits(8 * n).to_bytes(n, "little") if n else b""


INT_BOUNDS = {
    "L": [0, 1, 0xff, 0x100, 0x7fffffff, 0x80000000, 0xffffffff],
    "Q": [0, 1, 0xffffffff, 0x100000000, 2 ** 63 - 1, 2 ** 63, 2 ** 64 - 1],
    "6": [0, 1, 0xffff, 0xffffffff, 2 ** 32, 2 ** 32 + 1, 2 ** 40, 2 ** 47, 2 ** 48 - 1, 0x0102030405ff],
    "1": [0, 1, 0x7f, 0x80, 0xff],
    "I": [0, 1, 0xfc, 0xfd, 0xfe, 0xff, 0xffff, 0x10000, 0xffffffff, 0x100000000, 2 ** 64 - 1],
}
INT_BITS = {"L": 32, "Q": 64, "6": 48, "1": 8, "I": 64}
STR_LENS = [0, 1, 0xfc, 0xfd, 0xfe, 0x100, 0xffff, 0x10000]
ARRAY_LENS = [0, 1, 2, 0xfc, 0xfd, 0xfe, 0x100]
ARRAY_LENS_BIG = [0xffff, 0x10000]
IPS = [bytes([0, 0, 0, 0]), bytes([127, 0, 0, 1]), bytes([255, 255, 255, 255]), bytes([192, 168, 1, 99]),
       bytes.fromhex("2607f8b04006080a000000000000200e"), b"\x00" * 16, b"\xff" * 16, b"\x00" * 15 + b"\x01",
       IP4_MAPPED + bytes([10, 0, 0, 1]), bytes.fromhex("fd87d87eeb43") + bytes(range(10))]
PORTS = [0, 1, 0xff, 0x100, 8333, 0x208d, 0x8d20, 0x7fff, 0x8000, 0xffff]
H32S = [b"\x00" * 32, b"\xff" * 32, bytes(range(32)), bytes(range(31, -1, -1))]
INV_TYPES = [0, 1, 2, 3, 4, (1 << 30) | 1, (1 << 30) | 2, 0xffffffff]


def rand_tx(rng, small=False):
    version = rng.choice([1, 2, rng.getrandbits(32)])
    n_in = rng.choice([1, 1, 2, 3])
    n_out = rng.choice([1, 2, 3, 0])
    slen = (lambda: rng.randrange(0, 30)) if small else (lambda: rng.choice([0, 1, 25, 107, 0xfc, 0xfd, 300]))
    ins = [(rand_bytes(rng, 32), rng.choice([0, 1, 0xffffffff, rng.getrandbits(32)]), rand_bytes(rng, slen()),
            rng.choice([0, 0xfffffffe, 0xffffffff, rng.getrandbits(32)])) for _ in range(n_in)]
    outs = [(rng.choice([0, 1, rng.randrange(21 * 10 ** 14), 2 ** 64 - 1]), rand_bytes(rng, slen()))
            for _ in range(n_out)]
    wit = None
    if rng.random() < 0.35:
        wit = [[rand_bytes(rng, rng.randrange(0, 80)) for _ in range(rng.randrange(0, 3))] for _ in range(n_in)]
        if not any(len(s) for s in wit):
            wit[-1] = [b"", b"\x30"]
    return (version, ins, outs, rng.choice([0, 499999999, 500000000, 0xffffffff, rng.getrandbits(32)]), wit)


def rand_header(rng, root=None):
    return (rng.choice([0, 1, 2, 0x20000000, 0xffffffff, rng.getrandbits(32)]), rand_bytes(rng, 32),
            root if root is not None else rand_bytes(rng, 32), rng.getrandbits(32),
            rng.choice([0x1d00ffff, rng.getrandbits(32)]), rng.choice([0, 0xffffffff, rng.getrandbits(32)]))


def rand_block(rng, n):
    txs = [rand_tx(rng, small=n > 8) for _ in range(n)]
    root = ref_merkle_root([sha256d(ref_tx(p, with_witness=False)) for p in txs])
    return (rand_header(rng, root), txs)


def gen_scalar(rng, letter, mode):
    """mode: 'min' | 'max' | 'rand' | ('b', i) = i-th boundary value (mod number of boundaries)"""
    bidx = mode[1] if isinstance(mode, tuple) else None
    if letter in INT_BOUNDS:
        bounds = INT_BOUNDS[letter]
        if mode == "min":
            return bounds[0]
        if mode == "max":
            return bounds[-1]
        if bidx is not None:
            return bounds[bidx % len(bounds)]
        if letter == "I" and rng.random() < 0.5:
            return rng.choice([rng.randrange(0, 0x200), rng.getrandbits(16), rng.getrandbits(32)])
        return rng.choice([rng.getrandbits(INT_BITS[letter]), rng.getrandbits(rng.randrange(1, INT_BITS[letter] + 1))])
    if letter == "S":
        if mode == "min":
            return b""
        if mode == "max":
            return rand_bytes(rng, 0x10000)
        if bidx is not None:
            return rand_bytes(rng, STR_LENS[bidx % len(STR_LENS)])
        return rand_bytes(rng, rng.choice([0, 1, 7, 15, 40, rng.randrange(0, 600)]))
    if letter == "#":
        if mode == "min":
            return H32S[0]
        if mode == "max":
            return H32S[1]
        if bidx is not None:
            return H32S[bidx % len(H32S)]
        return rand_bytes(rng, 32)
    if letter == "b":
        if mode == "min":
            return False
        if mode == "max":
            return True
        if bidx is not None:
            return [False, True][bidx % 2]
        return rng.random() < 0.5
    if letter == "O":
        if mode == "min":
            return None
        if mode == "max":
            return True
        if bidx is not None:
            return [None, False, True][bidx % 3]
        return rng.choice([None, False, True])
    if letter == "A":
        if mode == "min":
            return (0, IPS[0], 0)
        if mode == "max":
            return (2 ** 64 - 1, IPS[6], 0xffff)
        if bidx is not None:
            return (INT_BOUNDS["Q"][bidx % 7], IPS[bidx % len(IPS)], PORTS[bidx % len(PORTS)])
        return (rng.choice([0, 1, 1033, rng.getrandbits(64)]), rng.choice(IPS + [rand_bytes(rng, 4), rand_bytes(rng, 16)]),
                rng.choice(PORTS + [rng.getrandbits(16)]))
    if letter == "v":
        if mode == "min":
            return (INV_TYPES[0], H32S[0])
        if mode == "max":
            return (INV_TYPES[-1], H32S[1])
        if bidx is not None:
            return (INV_TYPES[bidx % len(INV_TYPES)], H32S[bidx % len(H32S)])
        return (rng.choice(INV_TYPES + [rng.getrandbits(32)]), rand_bytes(rng, 32))
    if letter == "T":
        return rand_tx(rng)
    if letter == "z":
        if mode == "min":
            return (0, H32S[0], H32S[0], 0, 0, 0)
        if mode == "max":
            return (0xffffffff, H32S[1], H32S[1], 0xffffffff, 0xffffffff, 0xffffffff)
        return rand_header(rng)
    if letter == "B":
        if mode == "min":
            return rand_block(rng, 1)
        if mode == "max":
            return rand_block(rng, 0xfd)
        if bidx is not None:
            return rand_block(rng, [1, 2, 3, 4, 5, 7, 8, 9, 0xfc, 0xfd][bidx % 10])
        return rand_block(rng, rng.choice([1, 2, 3, 5, 6, 11, 16, 17]))
    raise KeyError(letter)


def gen_array(rng, typ, mode, big_ok):
    bidx = mode[1] if isinstance(mode, tuple) else None
    heavy = any(c in "TB" for c in typ)
    if mode == "min":
        n = 0
    elif mode == "max":
        n = 0x10000 if (big_ok and not heavy and typ != "LA") else 0x100
    elif bidx is not None:
        lens = ARRAY_LENS + (ARRAY_LENS_BIG if (big_ok and not heavy) else [])
        n = lens[bidx % len(lens)]
    else:
        n = rng.choice([0, 1, 2, 3, 5, 8, rng.randrange(0, 40)])
    elmode = "rand" if n > 16 else rng.choice(["rand", "rand", ("b", rng.randrange(64))])

    def one_scalar(c, j):
        if c in "TB" and n > 16:
            return rand_tx(rng, small=True) if c == "T" else rand_block(rng, 1)
        if isinstance(elmode, tuple):
            return gen_scalar(rng, c, ("b", elmode[1] + j))
        # sprinkle boundary element values through long arrays
        if c in INT_BOUNDS and j < len(INT_BOUNDS[c]) and n > 16:
            return INT_BOUNDS[c][j]
        return gen_scalar(rng, c, "rand")

    out = []
    for j in range(n):
        if len(typ) == 1:
            out.append(one_scalar(typ, j))
        else:
            out.append(tuple(one_scalar(c, j) for c in typ))
    return out


def gen_values(rng, layout, modes, big_ok):
    values = {}
    for name, typ, is_array in split_layout(layout):
        mode = modes.get(name, modes.get("*", "rand"))
        values[name] = gen_array(rng, typ, mode, big_ok) if is_array else gen_scalar(rng, typ, mode)
    return values


def n_boundaries(typ, is_array, big_ok):
    if is_array:
        return len(ARRAY_LENS) + (len(ARRAY_LENS_BIG) if big_ok and not any(c in "TB" for c in typ) else 0)
    return {"S": len(STR_LENS), "#": len(H32S), "b": 2, "O": 3, "A": 10, "v": len(INV_TYPES), "T": 4, "z": 3,
            "B": 10}.get(typ) or len(INT_BOUNDS[typ])


def cases_for(rng, layout, n_random, big_ok):
    """yield (label, values): all-min, all-max, one-field-at-a-time boundary sweep (others random), seeded random"""
    fields = split_layout(layout)
    if not fields:
        yield ("empty", {})
        return
    yield ("all-min", gen_values(rng, layout, {"*": "min"}, big_ok))
    yield ("all-max", gen_values(rng, layout, {"*": "max"}, big_ok))
    for name, typ, is_array in fields:
        for i in range(n_boundaries(typ, is_array, big_ok)):
            yield ("%s=b%d" % (name, i), gen_values(rng, layout, {name: ("b", i)}, big_ok))
    for j in range(n_random):
        yield ("rand%d" % j, gen_values(rng, layout, {}, big_ok))


# ----------------------------------------------------------------------------------------------------------------
# the check
# ----------------------------------------------------------------------------------------------------------------

def short(v, lim=160):
    s = repr(v)
    return s if len(s) <= lim else s[:lim] + "...(%d chars)" % len(s)


def defect_key(name, layout, values, exc, want=None, got=None):
    """map a failure to a stable finding key (one per distinct defect)"""
    types = [t for _, t, _ in split_layout(layout)]
    if exc is not None and any("6" in t for t in types) and any(
            len(values[n]) > 0 for n, t, a in split_layout(layout) if a and "6" in t):
        return "int6-codec-struct-args-swapped"
    if exc is None and want is not None and got is not None:
        diff = [k for k in want if want[k] != got.get(k, "<missing>")]
        odiff = [k for k in diff if dict((n, t) for n, t, _ in split_layout(layout)).get(k) == "O"]
        if diff and diff == odiff:
            k = diff[0]
            if want[k] is False and got.get(k) is True:
                return "optional-bool-O-false-parses-true"
            if want[k] is None and k in got and got[k] is not None:
                return "optional-bool-O-absent-parses-%s" % str(got[k]).lower()
            return "optional-bool-O-roundtrip"
    return None


def check_case(t, net, net_name, name, layout, label, values, lib_layout_matches):
    want_bytes = enc_message(layout, values)
    want = canon_values(layout, values)
    key = (net_name, name, sha256d(want_bytes + label.encode()) if not want_bytes else sha256d(want_bytes))
    nontrivial = bool(layout)
    t.case(key=key, nontrivial=nontrivial or label == "empty",
           sample={"msg": name, "case": label, "wire_len": len(want_bytes)})
    inputs = {"msg": name, "case": label, "fields": short(values), "wire": want_bytes.hex()[:200]}
    rep_parse = ("from pycoin.symbols.%s import network as N; print(N.message.parse(%r, bytes.fromhex('%s')))"
                 % (net_name.lower(), name, want_bytes.hex() if len(want_bytes) <= 400 else "<%d bytes>" % len(want_bytes)))
    # (a) pack(fields) == reference wire bytes
    packed = None
    try:
        kwargs = to_kwargs(net, layout, values)
        packed = net.message.pack(name, **kwargs)
        if packed != want_bytes:
            t.violation("%s: packed bytes != Bitcoin wire encoding of the fields" % name, inputs,
                        "N.message.pack(%r, **fields)  # fields=%s" % (name, short(values, 300)),
                        "pack-bytes-mismatch-" + name)
    except Exception as e:  # noqa
        k = defect_key(name, layout, values, e) or ("pack-raises-%s-%s" % (type(e).__name__, name))
        t.violation("%s: pack raised %s: %s" % (name, type(e).__name__, str(e)[:80]), inputs,
                    "from pycoin.symbols.btc import network as N; N.message.pack(%r, **fields)  # fields=%s"
                    % (name, short(values, 300)), k)
    # (b) parse(reference wire bytes) == fields; (c) parse(pack(fields)) == fields
    for what, data in (("parse(wire)", want_bytes), ("parse(pack(fields))", packed)):
        if data is None or (what != "parse(wire)" and data == want_bytes):
            continue
        try:
            d = net.message.parse(name, data)
            got = parsed_to_spec(layout, d)
            extra = set(d) - set(got) - {"tx_hashes", "alert_info"}
            if got != want or extra:
                k = defect_key(name, layout, values, None, want, got) or ("parse-fields-mismatch-" + name)
                bad = [f for f in want if want[f] != got.get(f)]
                t.violation("%s: %s returned different field values (fields %s: want %s got %s)"
                            % (name, what, bad, short([want[f] for f in bad], 80), short([got.get(f) for f in bad], 80)),
                            inputs, rep_parse, k)
        except Exception as e:  # noqa
            k = defect_key(name, layout, values, e) or ("parse-raises-%s-%s" % (type(e).__name__, name))
            t.violation("%s: %s raised %s: %s" % (name, what, type(e).__name__, str(e)[:80]), inputs, rep_parse, k)


def alert_cases(rng, n_random, big_ok):
    for label, info in cases_for(rng, ALERT_LAYOUT, n_random, False):
        payload = enc_message(ALERT_LAYOUT, info)
        sig = rand_bytes(rng, rng.choice([0, 70, 71, 72, 0xfd]))
        yield (label, {"payload": payload, "signature": sig}, info)


def _tw(n, h):
    return (n + (1 << h) - 1) >> h


def _node(leaves, h, pos):
    if h == 0:
        return leaves[pos]
    left = _node(leaves, h - 1, 2 * pos)
    right = _node(leaves, h - 1, 2 * pos + 1) if 2 * pos + 1 < _tw(len(leaves), h - 1) else left
    return sha256d(left + right)


def partial_tree(leaves, matched):
    """BIP37 partial merkle tree -> (root, hashes, flag bytes as list of ints)"""
    n = len(leaves)
    height = 0
    while _tw(n, height) > 1:
        height += 1
    hashes, bits = [], []

    def walk(h, pos):
        pm = any(matched[i] for i in range(pos << h, min((pos + 1) << h, n)))
        bits.append(pm)
        if h == 0 or not pm:
            hashes.append(_node(leaves, h, pos))
        else:
            walk(h - 1, 2 * pos)
            if 2 * pos + 1 < _tw(n, h - 1):
                walk(h - 1, 2 * pos + 1)

    walk(height, 0)
    fb = [0] * ((len(bits) + 7) // 8)
    for i, b in enumerate(bits):
        if b:
            fb[i // 8] |= 1 << (i % 8)
    return _node(leaves, height, 0), hashes, fb


def merkleblock_cases(rng, n_random):
    """merkleblock is post-validated by the parser, so field values must form an honest BIP37 proof"""
    shapes = [(1, "all"), (1, "none"), (2, "all"), (3, "first"), (7, "all"), (8, "rand"), (9, "last"), (252, "all"),
              (253, "all"), (254, "all"), (256, "rand"), (600, "none"), (600, "rand")]
    for _ in range(n_random):
        shapes.append((rng.randrange(1, 70), rng.choice(["all", "none", "rand", "first", "last"])))
    for n, kind in shapes:
        leaves = [rand_bytes(rng, 32) for _ in range(n)]
        matched = {"all": [True] * n, "none": [False] * n, "first": [i == 0 for i in range(n)],
                   "last": [i == n - 1 for i in range(n)], "rand": [rng.random() < 0.4 for _ in range(n)]}[kind]
        root, hashes, fb = partial_tree(leaves, matched)
        yield ("n=%d/%s" % (n, kind), {"header": rand_header(rng, root), "total_transactions": n, "hashes": hashes,
                                       "flags": fb}, [leaves[i] for i in range(n) if matched[i]])


def run_all(opts, names_filter, t, n_random, big_ok, nets):
    rng = random.Random(opts["seed"] * 1000003 + 16)
    table = standard_messages()
    per_msg = {}
    for net_name, net in nets:
        for name in sorted(table):
            if names_filter is not None and not names_filter(name):
                continue
            lib_layout = table[name]
            layout = EXPECTED_LAYOUT.get(name, lib_layout)
            same = " ".join(lib_layout.split()) == " ".join(layout.split())
            before = t.evaluations
            if name == "alert" and name in EXPECTED_LAYOUT:
                for label, values, info in alert_cases(rng, n_random, big_ok):
                    check_case(t, net, net_name, name, layout, label, values, same)
                    # the post-processed alert_info must be the alert fields
                    try:
                        d = net.message.parse("alert", enc_message(layout, values))
                        got = parsed_to_spec(ALERT_LAYOUT, d["alert_info"])
                        if got != canon_values(ALERT_LAYOUT, info):
                            t.violation("alert: alert_info differs from the encoded alert fields", short(info),
                                        None, "alert-info-mismatch")
                    except Exception as e:  # noqa
                        t.violation("alert: parse of a well-formed alert raised %s" % type(e).__name__, short(info),
                                    None, "parse-raises-%s-alert" % type(e).__name__)
            elif name == "merkleblock" and name in EXPECTED_LAYOUT:
                for label, values, want_matches in merkleblock_cases(rng, n_random):
                    check_case(t, net, net_name, name, layout, label, values, same)
                    try:
                        d = net.message.parse(name, enc_message(layout, values))
                        if [bytes(h) for h in d["tx_hashes"]] != want_matches:
                            t.violation("merkleblock: tx_hashes differ from the matched leaves", label, None,
                                        "merkleblock-wrong-matches")
                    except Exception:  # noqa  already reported by check_case
                        pass
            else:
                for label, values in cases_for(rng, layout, n_random, big_ok):
                    check_case(t, net, net_name, name, layout, label, values, same)
            per_msg[name] = per_msg.get(name, 0) + t.evaluations - before
    return per_msg


@bounded("C16.all_messages_roundtrip_and_wire", props=["C16"],
         bound="every message name in the library table (28) x {all-min, all-max, each boundary value of each field "
               "with the other fields seeded, N seeded cases (quick 150, thorough 1500)}; ints at 0/max and byte-width "
               "edges, compact-size at 0xfc/0xfd/0xffff/0x10000/2^32, strings and arrays of length 0,1,2,252,253,254,"
               "256 (+65535,65536 thorough), IPv4(4- and 16-byte forms)/IPv6, ports incl. 0x208d vs 0x8d20, "
               "relay True/False/absent, 6-byte ids incl. >= 2^32, embedded legacy+segwit txs, headers, blocks of "
               "1..253 txs; BTC (thorough: also LTC)")
def c16_all_messages(opts):
    quick = opts["tier"] == "quick"
    t = KTally(rule="one case = (network, message name, reference wire bytes).  Checks: (a) network.message.pack(name, "
                    "**fields) == independent wire encoding; (b) network.message.parse(name, wire) gives back every "
                    "field value (objects compared field by field: PeerAddress(services, 16-byte ip, port), InvItem("
                    "type, hash), Tx inputs/outputs/witness/lock_time, header fields, block header+txs); (c) if pack "
                    "gave other bytes, parse(pack(fields)) must still give the fields.  Parameterless messages count "
                    "as one case each")
    nets = (("BTC", BTC),) if quick else (("BTC", BTC), ("LTC", LTC))
    per_msg = run_all(opts, None, t, 150 if quick else 1500, not quick, nets)
    t.exhaustive = False
    res = t.result()
    res["message_names"] = sorted(standard_messages())
    res["cases_per_message"] = per_msg
    res["expected_but_undefined"] = sorted(set(EXPECTED_LAYOUT) - set(standard_messages()))
    return res


@bounded("C16.field_codecs_exhaustive_small", props=["C16"],
         bound="codec-level sweep through real messages: every u8 (filteradd 1-element arrays, reject.code), every "
               "array length 0..300 for [1], [I], [#], [v], every compact-size value 0..70000 step 1 around the 0xfd/"
               "0x10000 edges (+-300) as getblocktxn index, all 65536 ports (thorough; quick: 4096 stratified), "
               "short ids 2^k-1, 2^k, 2^k+1 for k=0..48, relay in {True, False, absent}")
def c16_codecs(opts):
    quick = opts["tier"] == "quick"
    rng = random.Random(opts["seed"] * 1000003 + 1602)
    t = KTally(rule="one case = (message, reference wire bytes); same three checks as C16.all_messages; the inputs are "
                    "enumerated exhaustively per codec while the remaining fields are fixed")
    net, nn = BTC, "BTC"

    def run(name, label, values):
        check_case(t, net, nn, name, EXPECTED_LAYOUT[name], label, values, True)

    for v in range(256):
        run("filteradd", "u8=%d" % v, {"data": [v]})
        run("reject", "code=%d" % v, {"message": b"tx", "code": v, "reason": b"r" * (v % 7), "data": bytes([v]) * 32})
    for n in range(0, 301):
        run("filteradd", "len=%d" % n, {"data": [(i * 7 + n) & 0xff for i in range(n)]})
        run("getblocktxn", "len=%d" % n, {"header_hash": H32S[2], "indices": [rng.choice([0, 1, 252, 253, rng.getrandbits(20)]) for _ in range(n)]})
        run("getheaders", "len=%d" % n, {"version": 70015, "hashes": [rand_bytes(rng, 32) for _ in range(n)], "hash_stop": H32S[0]})
        run("inv", "len=%d" % n, {"items": [(1 + (i % 3), rand_bytes(rng, 32)) for i in range(n)]})
    cs_values = set(range(0, 600)) | set(range(0x10000 - 300, 0x10000 + 300)) | {2 ** 32 - 1, 2 ** 32, 2 ** 32 + 1, 2 ** 64 - 1}
    for k in range(0, 64):
        cs_values |= {2 ** k, 2 ** k + 1, 2 ** (k + 1) - 1}
    for v in sorted(cs_values):
        run("getblocktxn", "cs=%d" % v, {"header_hash": H32S[1], "indices": [v]})
    ports = range(65536) if not quick else sorted(set(range(0, 65536, 17)) | set(range(0, 600)) | set(range(65000, 65536)))
    for p in ports:
        ip = IPS[p % len(IPS)]
        run("addr", "port=%d" % p, {"date_address_tuples": [(p * 65537 & 0xffffffff, (p, ip, p))]})
    sid = set()
    for k in range(0, 49):
        sid |= {max(2 ** k - 1, 0), min(2 ** k, 2 ** 48 - 1), min(2 ** k + 1, 2 ** 48 - 1)}
    for v in sorted(sid):
        run("cmpctblock", "sid=%d" % v, {"header_hash": H32S[2], "nonce": v, "short_ids": [v], "prefilled_txs": []})
    run("cmpctblock", "no-sids", {"header_hash": H32S[2], "nonce": 1, "short_ids": [], "prefilled_txs": [(0, rand_tx(rng))]})
    pa4 = (1, bytes([1, 2, 3, 4]), 8333)
    pa6 = (1033, IPS[4], 18333)
    for relay in (True, False, None):
        for sub in (b"", b"/Satoshi:0.21.0/"):
            run("version", "relay=%r" % (relay,), {"version": 70015, "services": 1033, "timestamp": 1600000000,
                                                  "remote_address": pa4, "local_address": pa6, "nonce": 2 ** 64 - 1,
                                                  "subversion": sub, "last_block_index": 650000, "relay": relay})
    t.exhaustive = False
    return t.result()
