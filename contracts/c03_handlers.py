"""C03: every opcode handler, taken from the real BitcoinVM.INSTRUCTION_LOOKUP table as built at import,
against a per-opcode transcription of Core's EvalScript step (stack effect + failure condition).

The per-opcode specs below are cross-validated natively against /verif/spec/consensus_script.py (itself validated on
Core's script vectors) by the bounded check C03.handler_specs_vs_core in c03_spec_sanity.py."""
from pyvc.api import *
from spec.core import *
from spec.scriptnum import *
from spec.sighash import sha256, sha1, ripemd160
from pycoin.coins.bitcoin.VM import BitcoinVM
from pycoin.vm.ConditionalStack import ConditionalStack
from pycoin.vm.VM import conditional_error_f
from pycoin.coins.SolutionChecker import ScriptError
from pycoin.satoshi import opcodes as _opcodes
import pyvc.interp as _interp

OPCODE = dict(_opcodes.OPCODE_LIST)
VERIFY_MINIMALDATA = 1 << 6
VERIFY_DISCOURAGE_UPGRADABLE_NOPS = 1 << 7
VERIFY_MINIMALIF = 1 << 13


class TxCtx(object):
    pass


def _mk_ctx(v):
    t = TxCtx()
    for k, x in v.items():
        setattr(t, k, x)
    return t


def _mk_cs(v):
    c = ConditionalStack(conditional_error_f)
    c.true_count, c.false_count = v['true_count'], v['false_count']
    return c


def _mk_vm(v):
    vm = BitcoinVM(v['script'], v['tx_context'], None, v['flags'], initial_stack=list(v['stack']))
    vm.altstack = list(v['altstack'])
    vm.pc, vm.op_count, vm.begin_code_hash = v['pc'], v['op_count'], v['begin_code_hash']
    vm.conditional_stack = v['conditional_stack']
    return vm


ITEM = Bytes(sample_max=6, interesting=[b"", b"\x00", b"\x80", b"\x01", b"\x81", b"\x7f", b"\xff\x7f", b"\x00\x80", b"\xff\xff\xff\x7f", b"\x00\x00\x00\x80\x00", b"\x01\x00"])
CTX = Obj(TxCtx, dict(lock_time=Int(0, 2 ** 32 - 1), sequence=Int(0, 2 ** 32 - 1), version=Int(0, 2 ** 32 - 1)), make=_mk_ctx)
CS = Obj(ConditionalStack, dict(true_count=Int(0, None, interesting=[0, 1, 2]), false_count=Int(0, None, interesting=[0, 0, 1, 2]), error_f=Const(conditional_error_f)), make=_mk_cs)
VM = Obj(BitcoinVM, dict(pc=Int(0, None, interesting=[0, 1, 5]), script=Bytes(sample_max=8), tx_context=CTX, stack=ListOf(ITEM, sample_max=5), altstack=ListOf(ITEM, sample_max=2),
                         conditional_stack=CS, op_count=Int(0, 201), begin_code_hash=Int(0, None, interesting=[0]), flags=Int(0, 2 ** 17 - 1, interesting=[0, 64, 128, 8192, 0xffff]),
                         traceback_f=Const(None), signature_for_hash_type_f=Const(None)), make=_mk_vm)


def handler(name):
    return BitcoinVM.INSTRUCTION_LOOKUP[OPCODE[name]]


def param_name(f):
    node, _ = _interp.function_ast(f)
    return node.args.args[0].arg


def minimal_flag(vm):
    return (vm.flags // 64) % 2 == 1


def num_ok(vm, b):
    """operand readable as a (<= 4 byte) script number under the VM's flags"""
    return len(b) <= 4 and implies(minimal_flag(vm), is_minimal_num(b))


def boolbytes(c):
    return b"\x01" if c else b""


# facts about the (opaque) codec that handler proofs need, each proved once as a lemma in c03_lemmas below
def cast_to_bool(b):
    """Core's CastToBool: any non-zero byte, except that a sole 0x80 in the last position is negative zero"""
    return scriptnum_dec(b) != 0


_REGISTERED = []


def register(name, cls):
    f = handler(name)
    p = param_name(f)
    cls.sig = {p: VM}
    cls.props = ["C03"]
    cls.func = staticmethod(lambda f=f: f)
    target = "pycoin.coins.bitcoin.VM:INSTRUCTION_LOOKUP[%s]" % name
    # the contract functions are written with a parameter called `vm`; rename to the handler's own parameter
    contract(target)(cls)
    c = REG.contracts[target]
    c.sig = {p: VM}
    c.param_alias = {p: 'vm'}
    REG.by_func.setdefault(id(f), c)
    _REGISTERED.append(target)
    return cls


# ------------------------------------------------------------------ pure stack shuffles
def stack_op(name, need, expected):
    """result(s) -> expected stack (as a sequence) from the old stack s of length >= need"""
    class C:
        assigns = ["vm.stack"]

        def _underflow(vm):
            return len(listval(vm.stack)) < need

        def ensures_stack(vm, result):
            s = old(listval(vm.stack))
            return listval(vm.stack) == expected(s)
        raises = [(ScriptError, _underflow, True)]
    C.__name__ = "h_" + name
    return register(name, C)


stack_op("OP_DUP", 1, lambda s: s + (s[len(s) - 1],))
stack_op("OP_DROP", 1, lambda s: s[:len(s) - 1])
stack_op("OP_2DROP", 2, lambda s: s[:len(s) - 2])
stack_op("OP_2DUP", 2, lambda s: s + (s[len(s) - 2], s[len(s) - 1]))
stack_op("OP_3DUP", 3, lambda s: s + (s[len(s) - 3], s[len(s) - 2], s[len(s) - 1]))
stack_op("OP_2OVER", 4, lambda s: s + (s[len(s) - 4], s[len(s) - 3]))
stack_op("OP_2ROT", 6, lambda s: s[:len(s) - 6] + s[len(s) - 4:] + (s[len(s) - 6], s[len(s) - 5]))
stack_op("OP_2SWAP", 4, lambda s: s[:len(s) - 4] + (s[len(s) - 2], s[len(s) - 1], s[len(s) - 4], s[len(s) - 3]))
stack_op("OP_NIP", 2, lambda s: s[:len(s) - 2] + (s[len(s) - 1],))
stack_op("OP_OVER", 2, lambda s: s + (s[len(s) - 2],))
stack_op("OP_ROT", 3, lambda s: s[:len(s) - 3] + (s[len(s) - 2], s[len(s) - 1], s[len(s) - 3]))
stack_op("OP_SWAP", 2, lambda s: s[:len(s) - 2] + (s[len(s) - 1], s[len(s) - 2]))
stack_op("OP_TUCK", 2, lambda s: s[:len(s) - 2] + (s[len(s) - 1], s[len(s) - 2], s[len(s) - 1]))
stack_op("OP_IFDUP", 1, lambda s: (s + (s[len(s) - 1],)) if cast_to_bool(s[len(s) - 1]) else s)
stack_op("OP_DEPTH", 0, lambda s: s + (scriptnum_enc(len(s)),))
stack_op("OP_SIZE", 1, lambda s: s + (scriptnum_enc(len(s[len(s) - 1])),))
stack_op("OP_EQUAL", 2, lambda s: s[:len(s) - 2] + (boolbytes(s[len(s) - 2] == s[len(s) - 1]),))

# hash opcodes: the digests are uninterpreted functions of the operand (hashlib is trusted, see C19 for the pure-Python RIPEMD-160)
stack_op("OP_RIPEMD160", 1, lambda s: s[:len(s) - 1] + (ripemd160(s[len(s) - 1]),))
stack_op("OP_SHA1", 1, lambda s: s[:len(s) - 1] + (sha1(s[len(s) - 1]),))
stack_op("OP_SHA256", 1, lambda s: s[:len(s) - 1] + (sha256(s[len(s) - 1]),))
stack_op("OP_HASH160", 1, lambda s: s[:len(s) - 1] + (ripemd160(sha256(s[len(s) - 1])),))
stack_op("OP_HASH256", 1, lambda s: s[:len(s) - 1] + (sha256(sha256(s[len(s) - 1])),))

# ------------------------------------------------------------------ numeric operators (4-byte operands, MINIMALDATA)
def num_op(name, arity, fn, is_bool):
    """fn(a, b, ...) over the decoded operands (deepest first); result pushed as script number or script bool"""
    class C:
        assigns = ["vm.stack"]

        def _fails(vm):
            s = listval(vm.stack)
            n = len(s)
            if n < arity:
                return True
            if arity == 1:
                return not num_ok(vm, s[n - 1])
            if arity == 2:
                return not (num_ok(vm, s[n - 1]) and num_ok(vm, s[n - 2]))
            return not (num_ok(vm, s[n - 1]) and num_ok(vm, s[n - 2]) and num_ok(vm, s[n - 3]))

        def ensures_stack(vm, result):
            s = old(listval(vm.stack))
            n = len(s)
            if arity == 1:
                r = fn(scriptnum_dec(s[n - 1]))
            elif arity == 2:
                r = fn(scriptnum_dec(s[n - 2]), scriptnum_dec(s[n - 1]))
            else:
                r = fn(scriptnum_dec(s[n - 3]), scriptnum_dec(s[n - 2]), scriptnum_dec(s[n - 1]))
            return listval(vm.stack) == s[:n - arity] + ((boolbytes(r) if is_bool else scriptnum_enc(r)),)
        raises = [(ScriptError, _fails, True)]
    C.__name__ = "h_" + name
    return register(name, C)


num_op("OP_1ADD", 1, lambda a: a + 1, False)
num_op("OP_1SUB", 1, lambda a: a - 1, False)
num_op("OP_NEGATE", 1, lambda a: -a, False)
num_op("OP_ABS", 1, lambda a: abs(a), False)
num_op("OP_NOT", 1, lambda a: a == 0, True)
num_op("OP_0NOTEQUAL", 1, lambda a: a != 0, True)
num_op("OP_ADD", 2, lambda a, b: a + b, False)
num_op("OP_SUB", 2, lambda a, b: a - b, False)
num_op("OP_BOOLAND", 2, lambda a, b: a != 0 and b != 0, True)
num_op("OP_BOOLOR", 2, lambda a, b: a != 0 or b != 0, True)
num_op("OP_NUMEQUAL", 2, lambda a, b: a == b, True)
num_op("OP_NUMNOTEQUAL", 2, lambda a, b: a != b, True)
num_op("OP_LESSTHAN", 2, lambda a, b: a < b, True)
num_op("OP_GREATERTHAN", 2, lambda a, b: a > b, True)
num_op("OP_LESSTHANOREQUAL", 2, lambda a, b: a <= b, True)
num_op("OP_GREATERTHANOREQUAL", 2, lambda a, b: a >= b, True)
num_op("OP_MIN", 2, lambda a, b: a if a < b else b, False)
num_op("OP_MAX", 2, lambda a, b: a if a > b else b, False)
num_op("OP_WITHIN", 3, lambda x, lo, hi: lo <= x and x < hi, True)
