"""C14 (Tier B, bounded): block headers / full blocks round-trip, block id, merkle roots, bad-merkle rejection and
BIP37 merkleblock proofs (honest proofs accepted with exactly the matched ids; every single-position corruption rejected).

Oracle = the property statement + the Bitcoin wire format / BIP37 (Bitcoin Core CPartialMerkleTree semantics).
Everything on the reference side (header/tx/block serialisation, double-SHA256, merkle root, partial merkle tree
builder, merkleblock wire encoding) is computed here independently of pycoin.
"""
import hashlib
import io
import itertools
import random
import struct

from pyvc.bounded import bounded, Tally

from pycoin.block import Block, BadMerkleRootError
from pycoin.merkle import merkle, merkle_pair
from pycoin.symbols.btc import network as BTC
from pycoin.symbols.ltc import network as LTC


MAX_PER_KEY = 3


class KTally(Tally):
    """Tally keeping at most MAX_PER_KEY violations per finding key (one defect cannot crowd out another)."""

    def __init__(self, rule):
        super().__init__(rule)
        self.per_key = {}

    def violation(self, what, inputs, repro=None, finding_key=None):
        k = finding_key or what
        self.per_key[k] = self.per_key.get(k, 0) + 1
        if self.per_key[k] <= MAX_PER_KEY:
            super().violation(what, inputs, repro, finding_key)

    def result(self):
        r = super().result()
        r["violation_counts_by_key"] = dict(self.per_key)
        return r


# ----------------------------------------------------------------------------------------------------------------
# independent reference side
# ----------------------------------------------------------------------------------------------------------------

def sha256d(b):
    return hashlib.sha256(hashlib.sha256(b).digest()).digest()


def compact_size(n):
    if n < 0xfd:
        return bytes([n])
    if n <= 0xffff:
        return b"\xfd" + n.to_bytes(2, "little")
    if n <= 0xffffffff:
        return b"\xfe" + n.to_bytes(4, "little")
    return b"\xff" + n.to_bytes(8, "little")


def ref_header(version, prev, root, ts, bits, nonce):
    assert len(prev) == 32 and len(root) == 32
    return (version.to_bytes(4, "little") + prev + root + ts.to_bytes(4, "little")
            + bits.to_bytes(4, "little") + nonce.to_bytes(4, "little"))


def ref_tx(version, ins, outs, lock_time, witnesses=None):
    """ins: [(prev_hash32, index, script, sequence)], outs: [(value, script)], witnesses: None or [[bytes,..],..]"""
    out = [version.to_bytes(4, "little")]
    if witnesses is not None:
        out.append(b"\x00\x01")
    out.append(compact_size(len(ins)))
    for ph, idx, script, seq in ins:
        out += [ph, idx.to_bytes(4, "little"), compact_size(len(script)), script, seq.to_bytes(4, "little")]
    out.append(compact_size(len(outs)))
    for value, script in outs:
        out += [value.to_bytes(8, "little"), compact_size(len(script)), script]
    if witnesses is not None:
        for stack in witnesses:
            out.append(compact_size(len(stack)))
            for item in stack:
                out += [compact_size(len(item)), item]
    out.append(lock_time.to_bytes(4, "little"))
    return b"".join(out)


def tree_width(n, height):
    return (n + (1 << height) - 1) >> height


def tree_height(n):
    h = 0
    while tree_width(n, h) > 1:
        h += 1
    return h


def ref_node_hash(leaves, height, pos):
    """Bitcoin definition, written top-down (Core's CalcHash): a node at `height` above the leaves, `pos` from left."""
    if height == 0:
        return leaves[pos]
    left = ref_node_hash(leaves, height - 1, 2 * pos)
    if 2 * pos + 1 < tree_width(len(leaves), height - 1):
        right = ref_node_hash(leaves, height - 1, 2 * pos + 1)
    else:
        right = left
    return sha256d(left + right)


def ref_merkle_root(leaves):
    return ref_node_hash(leaves, tree_height(len(leaves)), 0)


def ref_partial_tree(leaves, matched):
    """BIP37 partial merkle tree (depth-first; one flag bit per visited node; hash for unmatched subtrees and for
    leaves).  Returns (hashes, flag_bits)."""
    n = len(leaves)
    hashes, bits = [], []

    def walk(height, pos):
        lo, hi = pos << height, min((pos + 1) << height, n)
        parent_of_match = any(matched[i] for i in range(lo, hi))
        bits.append(1 if parent_of_match else 0)
        if height == 0 or not parent_of_match:
            hashes.append(ref_node_hash(leaves, height, pos))
        else:
            walk(height - 1, 2 * pos)
            if 2 * pos + 1 < tree_width(n, height - 1):
                walk(height - 1, 2 * pos + 1)

    walk(tree_height(n), 0)
    return hashes, bits


def bits_to_bytes(bits):
    out = bytearray((len(bits) + 7) // 8)
    for i, b in enumerate(bits):
        if b:
            out[i // 8] |= 1 << (i % 8)
    return bytes(out)


def ref_merkleblock_msg(header80, total, hashes, flag_bytes):
    return (header80 + total.to_bytes(4, "little") + compact_size(len(hashes)) + b"".join(hashes)
            + compact_size(len(flag_bytes)) + bytes(flag_bytes))


# ----------------------------------------------------------------------------------------------------------------
# generators
# ----------------------------------------------------------------------------------------------------------------

U32_EDGES = [0, 1, 2, 0x7fffffff, 0x80000000, 0xfffffffe, 0xffffffff]
H32_EDGES = [b"\x00" * 32, b"\xff" * 32, bytes(range(32)), b"\x00" * 31 + b"\x01", b"\x80" + b"\x00" * 31]


def rand_h32(rng):
    return bytes(rng.getrandbits(8) for _ in range(32))


def rand_script(rng, maxlen=40):
    r = rng.random()
    if r < 0.1:
        ln = 0
    elif r < 0.13:
        ln = rng.choice([252, 253, 254, 300])  # cross the compact-size boundary inside a tx now and then
    else:
        ln = rng.randrange(1, maxlen)
    return bytes(rng.getrandbits(8) for _ in range(ln))


def rand_tx_parts(rng, allow_segwit=True):
    version = rng.choice([1, 2, rng.getrandbits(32)])
    n_in = rng.choice([1, 1, 1, 2, 3])
    n_out = rng.choice([1, 1, 2, 3, 0]) if n_in else 1
    ins = [(rand_h32(rng), rng.choice([0, 1, rng.getrandbits(32), 0xffffffff]), rand_script(rng),
            rng.choice([0xffffffff, 0xfffffffe, 0, rng.getrandbits(32)])) for _ in range(n_in)]
    outs = [(rng.choice([0, 1, 546, rng.randrange(0, 21 * 10 ** 14), 21 * 10 ** 14, 2 ** 64 - 1]), rand_script(rng))
            for _ in range(n_out)]
    lock = rng.choice([0, 0, 499999999, 500000000, rng.getrandbits(32)])
    wit = None
    if allow_segwit and rng.random() < 0.3:
        wit = [[bytes(rng.getrandbits(8) for _ in range(rng.randrange(0, 75))) for _ in range(rng.randrange(0, 3))]
               for _ in range(n_in)]
        if not any(len(s) for s in wit):
            wit[0] = [b"\x01\x02"]
    return version, ins, outs, lock, wit


def make_pycoin_tx(net, parts):
    version, ins, outs, lock, wit = parts
    Tx = net.tx
    txs_in = []
    for k, (ph, idx, script, seq) in enumerate(ins):
        ti = Tx.TxIn(ph, idx, script, seq)
        if wit is not None:
            ti.witness = list(wit[k])
        txs_in.append(ti)
    txs_out = [Tx.TxOut(v, s) for v, s in outs]
    return Tx(version, txs_in, txs_out, lock)


def block_sizes(tier):
    if tier == "quick":
        return list(range(1, 21)) + [31, 32, 33, 63, 64, 65, 127, 128, 129, 252, 253, 254]
    return list(range(1, 71)) + [127, 128, 129, 252, 253, 254, 255, 256, 257, 511, 512, 513, 1023, 1024, 1025]


def rand_block(rng, n, allow_segwit=True):
    """returns (header fields, header80, [tx parts], [tx bytes], [txid], block bytes)"""
    parts = [rand_tx_parts(rng, allow_segwit) for _ in range(n)]
    tx_bytes = [ref_tx(*p) for p in parts]
    txids = [sha256d(ref_tx(p[0], p[1], p[2], p[3], None)) for p in parts]
    root = ref_merkle_root(txids)
    fields = (rng.choice([1, 2, 4, 0x20000000, rng.getrandbits(32)]), rand_h32(rng), root,
              rng.getrandbits(32), rng.getrandbits(32), rng.getrandbits(32))
    h80 = ref_header(*fields)
    return fields, h80, parts, tx_bytes, txids, h80 + compact_size(n) + b"".join(tx_bytes)


def hdr_fields_of(b):
    return (b.version, bytes(b.previous_block_hash), bytes(b.merkle_root), b.timestamp, b.difficulty, b.nonce)


# ----------------------------------------------------------------------------------------------------------------
# 1. headers: wire round trip + id
# ----------------------------------------------------------------------------------------------------------------

@bounded("C14.header_roundtrip_and_id", props=["C14"],
         bound="every combination of boundary u32 in one field / boundary 32-byte hashes + seeded random headers "
               "(quick 600, thorough 30000), BTC and LTC block classes")
def c14_header_roundtrip(opts):
    rng = random.Random(opts["seed"] * 1000003 + 14)
    t = KTally(rule="one case = one 80-byte header (distinct by its bytes) x block class; checks stream==reference "
                   "LE layout, parse(reference bytes) gives the fields and consumes exactly 80 bytes, re-stream is "
                   "identical, hash()==SHA256d(header), id()==reversed hex of it")
    cases = []
    base = (1, bytes(range(32)), bytes(range(32, 64)), 1231006505, 0x1d00ffff, 2083236893)
    cases.append(base)
    for pos in (0, 3, 4, 5):
        for v in U32_EDGES:
            f = list(base)
            f[pos] = v
            cases.append(tuple(f))
    for pos in (1, 2):
        for v in H32_EDGES:
            f = list(base)
            f[pos] = v
            cases.append(tuple(f))
    for combo in itertools.product([0, 0xffffffff], H32_EDGES[:2], H32_EDGES[:2], [0, 0xffffffff], [0, 0xffffffff],
                                   [0, 0xffffffff]):
        cases.append(combo)
    nrand = 600 if opts["tier"] == "quick" else 30000
    for _ in range(nrand):
        cases.append((rng.getrandbits(32), rand_h32(rng), rand_h32(rng), rng.getrandbits(32), rng.getrandbits(32),
                      rng.getrandbits(32)))
    # the real genesis header as an anchor to public data
    genesis = bytes.fromhex(
        "0100000000000000000000000000000000000000000000000000000000000000000000003ba3edfd7a7b12b27ac72c3e67768f61"
        "7fc81bc3888a51323a9fb8aa4b1e5e4a29ab5f49ffff001d1dac2b7c")
    g = BTC.block.parse_as_header(io.BytesIO(genesis))
    t.case(key=("genesis",), sample="genesis header id")
    if g.id() != "000000000019d6689c085ae165831e934ff763ae46a2a6c172b3f1b60a8ce26f" or g.as_bin() != genesis:
        t.violation("genesis header id / round trip wrong", genesis.hex(),
                    "BTC.block.parse_as_header(io.BytesIO(genesis)).id()", "block-id-not-sha256d-of-header")

    for net_name, net in (("BTC", BTC), ("LTC", LTC)):
        B = net.block
        for f in cases:
            ref = ref_header(*f)
            key = (net_name, ref)
            t.case(key=key, sample={"net": net_name, "header": ref.hex()})
            repro = ("from pycoin.symbols.%s import network as N; import io; b=N.block.parse_as_header(io.BytesIO("
                     "bytes.fromhex(%r))); print(b.as_bin().hex(), b.id())" % (net_name.lower(), ref.hex()))
            try:
                obj = B(*f)
                streamed = obj.as_bin()
                s2 = io.BytesIO()
                obj.stream_header(s2)
                if streamed != ref or s2.getvalue() != ref:
                    t.violation("header stream != 80-byte LE wire layout", f, repro, "header-stream-layout")
                stream = io.BytesIO(ref + b"\xaa\xbb")
                parsed = B.parse_as_header(stream)
                if stream.tell() != 80:
                    t.violation("parse_as_header did not consume exactly 80 bytes", f, repro, "header-parse-length")
                if hdr_fields_of(parsed) != f:
                    t.violation("parse_as_header fields differ from the wire bytes", f, repro, "header-parse-fields")
                if parsed.as_bin() != ref:
                    t.violation("header parse->stream not identity", f, repro, "header-roundtrip")
                p2 = B.parse(io.BytesIO(ref), include_transactions=False)
                if hdr_fields_of(p2) != f or p2.as_bin() != ref:
                    t.violation("Block.parse(include_transactions=False) header differs", f, repro, "header-roundtrip")
                want = sha256d(ref)
                for o in (obj, parsed):
                    if o.hash() != want or o.id() != want[::-1].hex():
                        t.violation("block id != reversed-hex SHA256d(80-byte header)", f, repro,
                                    "block-id-not-sha256d-of-header")
                if bytes(parsed.previous_block_hash)[::-1].hex() != parsed.previous_block_id():
                    t.violation("previous_block_id != reversed hex of previous hash", f, repro, "prev-block-id")
            except Exception as e:  # noqa
                t.violation("header round trip raised %s: %s" % (type(e).__name__, e), f, repro,
                            "header-roundtrip-exception-" + type(e).__name__)
    t.exhaustive = False
    return t.result()


# ----------------------------------------------------------------------------------------------------------------
# 2. full blocks
# ----------------------------------------------------------------------------------------------------------------

@bounded("C14.block_roundtrip", props=["C14"],
         bound="blocks of n txs for n in 1..20 + {31,32,33,63,64,65,127,128,129,252,253,254} (thorough 1..70 + "
               "around 128,253,256,512,1024) x seeded tx contents (legacy+segwit), BTC and LTC (non-MWEB)")
def c14_block_roundtrip(opts):
    rng = random.Random(opts["seed"] * 1000003 + 1402)
    t = KTally(rule="one case = (network, n, seeded block bytes); the block bytes are produced by the independent "
                   "serialiser with an independently computed merkle root; checks from_bin accepts, as_bin identical, "
                   "tx count and each tx re-serialises to its own bytes, tx.hash()==reference txid, id==SHA256d("
                   "header) reversed, and a Block built from constructor+set_txs streams the same bytes")
    reps = 2 if opts["tier"] == "quick" else 4
    for net_name, net in (("BTC", BTC), ("LTC", LTC)):
        B = net.block
        for n in block_sizes(opts["tier"]):
            for rep in range(reps if n <= 300 else 1):
                fields, h80, parts, tx_bytes, txids, blob = rand_block(rng, n)
                t.case(key=(net_name, n, sha256d(blob)), sample={"net": net_name, "n": n, "bytes": len(blob)})
                repro = ("from pycoin.symbols.%s import network as N; b=N.block.from_bin(bytes.fromhex('%s')); "
                         "print(b.as_bin().hex())" % (net_name.lower(), blob.hex() if len(blob) < 2000 else
                                                      "<block of %d txs, seed %d>" % (n, opts["seed"])))
                try:
                    blk = B.from_bin(blob)
                    if blk.as_bin() != blob:
                        t.violation("block parse->stream not identity", (net_name, n), repro, "block-roundtrip")
                    if len(blk.txs) != n:
                        t.violation("parsed tx count differs", (net_name, n), repro, "block-tx-count")
                    for i, tx in enumerate(blk.txs):
                        if tx.as_bin() != tx_bytes[i]:
                            t.violation("tx %d of block re-serialises differently" % i, (net_name, n), repro,
                                        "block-tx-roundtrip")
                            break
                        if tx.hash() != txids[i]:
                            t.violation("tx %d hash != SHA256d(no-witness serialisation)" % i, (net_name, n), repro,
                                        "tx-hash")
                            break
                    if hdr_fields_of(blk) != fields:
                        t.violation("parsed block header fields differ", (net_name, n), repro, "header-parse-fields")
                    want = sha256d(h80)
                    if blk.hash() != want or blk.id() != want[::-1].hex():
                        t.violation("block id != reversed-hex SHA256d(80-byte header)", (net_name, n), repro,
                                    "block-id-not-sha256d-of-header")
                    if blk.as_blockheader().as_bin() != h80:
                        t.violation("as_blockheader streams != first 80 bytes", (net_name, n), repro,
                                    "header-stream-layout")
                    # constructor direction
                    b2 = B(*fields)
                    b2.set_txs([make_pycoin_tx(net, p) for p in parts])
                    if b2.as_bin() != blob:
                        t.violation("constructed block streams != reference wire bytes", (net_name, n), repro,
                                    "block-stream-layout")
                    # trailing data must be left unread
                    f = io.BytesIO(blob + b"\x99" * 3)
                    B.parse(f)
                    if f.tell() != len(blob):
                        t.violation("Block.parse consumed wrong number of bytes", (net_name, n), repro,
                                    "block-parse-length")
                except Exception as e:  # noqa
                    t.violation("honest block rejected/raised %s: %s" % (type(e).__name__, str(e)[:80]),
                                (net_name, n), repro, "block-roundtrip-exception-" + type(e).__name__)
    t.exhaustive = False
    return t.result()


# ----------------------------------------------------------------------------------------------------------------
# 3. merkle root == Bitcoin definition
# ----------------------------------------------------------------------------------------------------------------

@bounded("C14.merkle_root_definition", props=["C14"],
         bound="every list length 1..40 (thorough 1..300) x several seeded contents incl. repeated elements, plus "
               "random lengths up to 3000 (thorough 20000) and lengths 2^k-1,2^k,2^k+1 up to 2^12 (2^15)")
def c14_merkle_root(opts):
    rng = random.Random(opts["seed"] * 1000003 + 1403)
    quick = opts["tier"] == "quick"
    t = KTally(rule="one case = one list of 32-byte hashes (distinct by length+content); pycoin.merkle.merkle(list) "
                   "must equal an independent top-down recursive evaluation of the Bitcoin merkle definition; the "
                   "input list must not be modified; merkle_pair == next level of the definition")
    lengths = []
    for n in range(1, (40 if quick else 300) + 1):
        lengths += [n] * (6 if quick else 8)
    for k in range(6, 13 if quick else 16):
        lengths += [2 ** k - 1, 2 ** k, 2 ** k + 1]
    for _ in range(40 if quick else 200):
        lengths.append(rng.randrange(41, 3000 if quick else 20000))
    for j, n in enumerate(lengths):
        mode = j % 3
        if mode == 0 or n > 400:
            # cheap distinct leaves
            leaves = [hashlib.sha256(b"%d/%d/%d" % (opts["seed"], j, i)).digest() for i in range(n)]
        elif mode == 1:
            leaves = [rand_h32(rng) for _ in range(n)]
        else:
            pool = [rand_h32(rng) for _ in range(rng.randrange(1, 4))]
            leaves = [rng.choice(pool) for _ in range(n)]  # repeated elements, incl. equal siblings
        key = (n, sha256d(b"".join(leaves)))
        t.case(key=key, nontrivial=True, sample={"n": n, "mode": mode})
        repro = ("from pycoin.merkle import merkle; import hashlib; L=[...%d leaves, seed %d case %d...]; merkle(L)"
                 % (n, opts["seed"], j)) if n > 6 else (
            "from pycoin.merkle import merkle; print(merkle([bytes.fromhex(h) for h in %r]).hex())"
            % [x.hex() for x in leaves])
        try:
            snapshot = list(leaves)
            got = merkle(leaves)
            got2 = merkle(leaves, sha256d)
            want = ref_merkle_root(leaves)
            if got != want or got2 != want:
                t.violation("merkle(hashes) != Bitcoin merkle definition", {"n": n}, repro, "merkle-root-definition")
            if leaves != snapshot:
                t.violation("merkle() modified its input list", {"n": n}, repro, "merkle-mutates-input")
            if n > 1:
                row = merkle_pair(leaves, sha256d)
                want_row = [ref_node_hash(leaves, 1, p) for p in range(tree_width(n, 1))]
                if list(row) != want_row:
                    t.violation("merkle_pair != next tree level", {"n": n}, repro, "merkle-pair-level")
            # tuple input must work as well as a list
            if merkle(tuple(leaves)) != want:
                t.violation("merkle(tuple) != definition", {"n": n}, repro, "merkle-root-definition")
        except Exception as e:  # noqa
            t.violation("merkle raised %s: %s" % (type(e).__name__, e), {"n": n}, repro,
                        "merkle-exception-" + type(e).__name__)
    # public anchors (block 71043 and 71038 roots, from the chain)
    r = lambda h: bytes.fromhex(h)[::-1]  # noqa
    anchors = [
        (["67ffe41e53534805fb6883b4708fd3744358f99e99bc52111e7a17248effebee",
          "c8b336acfc22d66edf6634ce095b888fe6d16810d9c85aff4d6641982c2499d1"],
         "30325a06daadcefb0a3d1fe0b6112bb6dfef794316751afc63f567aef94bd5c8"),
        (["f484b014c55a43b409a59de3177d49a88149b4473f9a7b81ea9e3535d4b7a301",
          "7b5636e9bc6ec910157e88702699bc7892675e8b489632c9166764341a4d4cfe",
          "f8b02b8bf25cb6008e38eb5453a22c502f37e76375a86a0f0cfaa3c301aa1209"],
         "4f4c8c201e85a64a410cc7272c77f443d8b8df3289c67af9dab1e87d9e61985e")]
    for ids, root in anchors:
        t.case(key=("anchor", root), sample={"anchor": root})
        if ref_merkle_root([r(i) for i in ids]) != r(root):
            raise AssertionError("harness reference merkle is wrong")  # harness self-check, never pycoin's fault
        if merkle([r(i) for i in ids]) != r(root):
            t.violation("merkle() differs on a real block", ids, None, "merkle-root-definition")
    t.exhaustive = False
    return t.result()


# ----------------------------------------------------------------------------------------------------------------
# 4. a parsed block whose txs do not hash to the header's merkle root is rejected
# ----------------------------------------------------------------------------------------------------------------

def _mutated_blocks(rng, fields, parts, tx_bytes, txids, all_positions):
    """yield (label, header80, tx_bytes_list, txid_list) single-mutation variants of an honest block"""
    n = len(parts)
    h80 = ref_header(*fields)
    # header root bit flips
    bitpos = list(range(256)) if all_positions and n <= 4 else sorted(rng.sample(range(256), 6) + [0, 255])
    for bp in bitpos:
        root = bytearray(fields[2])
        root[bp // 8] ^= 1 << (bp % 8)
        f2 = list(fields)
        f2[2] = bytes(root)
        yield ("root-bit-%d" % bp, ref_header(*f2), tx_bytes, txids)
    positions = list(range(n)) if (all_positions or n <= 20) else sorted(set(rng.sample(range(n), 8) + [0, n - 1]))
    for i in positions:
        v, ins, outs, lock, wit = parts[i]
        # alter tx i (lock_time changes the txid)
        p2 = (v, ins, outs, (lock + 1) & 0xffffffff, wit)
        tb = list(tx_bytes)
        ti = list(txids)
        tb[i] = ref_tx(*p2)
        ti[i] = sha256d(ref_tx(p2[0], p2[1], p2[2], p2[3], None))
        yield ("alter-tx-%d" % i, h80, tb, ti)
        if n > 1:
            yield ("drop-tx-%d" % i, h80, tx_bytes[:i] + tx_bytes[i + 1:], txids[:i] + txids[i + 1:])
        if i + 1 < n:
            tb = list(tx_bytes)
            ti = list(txids)
            tb[i], tb[i + 1] = tb[i + 1], tb[i]
            ti[i], ti[i + 1] = ti[i + 1], ti[i]
            yield ("swap-tx-%d" % i, h80, tb, ti)
        yield ("dup-tx-%d" % i, h80, tx_bytes[:i + 1] + tx_bytes[i:], txids[:i + 1] + txids[i:])
    extra = rand_tx_parts(rng)
    yield ("append-foreign-tx", h80, tx_bytes + [ref_tx(*extra)],
           txids + [sha256d(ref_tx(extra[0], extra[1], extra[2], extra[3], None))])


@bounded("C14.bad_merkle_root_rejected", props=["C14"],
         bound="honest blocks of n txs, n in 1..12 + {15,16,17,31,32,33} (thorough 1..40 + {63,64,65,127,128,129}) x "
               "single mutations: header-root bit flips, alter/drop/swap/duplicate tx at every position, foreign tx")
def c14_bad_merkle(opts):
    rng = random.Random(opts["seed"] * 1000003 + 1404)
    quick = opts["tier"] == "quick"
    t = KTally(rule="one case = (n, mutation label, resulting block bytes); non-trivial iff the reference merkle root "
                   "of the mutated tx list differs from the header's root (then Block.parse must raise "
                   "BadMerkleRootError, and check_merkle_hash()/set_txs must raise too); if the roots still agree "
                   "(e.g. CVE-2012-2459 duplicate of the last tx) the case is counted trivial and only acceptance "
                   "consistency is not asserted")
    sizes = (list(range(1, 13)) + [15, 16, 17, 31, 32, 33]) if quick else (
        list(range(1, 41)) + [63, 64, 65, 127, 128, 129])
    for net_name, net in (("BTC", BTC),) if quick else (("BTC", BTC), ("LTC", LTC)):
        B = net.block
        for n in sizes:
            fields, h80, parts, tx_bytes, txids, blob = rand_block(rng, n)
            for label, hdr, tbs, tids in _mutated_blocks(rng, fields, parts, tx_bytes, txids, all_positions=n <= 17):
                mblob = hdr + compact_size(len(tbs)) + b"".join(tbs)
                must_reject = ref_merkle_root(tids) != hdr[36:68]
                t.case(key=(net_name, n, label, sha256d(mblob)), nontrivial=must_reject,
                       sample={"n": n, "mutation": label, "must_reject": must_reject})
                if not must_reject:
                    continue
                repro = ("from pycoin.symbols.%s import network as N; N.block.from_bin(bytes.fromhex('%s'))  # must "
                         "raise BadMerkleRootError" % (net_name.lower(), mblob.hex() if len(mblob) < 1500 else
                                                       "<n=%d %s seed %d>" % (n, label, opts["seed"])))
                try:
                    B.from_bin(mblob)
                    t.violation("block with wrong merkle root accepted by Block.parse", (net_name, n, label), repro,
                                "bad-merkle-root-accepted")
                except BadMerkleRootError:
                    pass
                except Exception as e:  # noqa
                    t.violation("wrong-merkle block raised %s instead of BadMerkleRootError" % type(e).__name__,
                                (net_name, n, label), repro, "bad-merkle-wrong-exception")
                # the same through the object API
                try:
                    blk = B.parse(io.BytesIO(mblob), check_merkle_hash=False)
                    ok = False
                    try:
                        blk.check_merkle_hash()
                    except BadMerkleRootError:
                        ok = True
                    ok2 = False
                    try:
                        b3 = B.parse_as_header(io.BytesIO(hdr))
                        b3.set_txs(list(blk.txs))
                    except BadMerkleRootError:
                        ok2 = True
                    if not (ok and ok2):
                        t.violation("check_merkle_hash()/set_txs accepted a wrong merkle root", (net_name, n, label),
                                    repro, "bad-merkle-root-accepted")
                except Exception as e:  # noqa
                    t.violation("check_merkle_hash path raised %s" % type(e).__name__, (net_name, n, label), repro,
                                "bad-merkle-wrong-exception")
    t.exhaustive = False
    return t.result()


# ----------------------------------------------------------------------------------------------------------------
# 5/6. BIP37 merkleblock
# ----------------------------------------------------------------------------------------------------------------

def _leaves_for(seed, n):
    return [hashlib.sha256(b"c14-leaf/%d/%d/%d" % (seed, n, i)).digest() for i in range(n)]


def _header_for(rng, root):
    return ref_header(rng.choice([1, 2, 0x20000000]), rand_h32(rng), root, rng.getrandbits(32), rng.getrandbits(32),
                      rng.getrandbits(32))


def _parse_mb(net, data):
    return net.message.parse("merkleblock", data)


def _check_honest(t, net, rng, n, leaves, matched, seed_note):
    """returns (header80, hashes, flag_bytes, nbits) after checking acceptance"""
    root = ref_merkle_root(leaves)
    h80 = _header_for(rng, root)
    hashes, bits = ref_partial_tree(leaves, matched)
    fb = bits_to_bytes(bits)
    msg = ref_merkleblock_msg(h80, n, hashes, fb)
    want = [leaves[i] for i in range(n) if matched[i]]
    mask = "".join("1" if m else "0" for m in matched)
    repro = ("from pycoin.symbols.btc import network as N; d=N.message.parse('merkleblock', bytes.fromhex('%s')); "
             "print([h.hex() for h in d['tx_hashes']])  # n=%d matched=%s" % (msg.hex(), n, mask))
    try:
        d = _parse_mb(net, msg)
        got = [bytes(h) for h in d["tx_hashes"]]
        if got != want:
            t.violation("honest merkleblock accepted but matched tx ids differ (or out of order)",
                        {"n": n, "matched": mask}, repro, "merkleblock-wrong-matches")
        if [bytes(h)[::-1].hex() for h in d["tx_hashes"]] != [w[::-1].hex() for w in want]:
            t.violation("tx ids differ", {"n": n, "matched": mask}, repro, "merkleblock-wrong-matches")
        if d["total_transactions"] != n or [bytes(h) for h in d["hashes"]] != hashes or \
                bytes(d["flags"]) != fb or d["header"].as_bin() != h80:
            t.violation("merkleblock fields parsed differently from the wire bytes", {"n": n, "matched": mask},
                        repro, "merkleblock-field-parse")
        packed = net.message.pack("merkleblock", header=d["header"], total_transactions=n, hashes=hashes,
                                  flags=list(fb))
        if packed != msg:
            t.violation("pack('merkleblock') != BIP37 wire encoding", {"n": n, "matched": mask}, repro,
                        "merkleblock-pack-layout")
    except Exception as e:  # noqa
        t.violation("honest merkleblock proof rejected: %s: %s" % (type(e).__name__, str(e)[:60]),
                    {"n": n, "matched": mask}, repro, "merkleblock-honest-rejected")
    return h80, hashes, fb, len(bits)


def _corruptions(rng, h80, n, hashes, fb, nbits):
    """yield (label, message bytes) for every single-position corruption class named in the property"""
    k = len(hashes)
    for i in range(k):
        for bit in (0, 255):
            h = bytearray(hashes[i])
            h[bit // 8] ^= 1 << (bit % 8)
            yield ("alter-hash-%d-bit%d" % (i, bit), ref_merkleblock_msg(h80, n, hashes[:i] + [bytes(h)] + hashes[i + 1:], fb))
        yield ("replace-hash-%d" % i, ref_merkleblock_msg(h80, n, hashes[:i] + [rand_h32(rng)] + hashes[i + 1:], fb))
        if i + 1 < k and hashes[i] != hashes[i + 1]:
            hs = list(hashes)
            hs[i], hs[i + 1] = hs[i + 1], hs[i]
            yield ("swap-hash-%d" % i, ref_merkleblock_msg(h80, n, hs, fb))
    for i in range(k + 1):
        yield ("add-random-hash-at-%d" % i, ref_merkleblock_msg(h80, n, hashes[:i] + [rand_h32(rng)] + hashes[i:], fb))
        dup = hashes[min(i, k - 1)]
        yield ("add-dup-hash-at-%d" % i, ref_merkleblock_msg(h80, n, hashes[:i] + [dup] + hashes[i:], fb))
    for i in range(k):
        yield ("remove-hash-%d" % i, ref_merkleblock_msg(h80, n, hashes[:i] + hashes[i + 1:], fb))
    # padding bits of the last flag byte
    for bit in range(nbits, len(fb) * 8):
        f2 = bytearray(fb)
        f2[bit // 8] |= 1 << (bit % 8)
        yield ("set-padding-bit-%d" % bit, ref_merkleblock_msg(h80, n, hashes, bytes(f2)))
    for extra in (b"\x00", b"\x01", b"\x80", b"\xff", b"\x00\x00"):
        yield ("extra-flag-bytes-%s" % extra.hex(), ref_merkleblock_msg(h80, n, hashes, fb + extra))
    yield ("drop-last-flag-byte", ref_merkleblock_msg(h80, n, hashes, fb[:-1]))
    for bit in (0, 7, 128, 255):
        hd = bytearray(h80)
        hd[36 + bit // 8] ^= 1 << (bit % 8)
        yield ("header-root-bit-%d" % bit, ref_merkleblock_msg(bytes(hd), n, hashes, fb))


def _run_merkleblock(t, net, rng, seed, n, matched, corrupt, reject_types):
    leaves = _leaves_for(seed, n)
    mask = "".join("1" if m else "0" for m in matched)
    t.case(key=("honest", n, mask), sample={"n": n, "matched": mask})
    h80, hashes, fb, nbits = _check_honest(t, net, rng, n, leaves, matched, seed)
    if not corrupt:
        return
    for label, msg in _corruptions(rng, h80, n, hashes, fb, nbits):
        t.case(key=("corrupt", n, mask, label), sample=None)
        repro = ("from pycoin.symbols.btc import network as N; print(N.message.parse('merkleblock', bytes.fromhex("
                 "'%s'))['tx_hashes'])  # must raise; n=%d matched=%s corruption=%s" % (msg.hex(), n, mask, label))
        try:
            d = _parse_mb(net, msg)
        except Exception as e:  # noqa  any exception is a rejection
            reject_types[type(e).__name__] = reject_types.get(type(e).__name__, 0) + 1
            continue
        cls = label.split("-")[0] + "-" + label.split("-")[1]
        t.violation("corrupted merkleblock proof accepted (%s), returned %d matches" % (label, len(d["tx_hashes"])),
                    {"n": n, "matched": mask, "corruption": label}, repro, "merkleblock-corruption-accepted-" + cls)


@bounded("C14.merkleblock_all_small_trees", props=["C14"],
         bound="all trees with n<=8 txs (thorough n<=12) x ALL 2^n subsets of matched txs x every single-position "
               "corruption (alter/replace/swap each hash, add a hash at each position, remove each hash, each padding "
               "bit, extra/missing flag bytes, header root bit flips)")
def c14_merkleblock_small(opts):
    rng = random.Random(opts["seed"] * 1000003 + 1405)
    nmax = 8 if opts["tier"] == "quick" else 12
    t = KTally(rule="honest case = (n, match mask): proof built by the independent BIP37 builder, wire-encoded "
                   "independently, parsed by network.message.parse('merkleblock'): must be accepted with tx_hashes == "
                   "matched leaves in order; pack() of the same fields must equal the wire bytes.  corrupt case = (n, "
                   "mask, corruption label): parse must raise (any exception counts as rejection)")
    reject_types = {}
    for n in range(1, nmax + 1):
        for mask in itertools.product([False, True], repeat=n):
            _run_merkleblock(t, BTC, rng, opts["seed"], n, list(mask), True, reject_types)
    t.exhaustive = True
    res = t.result()
    res["rejection_exception_types"] = reject_types
    return res


@bounded("C14.merkleblock_sampled_large_trees", props=["C14"],
         bound="trees n in 10..40 + {63,64,65,127,128,129,255,256,257} (thorough also 500..1100 sampled) x seeded "
               "subsets (empty, full, single first/last, sparse, dense) x every single-position corruption")
def c14_merkleblock_large(opts):
    rng = random.Random(opts["seed"] * 1000003 + 1406)
    quick = opts["tier"] == "quick"
    t = KTally(rule="as C14.merkleblock_all_small_trees but subsets are sampled: for each n the empty set, the full "
                   "set, {0}, {n-1}, and seeded sparse/dense masks; distinct by (n, mask[, corruption])")
    reject_types = {}
    ns = list(range(10, 41 if not quick else 24)) + [31, 32, 33, 63, 64, 65, 127, 128, 129]
    if not quick:
        ns += [255, 256, 257, 511, 513, 1000, 1025]
    for n in ns:
        masks = [[False] * n, [True] * n, [i == 0 for i in range(n)], [i == n - 1 for i in range(n)]]
        for p in ((0.05, 0.3, 0.7) if quick else (0.02, 0.1, 0.3, 0.5, 0.8, 0.95)):
            masks.append([rng.random() < p for _ in range(n)])
        for m in masks:
            _run_merkleblock(t, BTC, rng, opts["seed"], n, m, n <= 129 or not quick and n <= 257, reject_types)
    t.exhaustive = False
    res = t.result()
    res["rejection_exception_types"] = reject_types
    return res


# ----------------------------------------------------------------------------------------------------------------
# the id must follow the header's current fields (no stale state across calls)
# ----------------------------------------------------------------------------------------------------------------
@bounded("C14.id_tracks_current_header", props=["C14"],
         bound="seeded histories on one header object: ask hash()/id(), then change version / previous hash / merkle root / "
               "time / bits / nonce by assignment or set_nonce, and ask again; quick 400 / thorough 4000 histories of 2..5 steps")
def c14_id_history(opts):
    rng = random.Random(opts["seed"] * 1000003 + 1499)
    t = KTally(rule="one case = one history; after every step hash() == SHA256d of the reference 80-byte layout of the current "
                    "fields and id() its reversed hex")
    for h in range(400 if opts["tier"] == "quick" else 4000):
        cls = rng.choice([BTC.block, LTC.block])
        f = [rng.getrandbits(32), rand_h32(rng), rand_h32(rng), rng.getrandbits(32), rng.getrandbits(32), rng.getrandbits(32)]
        b = cls(*f)
        steps = []
        ok = True
        for step in range(rng.randrange(2, 6)):
            want = sha256d(ref_header(b.version, b.previous_block_hash, b.merkle_root, b.timestamp, b.difficulty, b.nonce))
            try:
                got = (bytes(b.hash()), b.id())
            except Exception as ex:
                got = repr(ex)
            if got != (want, want[::-1].hex()):
                t.violation("hash()/id() of a header do not follow its current fields",
                            {"history": steps, "got": str(got)[:200], "want": want[::-1].hex()}, finding_key="header-id-stale-or-wrong")
                ok = False
                break
            op = rng.choice(["nonce", "set_nonce", "timestamp", "merkle_root", "version", "difficulty", "previous_block_hash"])
            if op == "set_nonce":
                b.set_nonce(rng.getrandbits(32))
            elif op in ("merkle_root", "previous_block_hash"):
                setattr(b, op, rand_h32(rng))
            else:
                setattr(b, op, rng.getrandbits(32))
            steps.append(op)
        t.case(("hist", h), nontrivial=ok and len(steps) >= 2, sample={"steps": steps})
    return t.result()
