"""C01: ECDSA verify / recovery of the real Generator class over the abstract prime-order group."""
from pyvc.api import *
from spec.core import *
from spec.group import *
import contracts.c02_group_assumed  # noqa: F401
from spec.numth import *
from contracts.c02_curve import inv_mod_def
from contracts.c02_mul import smul_mod_order_pt

GEN = AbsGenerator()
T = "pycoin.ecdsa.Generator:Generator."


@lemma(sig=dict(a=Int(), n=Int(2)), props=["C01"])
def inv_mod_law(a, n):
    """modulo a prime n every a with a mod n != 0 has an inverse, and inv_mod(a mod n, n) denotes it"""
    prime_coprime(n, a)
    inv_mod_def(a, n)
    w = inv_mod(a % n, n)
    return implies(is_prime(n) and a % n != 0, (a * w) % n == 1 and 0 < w and w < n)


@axiom(sig={}, reason="point addition commutes (Mathlib: add_comm; lean: padd_comm_law)", lean="lean/GroupLaws.lean")
def padd_comm(P, Q):
    return padd(P, Q) == padd(Q, P)


def ecdsa_R(self, Qx, Qy, z, r, s):
    """the point (z/s) G + (r/s) Q of textbook ECDSA verification"""
    w = inv_mod(s % self._order, self._order)
    return padd(smul(z * w, GPT()), smul(r * w, mkpt(Qx, Qy)))


def ecdsa_verify_spec(self, Qx, Qy, z, r, s):
    n = self._order
    if z == 0 or r < 1 or r >= n or s < 1 or s >= n:
        return False
    R = ecdsa_R(self, Qx, Qy, z, r, s)
    return R != INF() and xc(R) % n == r


@contract(T + "verify")
class verify:
    props = ["C01"]
    sig = dict(self=GEN, public_pair=Tup(Int(), Int()), val=Int(), sig=Tup(Int(), Int()))
    returns = Bool()

    def requires(self, public_pair, val, sig):
        return oncurve(public_pair[0], public_pair[1])

    def ensures_textbook(self, public_pair, val, sig, result):
        # ghost: code that reduces the two multipliers modulo the group order first, or adds the two points in the other
        # order, computes the same point
        n = self._order
        w = inv_mod(sig[1] % n, n)
        Q = mkpt(public_pair[0], public_pair[1])
        smul_mod_order_pt(val * w, n, GPT())
        smul_mod_order_pt(sig[0] * w, n, Q)
        padd_comm(smul(val * w, GPT()), smul(sig[0] * w, Q))
        padd_comm(smul((val * w) % n, GPT()), smul((sig[0] * w) % n, Q))
        return result == ecdsa_verify_spec(self, public_pair[0], public_pair[1], val, sig[0], sig[1])

    canaries = [("s >= order", "s > order"), ("v = point[0] % order", "v = point[0]"), ("if val == 0:\n        return False", "if False:\n        return False")]


# ---------------------------------------------------------------- RFC 6979 nonce (HMAC-SHA256 uninterpreted)
from pycoin.ecdsa.secp256k1 import secp256k1_generator
from pycoin.ecdsa.secp256r1 import secp256r1_generator
import hashlib

N_K1 = secp256k1_generator.order()
N_R1 = secp256r1_generator.order()


def rfc6979_candidate(n, d, z):
    """first candidate nonce of RFC 6979 section 3.2 for qlen = hlen = 256 (steps b-h), HMAC-SHA256 as an uninterpreted function"""
    x = be(d, 32)
    h1 = be(z if z < n else z - n, 32)                 # bits2octets: z mod q for z < 2^256 < 2q
    V0 = b"\x01" * 32
    K0 = b"\x00" * 32
    K1 = hmac256(K0, V0 + b"\x00" + x + h1)
    V1 = hmac256(K1, V0)
    K2 = hmac256(K1, V1 + b"\x01" + x + h1)
    V2 = hmac256(K2, V1)
    V3 = hmac256(K2, V2)
    return be_int_k(V3, 32)


@contract("pycoin.ecdsa.rfc6979:deterministic_generate_k")
class rfc6979_k:
    slow_canaries = True
    props = ["C01"]
    sig = dict(generator_order=Int(3), secret_exponent=Int(1), val=Int(0, 2 ** 256 - 1), hash_f=Const(hashlib.sha256))
    returns = Int(1)
    # hybrid enumeration over the shipped 256-bit curves (bit_length of the order must be concrete)
    cases = [("secp256k1", lambda generator_order, secret_exponent, val, hash_f: generator_order == N_K1),
             ("secp256r1", lambda generator_order, secret_exponent, val, hash_f: generator_order == N_R1)]

    def requires(generator_order, secret_exponent, val, hash_f):
        k = rfc6979_candidate(generator_order, secret_exponent, val)
        return (secret_exponent < generator_order and (generator_order == N_K1 or generator_order == N_R1)
                and 1 <= k and k < generator_order)    # first candidate usable (fails with probability < 2^-127 on these curves)

    def ensures_rfc6979(generator_order, secret_exponent, val, hash_f, result):
        return (result == rfc6979_candidate(generator_order, secret_exponent, val), 1 <= result, result < generator_order)

    canaries = [("priv + h1", "priv + priv"), ("if val >= n:", "if val > n:")]


# ---------------------------------------------------------------- signing
@axiom(sig={}, reason="ECDSA algebra in a group of prime order n: s = k^-1 (z + r d) implies (z/s) G + (r/s) (d G) = k G", lean="lean/EcdsaAlgebra.lean")
def sign_verifies_law(n, k, ki, d, z, r, s, w):
    return implies((k * ki) % n == 1 % n and s == (ki * (z + (d * r) % n)) % n and (s * w) % n == 1 % n,
                   padd(smul(z * w, GPT()), smul(r * w, smul(d, GPT()))) == smul(k, GPT()))


def _sign_values(self, d, z):
    n = self._order
    k = rfc6979_candidate(n, d, z)
    R = smul(k, GPT())
    r = xc(R) % n
    s = (inv_mod(k % n, n) * (z + (d * r) % n)) % n
    return k, R, r, s


@contract(T + "sign_with_recid")
class sign_with_recid:
    slow_canaries = True
    props = ["C01"]
    sig = dict(self=GEN, secret_exponent=Int(1), val=Int(1, 2 ** 256 - 1), gen_k=Const(None))
    returns = Tup(Int(), Int(), Int())

    def requires(self, secret_exponent, val, gen_k):
        n = self._order
        k, R, r, s = _sign_values(self, secret_exponent, val)
        return ((n == N_K1 or n == N_R1) and secret_exponent < n and 1 <= k and k < n
                and R != INF() and r != 0 and s != 0)          # "whenever the first RFC 6979 nonce gives non-zero r and s"

    def ensures_rfc6979_signature(self, secret_exponent, val, gen_k, result):
        n = self._order
        k, R, r, s = _sign_values(self, secret_exponent, val)
        return (result[0] == r, result[1] == s, 1 <= result[0], result[0] < n, 1 <= result[1], result[1] < n,
                result[2] % 2 == yc(R) % 2, (result[2] >= 2) == (xc(R) > n), 0 <= result[2], result[2] <= 3)

    def ensures_verifies_under_dG(self, secret_exponent, val, gen_k, result):
        n = self._order
        k, R, r, s = _sign_values(self, secret_exponent, val)
        ki = inv_mod(k % n, n)
        w = inv_mod(s % n, n)
        inv_mod_law(k, n)
        inv_mod_law(s, n)
        sign_verifies_law(n, k, ki, secret_exponent, val, r, s, w)
        Rv = padd(smul(val * w, GPT()), smul(result[0] * w, smul(secret_exponent, GPT())))
        return (Rv == R, R != INF(), xc(R) % n == result[0])

    canaries = [("s = self.inverse(k) * (val + secret_exponent * r % n) % n", "s = self.inverse(k) * (val + secret_exponent * r) % (n - 1)"), ("recid = p1[1] & 1", "recid = p1[0] & 1")]


# ---------------------------------------------------------------- public key recovery
@axiom(sig={}, reason="ECDSA recovery algebra in a group of prime order n: Q = (s/r) P - (z/r) G satisfies (z/s) G + (r/s) Q = P", lean="lean/EcdsaAlgebra.lean")
def recover_verifies_law(n, P, z, r, s, w, ri):
    return implies((s * w) % n == 1 % n and (r * ri) % n == 1 % n,
                   padd(smul(z * w, GPT()), smul(r * w, padd(smul(s * ri, P), smul(-(ri * z), GPT())))) == P)


def _verifies_pt(self, Q, z, r, s):
    """the verification predicate with the public key given as a point"""
    n = self._order
    w = inv_mod(s % n, n)
    R = padd(smul(z * w, GPT()), smul(r * w, Q))
    return z != 0 and 1 <= r and r < n and 1 <= s and s < n and R != INF() and xc(R) % n == r


@contract(T + "possible_public_pairs_for_signature")
class recover:
    props = ["C01", "C17"]
    sig = dict(self=GEN, value=Int(1), signature=Tup(Int(), Int()), y_parity=Opt(Int(0, 3)))
    returns = SmallList(APoint(), 2)

    def ensures_only_verifying_keys(self, value, signature, y_parity, result):
        n = self._order
        r, s = signature[0], signature[1]
        qs = listval(result)
        inv_mod_law(s, n)
        ok = True
        for Q in qs:
            ok = ok and _verifies_pt(self, Q, value, r, s)
        return (len(qs) <= 2, ok)

    def at_return(self, value, r, s, inv_r, points_list):
        # ghost: the recovery algebra law (Lean) instantiated at each candidate nonce point
        n = self._order
        w = inv_mod(s % n, n)
        inv_mod_law(s, n)
        for P in listval(points_list):
            recover_verifies_law(n, P, value, r, s, w, inv_r)
        return True
