"""C08: Base58Check addresses -- AddressAPI.for_p2pkh / for_p2sh: the address text is Base58Check(prefix || hash), or None when
the network has no such prefix; through the contract of b2a_hashed_base58 (C11), whose round trip gives back prefix || hash.
Scripts <-> script kinds go through the script-text compiler (outside the engine): bounded harness only."""
from pyvc.api import *
from spec.core import *
from spec.basex import *
from spec.sighash import dsha256
from contracts.c11_base58 import b58_text
from pycoin.networks.AddressAPI import AddressAPI
from pycoin.encoding.b58 import b2a_hashed_base58


def _mk_api(v):
    return AddressAPI(None, v['_address_prefix'], v['_pay_to_script_prefix'], None)


PREFIX = Opt(Bytes(sample_max=2, interesting=[b"\x00", b"\x05", b"\x6f", b"\x1c\xb8"]))
API = Obj(AddressAPI, dict(_address_prefix=PREFIX, _pay_to_script_prefix=PREFIX, b2a=Const(b2a_hashed_base58)), make=_mk_api)


def _addr(prefix, h):
    blob = prefix + h
    return b58_text(blob + dsha256(blob)[:4])


@contract("pycoin.networks.AddressAPI:AddressAPI.for_p2pkh")
class for_p2pkh:
    props = ["C08"]
    sig = dict(self=API, h160=Bytes(n=20))
    returns = Opt(Str())

    def ensures_text(self, h160, result):
        if self._address_prefix is None:
            return result is None
        return result == _addr(self._address_prefix, h160)

    canaries = [("self._address_prefix + h160", "self._pay_to_script_prefix + h160")]


@contract("pycoin.networks.AddressAPI:AddressAPI.for_p2sh")
class for_p2sh:
    props = ["C08"]
    sig = dict(self=API, h160=Bytes(n=20))
    returns = Opt(Str())

    def ensures_text(self, h160, result):
        if self._pay_to_script_prefix is None:
            return result is None
        return result == _addr(self._pay_to_script_prefix, h160)


# ---------------------------------------------------------------- the address text determines prefix || hash
import pycoin.encoding.b58 as _b58
from contracts.c11_base58 import base58_roundtrip_spec, ascii_text


def address_payload(prefix, h160):
    """Base58Check-decode the address that AddressAPI builds for (prefix, hash)"""
    api = AddressAPI(None, prefix, None, None)
    return _b58.a2b_hashed_base58(api.for_p2pkh(h160))


@contract("contracts.c08_address:address_payload")
class c_address_payload:
    """decoding a P2PKH address gives back exactly prefix || hash: two (prefix, hash) pairs with different concatenations never
    share an address text (through the contracts of for_p2pkh and a2b_hashed_base58 and the Base58 round-trip theorem)"""
    props = ["C08"]
    sig = dict(prefix=Bytes(minlen=1, sample_max=2, interesting=[b"\x00", b"\x6f", b"\x1c\xb8"]), h160=Bytes(n=20))
    returns = Bytes()

    def hints(prefix, h160):
        d = prefix + h160 + dsha256(prefix + h160)[:4]
        base58_roundtrip_spec(d)
        ascii_text(positional(58, dval_upto(256, d, len(d)), zpre_upto(256, d, len(d))))

    def ensures_payload(prefix, h160, result):
        return result == prefix + h160
