"""C04: BIP143 preimage and its fork-id / single-SHA256 variants, on the real SegwitChecker methods."""
from pyvc.api import *
from spec.core import *
from spec.wire import *
from spec.sighash import *
from contracts.c07_tx import TX, TXIN, TXOUT, mk_tx
from pycoin.coins.bitcoin.SolutionChecker import BitcoinSolutionChecker
from pycoin.coins.bitcoin.Tx import Tx
from pycoin.coins.SolutionChecker import ScriptError

S = "pycoin.coins.bitcoin.SegwitChecker:SegwitChecker."


def mk_tx_u(v):
    t = mk_tx(v)
    t.unspents = list(v['unspents'])
    return t


TXU = Obj(Tx, dict(version=Int(0, 2 ** 32 - 1), txs_in=SeqOf(TXIN, minlen=1, sample_max=3), txs_out=SeqOf(TXOUT, sample_max=3), lock_time=Int(0, 2 ** 32 - 1),
                   unspents=SeqOf(TXOUT, minlen=1, sample_max=3)), make=mk_tx_u)


def mk_checker(cls):
    def mk(v):
        return cls(v['tx'])
    return mk


CHECKER = Obj(BitcoinSolutionChecker, dict(tx=TXU), make=mk_checker(BitcoinSolutionChecker))
HT = Int(0, 2 ** 32 - 1, interesting=[0, 1, 2, 3, 0x41, 0x42, 0x43, 0x81, 0x82, 0x83, 0xc1, 0xc3, 0xff, 0x1f, 0x20, 0x4f41])


def _wf(self):
    tx = self.tx
    return (0 <= tx.version and tx.version < 2 ** 32 and 0 <= tx.lock_time and tx.lock_time < 2 ** 32
            and all_wf_txin(tx.txs_in) and all_wf_txout(tx.txs_out) and all_wf_txout(tx.unspents))


from contracts.c07_tx import all_wf_txin_at, all_wf_txout_at


@contract(S + "_hash_prevouts")
class hash_prevouts_c:
    props = ["C04"]
    sig = dict(self=CHECKER, hash_type=HT)
    returns = Bytes(n=32)

    def requires(self, hash_type):
        return _wf(self)

    def ensures_spec(self, hash_type, result):
        return result == hash_prevouts(self.tx.txs_in, hash_type, False)

    canaries = [("hash_type & SIGHASH_ANYONECANPAY", "hash_type & SIGHASH_SINGLE"), ("f.write(tx_in.previous_hash)", "pass")]


@invariant(S + "_hash_prevouts", 0, modifies=["f"])
def _inv_prevouts(self, f, _i):
    xs = self.tx.txs_in
    if _i < len(xs):
        all_wf_txin_at(xs, len(xs), _i)
    return fdata(f) == ser_prevouts_upto(xs, _i)


@contract(S + "_hash_sequence")
class hash_sequence_c:
    props = ["C04"]
    sig = dict(self=CHECKER, hash_type=HT)
    returns = Bytes(n=32)

    def requires(self, hash_type):
        return _wf(self)

    def ensures_spec(self, hash_type, result):
        return result == hash_sequence(self.tx.txs_in, hash_type, False)

    canaries = [("hash_type & 31 == SIGHASH_SINGLE", "hash_type & 3 == SIGHASH_SINGLE"), ("or hash_type & 31 == SIGHASH_NONE", "")]


@invariant(S + "_hash_sequence", 0, modifies=["f"])
def _inv_sequences(self, f, _i):
    xs = self.tx.txs_in
    if _i < len(xs):
        all_wf_txin_at(xs, len(xs), _i)
    return fdata(f) == ser_sequences_upto(xs, _i)


@contract(S + "_hash_outputs")
class hash_outputs_c:
    props = ["C04"]
    sig = dict(self=CHECKER, hash_type=HT, tx_in_idx=Int(0))
    returns = Bytes(n=32)
    options = {'reveal': ['ser_txout']}

    def requires(self, hash_type, tx_in_idx):
        return _wf(self) and tx_in_idx < len(self.tx.txs_in)

    def ensures_spec(self, hash_type, tx_in_idx, result):
        return result == hash_outputs(self.tx.txs_out, hash_type, tx_in_idx, False)

    canaries = [("hash_type & 31 == SIGHASH_SINGLE", "hash_type & 31 == SIGHASH_ALL"), ("tx_in_idx >= len(txs_out)", "tx_in_idx > len(txs_out)")]


@invariant(S + "_hash_outputs", 0, modifies=["f"])
def _inv_outputs(self, f, txs_out, hash_type, tx_in_idx, _i):
    full = self.tx.txs_out
    if _i < len(txs_out):
        if base_type(hash_type) == SIGHASH_SINGLE:
            all_wf_txout_at(full, len(full), tx_in_idx)
        else:
            all_wf_txout_at(full, len(full), _i)
    return (fdata(f) == ser_txouts_upto(txs_out, _i),
            implies(base_type(hash_type) == SIGHASH_SINGLE, tx_in_idx < len(full) and txs_out == full[tx_in_idx:tx_in_idx + 1]),
            implies(base_type(hash_type) != SIGHASH_SINGLE, txs_out == full))


@contract(S + "_segwit_signature_preimage")
class segwit_preimage_c:
    props = ["C04", "C06"]
    sig = dict(self=CHECKER, script=Bytes(sample_max=80), tx_in_idx=Int(0), hash_type=HT)
    returns = Bytes()

    def requires(self, script, tx_in_idx, hash_type):
        return _wf(self) and tx_in_idx < len(self.tx.txs_in) and tx_in_idx < len(self.tx.unspents)

    def hints(self, script, tx_in_idx, hash_type):
        tx = self.tx
        all_wf_txin_at(tx.txs_in, len(tx.txs_in), tx_in_idx)
        all_wf_txout_at(tx.unspents, len(tx.unspents), tx_in_idx)
        return True

    def ensures_bip143(self, script, tx_in_idx, hash_type, result):
        tx = self.tx
        return result == bip143_preimage(tx.version, tx.txs_in, tx.txs_out, tx.lock_time, script, tx_in_idx,
                                         tx.unspents[tx_in_idx].coin_value, hash_type, False)

    canaries = [("stream_struct('Q', f, tx_out.coin_value)", "stream_struct('Q', f, 0)"), ("stream_struct('L', f, tx_in.sequence)", "stream_struct('L', f, self.tx.lock_time)")]


@contract(S + "_signature_for_hash_type_segwit")
class sig_hash_segwit_c:
    props = ["C04", "C06"]
    sig = dict(self=CHECKER, script=Bytes(sample_max=80), tx_in_idx=Int(0), hash_type=HT)
    returns = Int(0, 2 ** 256 - 1)

    def requires(self, script, tx_in_idx, hash_type):
        return _wf(self) and tx_in_idx < len(self.tx.txs_in) and tx_in_idx < len(self.tx.unspents)

    def ensures_digest(self, script, tx_in_idx, hash_type, result):
        tx = self.tx
        return result == be_int_k(dsha256(bip143_preimage(tx.version, tx.txs_in, tx.txs_out, tx.lock_time, script, tx_in_idx,
                                                          tx.unspents[tx_in_idx].coin_value, hash_type, False)), 32)

    canaries = [("double_sha256(self._segwit_signature_preimage(script, tx_in_idx, hash_type))", "double_sha256(self._segwit_signature_preimage(script, tx_in_idx, 1))")]


# ---------------------------------------------------------------- fork-id coins
from pycoin.coins.bcash.SolutionChecker import BcashSolutionChecker
from pycoin.coins.bgold.SolutionChecker import BgoldSolutionChecker

BCH_CHECKER = Obj(BcashSolutionChecker, dict(tx=TXU), make=mk_checker(BcashSolutionChecker))
BTG_CHECKER = Obj(BgoldSolutionChecker, dict(tx=TXU), make=mk_checker(BgoldSolutionChecker))


def _no_forkid(self, tx_out_script, unsigned_txs_out_idx, hash_type):
    return (hash_type // 64) % 2 == 0


@contract("pycoin.coins.bcash.SolutionChecker:BcashSolutionChecker._signature_hash")
class bch_signature_hash:
    props = ["C04"]
    returns = Int(0, 2 ** 256 - 1)
    sig = dict(self=BCH_CHECKER, tx_out_script=Bytes(sample_max=80), unsigned_txs_out_idx=Int(0), hash_type=HT)

    def requires(self, tx_out_script, unsigned_txs_out_idx, hash_type):
        return _wf(self) and unsigned_txs_out_idx < len(self.tx.txs_in) and unsigned_txs_out_idx < len(self.tx.unspents)

    def ensures_bip143_forkid(self, tx_out_script, unsigned_txs_out_idx, hash_type, result):
        tx = self.tx
        return result == be_int_k(dsha256(bip143_preimage(tx.version, tx.txs_in, tx.txs_out, tx.lock_time, tx_out_script, unsigned_txs_out_idx,
                                                          tx.unspents[unsigned_txs_out_idx].coin_value, hash_type, False)), 32)

    raises = [(ScriptError, _no_forkid, True)]
    canaries = [("hash_type & SIGHASH_FORKID != SIGHASH_FORKID", "False")]


@contract("pycoin.coins.bgold.SolutionChecker:BgoldSolutionChecker._signature_for_hash_type_segwit")
class btg_sig_hash_segwit:
    props = ["C04"]
    returns = Int(0, 2 ** 256 - 1)
    sig = dict(self=BTG_CHECKER, script=Bytes(sample_max=80), tx_in_idx=Int(0), hash_type=Int(0, 255))

    def requires(self, script, tx_in_idx, hash_type):
        return _wf(self) and tx_in_idx < len(self.tx.txs_in) and tx_in_idx < len(self.tx.unspents)

    def ensures_forkid_folded(self, script, tx_in_idx, hash_type, result):
        tx = self.tx
        return result == be_int_k(dsha256(bip143_preimage(tx.version, tx.txs_in, tx.txs_out, tx.lock_time, script, tx_in_idx,
                                                          tx.unspents[tx_in_idx].coin_value, hash_type + 79 * 256, False)), 32)

    canaries = [("self.FORKID_BTG << 8", "self.FORKID_BTG << 0")]


@contract("pycoin.coins.bgold.SolutionChecker:BgoldSolutionChecker._signature_hash")
class btg_signature_hash:
    props = ["C04"]
    returns = Int(0, 2 ** 256 - 1)
    sig = dict(self=BTG_CHECKER, tx_out_script=Bytes(sample_max=80), unsigned_txs_out_idx=Int(0), hash_type=Int(0, 255))

    def requires(self, tx_out_script, unsigned_txs_out_idx, hash_type):
        return _wf(self) and unsigned_txs_out_idx < len(self.tx.txs_in) and unsigned_txs_out_idx < len(self.tx.unspents)

    def ensures_bip143_forkid(self, tx_out_script, unsigned_txs_out_idx, hash_type, result):
        tx = self.tx
        return result == be_int_k(dsha256(bip143_preimage(tx.version, tx.txs_in, tx.txs_out, tx.lock_time, tx_out_script, unsigned_txs_out_idx,
                                                          tx.unspents[unsigned_txs_out_idx].coin_value, hash_type + 79 * 256, False)), 32)

    raises = [(ScriptError, _no_forkid, True)]
