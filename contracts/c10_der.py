"""C10/C05: DER encoding of signatures -- encoder == the DER spec, strict decoder inverts it and refuses trailing bytes."""
from pyvc.api import *
from spec.core import *
from spec.scriptnum import *
from spec.der import *
from pycoin.satoshi.der import UnexpectedDER

D = "pycoin.satoshi.der:"
R256 = Int(0, 2 ** 256 - 1, interesting=[0, 1, 127, 128, 255, 256, 2 ** 255 - 1, 2 ** 255, 2 ** 256 - 1])


@contract(D + "encode_integer")
class encode_integer:
    props = ["C10", "C05"]
    sig = dict(r=R256)
    returns = Bytes()
    options = {'reveal': ['der_int']}

    def ensures_der(r, result):
        return (result == der_int(r), 3 <= len(result), len(result) <= 35)

    canaries = [("ord(s[:1]) <= 127", "ord(s[:1]) < 127"), ("bytes([len(s) + 1]) + b'\\x00' + s", "bytes([len(s)]) + b'\\x00' + s")]


@contract(D + "sigencode_der")
class sigencode_der:
    props = ["C10", "C05"]
    sig = dict(r=R256, s=R256)
    returns = Bytes()

    def ensures_der(r, s, result):
        return result == der_sig(r, s)


@contract(D + "sigdecode_der")
class sigdecode_der_strict:
    props = ["C10", "C05"]
    # gr, gs, trail are ghost: the input is the DER encoding of (gr, gs) followed by arbitrary trailing bytes
    sig = dict(sig_der=Bytes(sample_max=80), use_broken_open_ssl_mechanism=Const(False), gr=R256, gs=R256, trail=Bytes(sample_max=3))
    options = {'reveal': ['der_int']}

    def requires(sig_der, use_broken_open_ssl_mechanism, gr, gs, trail):
        return sig_der == der_sig(gr, gs) + trail

    def hints(sig_der, use_broken_open_ssl_mechanism, gr, gs, trail):
        be_value_of_min_bytes(gr)
        be_value_of_min_bytes(gs)
        be_value_leading_zero(be_min_bytes(gr))
        be_value_leading_zero(be_min_bytes(gs))
        min_bytes_no_leading_zero(gr)
        min_bytes_no_leading_zero(gs)
        min_bytes_len(gr, 32)
        min_bytes_len(gs, 32)
        return True

    def ensures_inverse(sig_der, use_broken_open_ssl_mechanism, gr, gs, trail, result):
        return (result[0] == gr, result[1] == gs)

    def _cut1(sig_der, gr, gs, trail, rs_strings, remainder):
        b = der_int_body(gr)
        return (rs_strings == der_int(gr) + der_int(gs), remainder == trail,
                der_int(gr) == b"\x02" + bytes([len(b)]) + b, len(b) >= 1, len(b) <= 33,
                rs_strings[0] == 2, rs_strings[1] == len(b), rs_strings[2:2 + len(b)] == b, rs_strings[2 + len(b):] == der_int(gs),
                be_value(b) == gr, b[0] < 128)

    def _cut2(gr, gs, r, rest):
        b = der_int_body(gs)
        return (r == gr, rest == der_int(gs),
                der_int(gs) == b"\x02" + bytes([len(b)]) + b, len(b) >= 1, len(b) <= 33,
                rest[0] == 2, rest[1] == len(b), rest[2:2 + len(b)] == b, rest[2 + len(b):] == b"",
                be_value(b) == gs, b[0] < 128)

    def _cut3(gs, s, remainder):
        return (s == gs, remainder == b"")

    cuts = [("rs_strings, remainder = remove_sequence(sig_der)", _cut1),
            ("r, rest = remove_integer(rs_strings", _cut2),
            ("s, remainder = remove_integer(rest", _cut3)]

    def _trailing(sig_der, use_broken_open_ssl_mechanism, gr, gs, trail):
        return len(trail) > 0

    raises = [(UnexpectedDER, _trailing, True)]
    canaries = [("if remainder and (not use_broken_open_ssl_mechanism):\n        raise UnexpectedDER('trailing bytes after DER signature')", "if False:\n        raise UnexpectedDER('trailing bytes after DER signature')")]

    def samples(rng):
        from pycoin.satoshi.der import sigencode_der
        r, s = R256.sample(rng), R256.sample(rng)
        tr = b"" if rng.random() < 0.6 else bytes([rng.randrange(256)])
        return dict(sig_der=sigencode_der(r, s) + tr, use_broken_open_ssl_mechanism=False, gr=r, gs=s, trail=tr)


# ---------------------------------------------------------------- decoder pieces (each small; sigdecode_der composes their contracts)
@contract(D + "read_length")
class read_length:
    props = ["C10"]
    sig = dict(string=Bytes(sample_max=6))
    returns = Tup(Int(), Int())

    def requires(string):
        return True

    def ensures_length(string, result):
        s0 = string[0]
        if s0 < 128:
            return (result[0] == s0, result[1] == 1)
        llen = s0 - 128
        return (result[0] == be_value(string[1:1 + llen]), result[1] == 1 + llen)

    def _truncated(string):
        return len(string) == 0 or (string[0] >= 128 and string[0] - 128 > len(string) - 1)

    def _empty_long_form(string):
        return len(string) > 0 and string[0] == 128

    raises = [(UnexpectedDER, _truncated, True), (ValueError, _empty_long_form, True)]
    canaries = [("llen > len(string) - 1", "llen > len(string)")]


@contract(D + "remove_sequence")
class remove_sequence:
    props = ["C10"]
    sig = dict(string=Bytes(sample_max=12))
    returns = Tup(Bytes(), Bytes())

    def requires(string):
        # short-form length (the only form a signature of two 256-bit integers needs)
        return len(string) >= 2 and string[1] < 128

    def ensures_split(string, result):
        n = string[1]
        return (result[0] == string[2:2 + n], result[1] == string[2 + n:])

    def _not_sequence(string):
        return string[0] != 0x30

    raises = [(UnexpectedDER, _not_sequence, True)]


@contract(D + "remove_integer")
class remove_integer:
    props = ["C10"]
    sig = dict(string=Bytes(sample_max=12), use_broken_open_ssl_mechanism=Bool())
    returns = Tup(Int(), Bytes())

    def requires(string, use_broken_open_ssl_mechanism):
        return len(string) >= 2 and string[1] < 128 and string[1] > 0

    def ensures_value(string, use_broken_open_ssl_mechanism, result):
        n = string[1]
        body = string[2:2 + n]
        v = be_value(body)
        return (result[1] == string[2 + n:],
                result[0] == (v if (body[0] < 128 or use_broken_open_ssl_mechanism) else v - 256 ** 0 * pow2(8 * n)))

    def _bad(string, use_broken_open_ssl_mechanism):
        return string[0] != 0x02 or len(string) < 2 + string[1]

    raises = [(UnexpectedDER, _bad, True)]
